"""writes units/hintfree.json: for every function under contract that carries proof hints, which of its own postcondition clauses
FAIL when all its hints are dropped, on the tree the contracts were written for (run once; committed). The driver uses it in
degraded mode: a postcondition that needed the (now dropped) hints decides nothing; one that was provable without them does."""
import glob, json, os, re, sys, tempfile, shutil
from concurrent.futures import ThreadPoolExecutor
HERE = os.path.dirname(os.path.abspath(__file__))
sys.path.insert(0, HERE)
import assemble, verus_run
from props import UNIT_RLIMIT
repo = sys.argv[1] if len(sys.argv) > 1 else '/repo'
only = sys.argv[2:] 
units = [os.path.basename(f)[:-3] for f in sorted(glob.glob(os.path.join(HERE, '..', 'units', 'verus', '*.rs')))]
if only:
    units = [u for u in units if u in only]
outp = os.path.join(HERE, '..', 'units', 'hintfree.json')
table = json.load(open(outp)) if os.path.exists(outp) else {}
wd = tempfile.mkdtemp(prefix='e57-hintfree.')


def norm(c):
    return re.sub(r'\s+', ' ', c or '')[:160]


def prep(unit, tpl, fid):
    try:
        text, meta = assemble.assemble(tpl, repo, degrade=[fid])
    except (assemble.LostAnchor, assemble.TemplateError) as ex:
        return (fid, None, None, {'fails': ['*'], 'note': 'assembly without hints not possible: %s' % str(ex)[:160]})
    if fid not in meta.get('degraded_fns', []):
        return (fid, None, None, None)
    path = os.path.join(wd, 'u_%s_%s.rs' % (unit, re.sub(r'\W+', '_', fid)))
    open(path, 'w').write(text)
    return (fid, path, meta, None)


def one(unit, job):
    fid, path, meta, fixed = job
    if path is None:
        return fid, fixed
    res = verus_run.run_verus(path, meta, wd, rlimit=max(40, UNIT_RLIMIT.get(unit) or 0), threads=4, timeout=900,
                              extra=['--verify-root', '--verify-function', fid], multiple_errors=60)
    os.remove(path)
    if res['status'] == 'undecided':
        return fid, {'fails': ['*'], 'note': res.get('reason', '')[:200]}
    fails = sorted(set(norm(f['clause']) for f in res['failures'] if f['region'] == fid and f['message'].startswith('postcondition not satisfied')))
    other = sorted(set(f['message'] for f in res['failures'] if f['region'] == fid and not f['message'].startswith('postcondition not satisfied')))
    return fid, {'fails': fails, 'other_failures': other}


try:
    for unit in units:
        tpl = os.path.join(HERE, '..', 'units', 'verus', unit + '.rs')
        text, meta = assemble.assemble(tpl, repo)
        fids = [f['id'] for f in meta['functions'] if not f['canary'] and not f.get('known') and not f.get('lemma')]
        jobs = [prep(unit, tpl, fid) for fid in fids]      # assembly is not thread safe: sequential
        with ThreadPoolExecutor(max_workers=4) as ex:
            results = list(ex.map(lambda job: one(unit, job), jobs))
        table[unit] = dict((fid, r) for fid, r in results if r is not None)
        print(unit, len(table[unit]), 'functions with hints;', sum(1 for r in table[unit].values() if r['fails']), 'need them for a postcondition')
        json.dump(table, open(outp, 'w'), indent=1, sort_keys=True)
finally:
    shutil.rmtree(wd, ignore_errors=True)
