"""writes units/snapshots.json: comment-stripped text of every function named by a //@fn directive, taken from the tree the
contracts were written for (run once on the pinned tree with the fix commits; committed). Used to recognise renamed identifiers."""
import glob, json, os, re, sys
HERE = os.path.dirname(os.path.abspath(__file__))
sys.path.insert(0, HERE)
import assemble
repo = sys.argv[1] if len(sys.argv) > 1 else '/repo'
snaps = {}
for f in sorted(glob.glob(os.path.join(HERE, '..', 'units', 'verus', '*.rs')) + glob.glob(os.path.join(HERE, '..', 'units', 'verus', 'prelude', '*.rs'))):
    for ln in open(f):
        if not ln.startswith('//@fn '):
            continue
        a = ln.split()
        if len(a) < 4 or a[1] == '_end':
            continue
        rel, owner, name = a[1], a[2], a[3]
        opts = dict(x.split('=', 1) for x in a[4:] if '=' in x)
        try:
            src, kind, (fname, s, b, e) = assemble.locate_fn(repo, rel, owner, name, opts.get('trait') or None)
        except Exception as ex:
            print('skip', rel, owner, name, ex)
            continue
        snaps['%s|%s|%s|%s' % (rel, owner, name, opts.get('trait') or '')] = assemble.strip_comments(src[s:e + 1])
json.dump(snaps, open(os.path.join(HERE, '..', 'units', 'snapshots.json'), 'w'), indent=0, sort_keys=True)
print(len(snaps), 'function snapshots')
