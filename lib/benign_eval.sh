#!/bin/bash
# usage: lib/benign_eval.sh <worktree> <diff-file> <PROP>... : applies a behaviour-preserving change in a scratch worktree and runs
# the given checks against THAT tree (E57_REPO); any VIOLATION here is a false alarm of the machinery, UNDECIDED is a non-decision
wt=$1; diff=$2; shift 2
cd $wt || exit 2
git checkout -q -- . ; git apply $diff || { echo "diff does not apply"; exit 2; }
[ -f Cargo.lock ] || cp /repo/Cargo.lock .
export E57_REPO=$wt E57_EVIDENCE_DIR=/tmp/e57-benign-ev/$(basename $wt) E57_REPLAY_DIR=/tmp/e57-benign-ev/$(basename $wt)/replays
cd /verif
for p in "$@"; do echo "== $(basename $diff) check $p"; ./check $p 2>&1 | grep -E "VIOLATION|UNDECIDED|^property=" | cut -c1-330; done
cd $wt; git checkout -q -- .
