"""Kani units: harness modules appended at end of file to a scratch copy of the real crate."""
import os
import re
import shutil
import subprocess
import sys
import time

HERE = os.path.dirname(os.path.abspath(__file__))
VERIF = os.path.dirname(HERE)
sys.path.insert(0, HERE)
import assemble  # noqa: E402

IGNORED_CHECKS = [r'^NaN on ', r'^arithmetic overflow on floating-point']
# E57_TARGET_SUFFIX: separate build directories for matrix runs that evaluate several trees side by side (registered checks run one at a time)
KANI_TARGET = os.path.join(VERIF, '.cache', 'kani-target' + os.environ.get('E57_TARGET_SUFFIX', ''))


def parse_group(name):
    """-> dict(targets: {file: module_text}, harnesses: {name: meta}, contracts: [(owner, fn, file, text)])"""
    path = os.path.join(VERIF, 'units', 'kani', name + '.rs')
    g = {'name': name, 'target': None, 'harnesses': {}, 'contracts': [], 'module': '', 'stubs_fmt': True, 'extracts': []}
    lines = open(path).read().split('\n')
    i = 0
    mode = None
    cur = None
    while i < len(lines):
        ln = lines[i]
        st = ln.strip()
        if st.startswith('//@target '):
            g['target'] = st.split()[1]
        elif st.startswith('//@harness '):
            parts = st.split(None, 2)
            hname = parts[1]
            meta = {'serves': [], 'kind': 'complete', 'note': '', 'fn': ''}
            rest = parts[2] if len(parts) > 2 else ''
            for m in re.finditer(r'(\w+)=("([^"]*)"|\S+)', rest):
                k = m.group(1)
                v = m.group(3) if m.group(3) is not None else m.group(2)
                if k == 'serves':
                    meta['serves'] = v.split(',')
                else:
                    meta[k] = v
            g['harnesses'][hname] = meta
        elif st.startswith('//@contract '):
            parts = st.split()
            cur = {'file': parts[1], 'owner': parts[2], 'fn': parts[3], 'text': ''}
            mode = 'contract'
        elif st == '//@endcontract':
            g['contracts'].append(cur)
            mode = None
        elif st == '//@module':
            mode = 'module'
        elif st.startswith('//@extract '):
            # //@extract <file> <Owner|-> <fn> as <newname> ;; <regex> ==> <repl> ;; ...
            head, *rws = st[len('//@extract '):].split(' ;; ')
            parts = head.split()
            g['extracts'].append({'file': parts[0], 'owner': parts[1], 'fn': parts[2], 'as': parts[4],
                                  'rws': [assemble.parse_rw(r) for r in rws]})
            g['module'] += '//@@EXTRACT %d@@\n' % (len(g['extracts']) - 1)
        else:
            if mode == 'contract':
                cur['text'] += ln + '\n'
            elif mode == 'module':
                g['module'] += ln + '\n'
        i += 1
    return g


def make_scratch(repo, workdir, groups):
    crate = os.path.join(workdir, 'crate')
    if os.path.exists(crate):
        shutil.rmtree(crate)
    os.makedirs(crate)
    shutil.copytree(os.path.join(repo, 'src'), os.path.join(crate, 'src'))
    shutil.copy(os.path.join(repo, 'Cargo.lock'), crate)
    toml = open(os.path.join(repo, 'Cargo.toml')).read()
    if '[workspace]' in toml:
        toml = toml[:toml.index('[workspace]')]
    toml += '\n[workspace]\n'
    open(os.path.join(crate, 'Cargo.toml'), 'w').write(toml)
    os.makedirs(os.path.join(crate, '.cargo'))
    open(os.path.join(crate, '.cargo', 'config.toml'), 'w').write('[net]\noffline = true\n')
    # contracts (attribute injection above the fn), then modules appended at end of file
    for g in groups:
        for c in g['contracts']:
            p = os.path.join(crate, c['file'])
            assemble._src_cache.clear()
            src, kind, (fname, s, b, e) = assemble.locate_fn(crate, c['file'], c['owner'], c['fn'])
            # insert before visibility / attributes of the fn: go back over `pub`, `pub(crate)`
            pre = re.search(r'(pub(\([^)]*\))?\s+)$', src[:s])
            at = pre.start() if pre else s
            src = src[:at] + c['text'] + src[at:]
            open(p, 'w').write(src)
            assemble._src_cache.clear()
    for g in groups:
        # functions copied mechanically into the harness module (receiver-free replicas etc.)
        for idx, ex in enumerate(g['extracts']):
            assemble._src_cache.clear()
            src, kind, (fname, s0, b0, e0) = assemble.locate_fn(repo, ex['file'], ex['owner'], ex['fn'])
            text = assemble.strip_comments(src[s0:e0 + 1])
            log = []
            text = assemble.apply_rewrites(text, ex['rws'], log, ex['fn'])
            text = re.sub(r'\bfn\s+' + re.escape(ex['fn']) + r'\b', 'fn ' + ex['as'], text, count=1)
            g['module'] = g['module'].replace('//@@EXTRACT %d@@' % idx, text)
            g.setdefault('extract_log', []).extend(log)
    for g in groups:
        p = os.path.join(crate, g['target'])
        if not os.path.exists(p):
            raise assemble.LostAnchor('kani target file missing: ' + g['target'])
        with open(p, 'a') as f:
            f.write('\n#[cfg(kani)]\nmod kani_verif_%s {\n    #![allow(unused)]\n    use super::*;\n%s\n}\n'
                    % (g['name'], g['module']))
    return crate


def run_kani(crate, harnesses, timeout, jobs=8, extra=None):
    env = dict(os.environ)
    env['CARGO_NET_OFFLINE'] = 'true'
    env['CARGO_TARGET_DIR'] = KANI_TARGET
    os.makedirs(KANI_TARGET, exist_ok=True)
    cmd = ['cargo', 'kani', '-Z', 'function-contracts', '-Z', 'stubbing', '--output-format=terse', '-j', str(jobs)]
    for h in harnesses:
        cmd += ['--harness', h]
    if extra:
        cmd += extra
    t0 = time.time()
    try:
        p = subprocess.run(cmd, cwd=crate, env=env, capture_output=True, text=True, timeout=timeout)
        outp = p.stdout + '\n' + p.stderr
        rc = p.returncode
    except subprocess.TimeoutExpired as ex:
        outp = ((ex.stdout or b'').decode('utf8', 'replace') if isinstance(ex.stdout, bytes) else (ex.stdout or '')) + '\nTIMEOUT'
        rc = 124
        subprocess.run(['pkill', '-f', 'cbmc.*' + os.path.basename(os.path.dirname(crate))], capture_output=True)
    return rc, outp, time.time() - t0, ' '.join(cmd)


def parse_terse(outp):
    """-> {harness_short_name: {'status': 'ok'|'failed', 'checks': n, 'failed': [(desc, loc)], 'time': s}}"""
    res = {}
    cur_by_thread = {}
    lines = outp.split('\n')
    i = 0
    cur = None
    while i < len(lines):
        ln = lines[i]
        m = re.match(r'(Thread \d+: )?Checking harness (\S+?)\.\.\.', ln)
        if m:
            th = m.group(1) or ''
            cur_by_thread[th] = m.group(2)
            if not th:
                cur = m.group(2)
            i += 1
            continue
        m = re.match(r'(Thread \d+): *$', ln)
        if m:
            cur = cur_by_thread.get(m.group(1) + ': ')
            i += 1
            continue
        if cur:
            r = res.setdefault(cur, {'status': None, 'checks': 0, 'failed': [], 'time': 0.0, 'stubs': []})
            m = re.match(r'\s*\*\* (\d+) of (\d+) failed', ln)
            if m:
                r['checks'] = int(m.group(2))
            m = re.match(r'Failed Checks: (.*)$', ln)
            if m:
                loc = lines[i + 1].strip() if i + 1 < len(lines) else ''
                r['failed'].append((m.group(1).strip(), loc))
            m = re.match(r'VERIFICATION:- (\w+)', ln)
            if m:
                r['status'] = 'ok' if m.group(1) == 'SUCCESSFUL' else 'failed'
            m = re.match(r'Verification Time: ([0-9.]+)s', ln)
            if m:
                r['time'] = float(m.group(1))
        i += 1
    return res


def effective_failures(r):
    return [(d, l) for d, l in r['failed'] if not any(re.search(p, d) for p in IGNORED_CHECKS)]


def playback(crate, harness_full, timeout=600):
    """re-run one failing harness with concrete playback, inject the test, run it natively"""
    env = dict(os.environ)
    env['CARGO_NET_OFFLINE'] = 'true'
    env['CARGO_TARGET_DIR'] = KANI_TARGET
    cmd = ['cargo', 'kani', '-Z', 'function-contracts', '-Z', 'stubbing', '-Z', 'concrete-playback',
           '--concrete-playback=print', '--harness', harness_full]
    try:
        p = subprocess.run(cmd, cwd=crate, env=env, capture_output=True, text=True, timeout=timeout)
    except subprocess.TimeoutExpired:
        return None
    outp = p.stdout
    m = re.search(r'```\s*\n(.*?)```', outp, re.S)
    if not m:
        return None
    test = m.group(1)
    tm = re.search(r'fn (kani_concrete_playback_\w+)', test)
    if not tm:
        return {'test': test, 'native': 'could not find test name', 'confirmed': False}
    tname = tm.group(1)
    # inject into the module that holds the harness
    parts = harness_full.split('::')
    modname = parts[-2]
    injected = False
    for root, _, files in os.walk(os.path.join(crate, 'src')):
        for fn in files:
            fp = os.path.join(root, fn)
            s = open(fp).read()
            key = 'mod %s {' % modname
            if key in s:
                idx = s.rindex('}')
                s = s[:idx] + '\n' + test + '\n}\n'
                open(fp, 'w').write(s)
                injected = True
    if not injected:
        return {'test': test, 'native': 'could not inject', 'confirmed': False}
    cmd2 = ['cargo', 'kani', 'playback', '-Z', 'concrete-playback', '--', tname]
    try:
        p2 = subprocess.run(cmd2, cwd=crate, env=env, capture_output=True, text=True, timeout=timeout)
        allout = p2.stdout + p2.stderr
        keep = [l for l in p2.stdout.split('\n') if l.strip()][-40:]
        native = '\n'.join(keep) + '\n' + '\n'.join(l for l in p2.stderr.split('\n') if 'panicked' in l or 'error' in l)[-1500:]
        confirmed = p2.returncode != 0 and ('panicked' in allout or 'FAILED' in allout)
    except subprocess.TimeoutExpired:
        native = 'native replay timed out'
        confirmed = False
    return {'test': test, 'native': native, 'confirmed': confirmed}


def run_groups(prop, group_names, repo, workdir, out, tier, known, match_known):
    try:
        groups = [parse_group(n) for n in group_names]
        crate = make_scratch(repo, workdir, groups)
    except assemble.LostAnchor as ex:
        out.undecided.append('kani: lost anchor: %s' % ex)
        return
    sel = []
    hmeta = {}
    for g in groups:
        for h, meta in g['harnesses'].items():
            if prop not in meta['serves']:
                continue
            if meta.get('tier') == 'thorough' and tier != 'thorough':
                continue
            sel.append(h)
            hmeta[h] = dict(meta, group=g['name'], target=g['target'])
    if not sel:
        out.undecided.append('kani: no harness selected for %s' % prop)
        return
    tmo = 3000 if tier == 'thorough' else 1500
    rc, outp, wall, cmd = run_kani(crate, sel, tmo, jobs=min(8, len(sel)))
    out.cmds.append(cmd)
    res = parse_terse(outp)
    byshort = {}
    for full, r in res.items():
        byshort[full.split('::')[-1]] = (full, r)
    stubline = 'Stub:' in outp or 'stub' in outp.lower()
    for h in sel:
        meta = hmeta[h]
        name = 'kani/%s/%s' % (meta['group'], h)
        if h not in byshort or byshort[h][1]['status'] is None:
            tail = outp[-1500:]
            out.undecided.append('%s: no result (%s)' % (name, 'timeout' if rc == 124 else 'build/tool error: ' + tail))
            continue
        full, r = byshort[h]
        fails = effective_failures(r)
        ok = (r['status'] == 'ok') or (r['failed'] and not fails)
        if r['status'] == 'failed' and not r['failed']:
            # failed without listed checks (e.g. unwinding assertion summarised differently)
            ok = False
            fails = [('verification failed (no check listed)', '')]
        rec = {'name': name, 'backend': 'kani+cbmc', 'ok': bool(ok), 'time_ms': int(r['time'] * 1000),
               'checks': r['checks'], 'kind': meta['kind'], 'fn': meta.get('fn', '')}
        if meta['kind'] == 'complete':
            out.obligations.append(rec)
        else:
            out.bounded.append(dict(rec, bound=meta.get('note', '')))
        if meta.get('fn'):
            out.functions.append({'unit': 'kani/' + meta['group'], 'fn': meta['fn'], 'file': meta['target'],
                                  'backend': 'kani', 'harness': h, 'kind': meta['kind']})
        if not ok:
            desc = '; '.join('%s @ %s' % (d, l) for d, l in fails)
            v = {'obligation': '%s [%s]' % (name, '; '.join(d for d, _ in fails)), 'unit': 'kani/' + meta['group'],
                 'fn': meta.get('fn', h), 'message': desc, 'clause': meta.get('note', ''), 'sites': desc,
                 'rendered': desc, 'backend': 'kani', 'cex': None}
            k = match_known(known, prop, v['obligation'], desc)
            if k:
                v['known'] = k
                out.known.append(v)
            else:
                cx = playback(crate, full)
                v['cex'] = cx
                out.violations.append(v)
    out.trusted.add('kani: format!/alloc::fmt::format stubbed where harness says so; libm stubs as declared in unit files')


def counterexample_for(prop, pair, repo, workdir, v):
    """pair = (group, harness): run the paired Kani harness to obtain a replayable counterexample"""
    group, harness = pair
    try:
        g = parse_group(group)
        crate = make_scratch(repo, os.path.join(workdir), [g])
    except Exception as ex:  # noqa
        return
    rc, outp, wall, cmd = run_kani(crate, [harness], 600, jobs=1)
    res = parse_terse(outp)
    for full, r in res.items():
        if full.endswith('::' + harness) and r['status'] == 'failed' and effective_failures(r):
            cx = playback(crate, full)
            if cx:
                v['cex'] = cx
                v['rendered'] += '\n\npaired Kani harness %s/%s: %s' % (group, harness, effective_failures(r))
