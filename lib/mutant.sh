#!/bin/sh
# usage: lib/mutant.sh <PROP> <file> <sed-expr>  — run a check against a mutated scratch copy of /repo (dev aid)
set -e
D=$(mktemp -d /tmp/e57-mut.XXXXXX)
cp -r /repo/src /repo/Cargo.toml /repo/Cargo.lock "$D"/
sed -i -E "$3" "$D/$2"
if diff -q "$D/$2" "/repo/$2" >/dev/null; then echo "MUTATION DID NOT APPLY"; rm -rf "$D"; exit 3; fi
mkdir -p /tmp/e57-mut-ev
E57_REPO="$D" E57_EVIDENCE_DIR=/tmp/e57-mut-ev python3 /verif/lib/driver.py "$1" 2>&1 | grep -E "VIOLATION|UNDECIDED|^property=|failed obligation" ; rm -rf "$D"
