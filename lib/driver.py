"""check driver: decides one property from its Verus units and Kani harness groups."""
import hashlib
import json
import os
import re
import shutil
import sys
import tempfile
import time

HERE = os.path.dirname(os.path.abspath(__file__))
VERIF = os.path.dirname(HERE)
sys.path.insert(0, HERE)
import assemble  # noqa: E402
import verus_run  # noqa: E402
import kani_run  # noqa: E402
import native_run  # noqa: E402
from props import PROPS, TRUSTED_ALLOW, UNIT_RLIMIT  # noqa: E402

REPO = os.environ.get('E57_REPO', '/repo')
try:
    HINTFREE = json.load(open(os.path.join(VERIF, 'units', 'hintfree.json')))
except Exception:
    HINTFREE = {}


def slug(s):
    return re.sub(r'[^A-Za-z0-9_.-]+', '_', s)[:120].strip('_')


def load_known():
    """KNOWN_FINDINGS.txt: lines `known: property=<id> obligation=<regex> witness=<regex> :: text`
    and `fixed: property=<id> <commit> <text>` (fixed entries suppress nothing)."""
    known = []
    p = os.path.join(VERIF, 'KNOWN_FINDINGS.txt')
    if os.path.exists(p):
        for ln in open(p):
            ln = ln.strip()
            if not ln.startswith('known:'):
                continue
            m = re.match(r'known:\s+property=(\S+)\s+obligation=(\S+)\s+witness=(\S+)\s*::\s*(.*)$', ln)
            if m:
                known.append({'property': m.group(1), 'obligation': m.group(2), 'witness': m.group(3),
                              'text': m.group(4)})
    return known


def match_known(known, prop, obligation, witness_text):
    for k in known:
        if k['property'] != prop:
            continue
        if re.search(k['obligation'], obligation) and re.search(k['witness'], witness_text or ''):
            return k
    return None


class Outcome:
    def __init__(self):
        self.undecided = []      # reasons
        self.violations = []     # dicts
        self.known = []          # dicts
        self.obligations = []    # dicts: name, backend, ok, time_ms
        self.functions = []      # functions under contract
        self.trusted = set()
        self.rewrites = []
        self.cmds = []
        self.bounded = []
        self.samples = []
        self.notes = []


def _region_text(text, meta, reg):
    for r in meta['regions']:
        if r['id'] == reg:
            return '\n'.join(text.split('\n')[r['start'] - 1:r['end']])
    return ''


def run_verus_unit(prop, unit, workdir, out, tier, known):
    tpl = os.path.join(VERIF, 'units', 'verus', unit + '.rs')
    degraded = []
    try:
        text, meta = assemble.assemble(tpl, REPO)
    except assemble.LostAnchor as ex0:
        # degraded mode: a function was restructured (loop / statement / rewrite anchor gone). Annotations that refer to code which
        # no longer exists are dropped and the unit is verified without them. A pass is a proof; a definite failure of a contract
        # clause is an obligation that held on the unchanged tree and no longer does (reported, no failing input); anything else is undecided.
        try:
            text, meta = assemble.assemble(tpl, REPO, lenient=True)
            degraded = meta.get('dropped_anchors', [])
            out.notes.append('%s: DEGRADED MODE, annotations dropped because their anchors are gone: %s' % (unit, '; '.join(degraded)[:1500]))
        except assemble.LostAnchor as ex:
            out.undecided.append('%s: lost anchor: %s' % (unit, ex))
            return
    except assemble.TemplateError as ex:
        out.undecided.append('%s: template error: %s' % (unit, ex))
        return
    path = os.path.join(workdir, 'unit_%s.rs' % unit)
    open(path, 'w').write(text)
    # trusted scan
    for k, name, ln in verus_run.scan_trusted(text):
        item = '%s:%s' % (k, name)
        if item not in TRUSTED_ALLOW.get(unit, set()) and item not in TRUSTED_ALLOW.get('*', set()):
            out.undecided.append('%s: unlisted assumption %s at assembled line %d' % (unit, item, ln))
        out.trusted.add('verus %s [%s]: %s' % (k, unit, name))
    res = verus_run.run_verus(path, meta, workdir, rlimit=UNIT_RLIMIT.get(unit))
    missing = []
    if res['status'] == 'undecided' and res.get('compile_errors'):
        # the changed /repo may call helper functions the unit does not know: extract them (no contract) and try once more
        for ce in res['compile_errors']:
            m1 = re.search(r'cannot find function `(\w+)` in this scope', ce['message'])
            m2 = re.search(r'no (?:method|function or associated item|associated function or constant|associated item) named `(\w+)` found for (?:struct|enum|mutable reference|reference) `&?(?:mut )?(\w+)', ce['message'])
            if m1 and (None, m1.group(1)) not in missing:
                missing.append((None, m1.group(1)))
            m3 = re.search(r'cannot find value `([A-Z][A-Z0-9_]*)` in this scope', ce['message'])
            if m3 and ('const', m3.group(1)) not in missing:
                missing.append(('const', m3.group(1)))
            if m2 and (m2.group(2), m2.group(1)) not in missing:
                missing.append((m2.group(2), m2.group(1)))
        if missing:
            try:
                text2, meta2 = assemble.assemble(tpl, REPO, lenient=bool(degraded), auto=missing)
                if meta2.get('auto_included'):
                    open(path, 'w').write(text2)
                    text, meta = text2, meta2
                    out.notes.append('%s: helper functions found in /repo and extracted without contract: %s' % (unit, ', '.join(meta2['auto_included'])))
                    res = verus_run.run_verus(path, meta, workdir, rlimit=UNIT_RLIMIT.get(unit))
            except (assemble.LostAnchor, assemble.TemplateError):
                pass
    if res['status'] == 'undecided' and res.get('compile_errors') and all(ce.get('region') for ce in res['compile_errors']):
        # every compile error lies inside an extracted function: typically a proof hint that names a local the changed code no longer
        # has. Drop the hints of exactly those functions (degraded mode) and try once more; if the real code itself is what Verus
        # rejects, the errors persist and the unit stays undecided.
        bad = sorted(set(ce['region'] for ce in res['compile_errors']))
        try:
            text2, meta2 = assemble.assemble(tpl, REPO, lenient=bool(degraded), auto=(missing or None), degrade=bad)
            path2 = os.path.join(workdir, 'unit_%s_deg.rs' % unit)
            open(path2, 'w').write(text2)
            res2 = verus_run.run_verus(path2, meta2, workdir, rlimit=UNIT_RLIMIT.get(unit))
            if res2 and not res2.get('compile_errors'):
                degraded = list(degraded) + meta2.get('dropped_anchors', [])
                out.notes.append('%s: DEGRADED MODE, proof hints of %s no longer compile against the changed code and were dropped' % (unit, bad))
                text, meta, res, path = text2, meta2, res2, path2
        except (assemble.LostAnchor, assemble.TemplateError):
            pass
    if res['status'] == 'undecided' and res.get('undecided') and not res.get('compile_errors'):
        # resource limit hit (typically while searching for a proof of a FAILING obligation): one retry with 4x the budget
        out.notes.append('%s: rlimit exceeded with default budget, retried with --rlimit 40' % unit)
        res = verus_run.run_verus(path, meta, workdir, rlimit=40, timeout=1800)
        if res['status'] == 'undecided' and res.get('undecided') and not res.get('compile_errors'):
            out.notes.append('%s: rlimit exceeded again, retried with --rlimit 100 and another SMT seed' % unit)
            res = verus_run.run_verus(path, meta, workdir, rlimit=100, timeout=3600, extra=['--smt-option', 'smt.random_seed=7'])
    def _real_failures(r):
        return set((f['region'], f['message'], f['clause']) for f in r['failures']
                   if not f['canary'] and not (f['region'] and any(x['id'] == f['region'] and x.get('known') for x in meta['functions'])))
    if res['status'] == 'failed' and _real_failures(res):
        # a definite failure of a FAILING-BY-CONSTRUCTION obligation persists under any solver seed; a brittle proof does not.
        # Re-run once with another seed and a larger budget and keep only the failures that persist (a pass is a proof).
        res2 = verus_run.run_verus(path, meta, workdir, rlimit=max(40, UNIT_RLIMIT.get(unit) or 0), timeout=1800,
                                   extra=['--smt-option', 'smt.random_seed=11'])
        if res2['status'] in ('ok', 'failed'):
            keep = _real_failures(res) & _real_failures(res2)
            dropped = _real_failures(res) - keep
            if dropped:
                out.notes.append('%s: %d failure(s) did not persist under a second solver seed (proof instability, not a violation): %s'
                                 % (unit, len(dropped), sorted(str(d[0]) for d in dropped)))
            res2['failures'] = [f for f in res2['failures'] if f['canary'] or (f['region'], f['message'], f['clause']) in keep
                                or (f['region'] and any(x['id'] == f['region'] and x.get('known') for x in meta['functions']))]
            res2['status'] = 'failed' if res2['failures'] else 'ok'
            res = res2
    out.cmds.append(res['cmd'].replace(workdir, '<scratch>'))
    if res['status'] == 'undecided':
        out.undecided.append('%s: %s' % (unit, res['reason']))
        return
    out.rewrites += [dict(r, unit=unit) for r in meta['rewrites']]
    fmap = {f['id']: f for f in meta['functions']}
    # canaries must fail
    failed_regions = set(f['region'] for f in res['failures'] if f['region'])
    for f in meta['functions']:
        if f['canary'] and f['id'] not in failed_regions:
            out.undecided.append('%s: canary %s verified => unit is vacuous' % (unit, f['id']))
    serving = set(f['id'] for f in meta['functions'] if prop in f['serves'])
    # obligations = SMT queries reported by Verus for serving functions + proof-mode lemmas of the unit
    for name, fr in res['functions'].items():
        short = name
        is_extracted = short in fmap
        if is_extracted and (fmap[short]['canary'] or fmap[short].get('known')):
            continue
        if is_extracted and short not in serving:
            continue
        if not is_extracted and re.match(r'^[A-Z0-9_]+$', short.split('::')[-1]):
            # consts: not obligations of the property
            continue
        out.obligations.append({'name': '%s/%s' % (unit, short), 'backend': 'verus+z3', 'ok': bool(fr['success']),
                                'time_ms': fr['time_ms'], 'kind': 'fn' if is_extracted else ('lemma' if fr.get('mode') == 'proof' else 'restated/model exec fn')})
    for f in meta['functions']:
        if f['id'] in serving and not f['canary'] and not f.get('known') and not f.get('lemma'):
            out.functions.append({'unit': unit, 'fn': f['source_fn'], 'file': f['file'], 'line': f['line'],
                                  'sha256': f['sha256'], 'contract_clauses': f['clauses'], 'backend': 'verus'})
    hint_only = []
    nviol0 = len(out.violations) + len(out.known)
    for fl in res['failures']:
        if fl['canary']:
            continue
        reg = fl['region']
        if reg is None:
            out.undecided.append('%s: failure outside extracted code (framework lemma): %s' % (unit, fl['message']))
            continue
        tags = re.findall(r'/\*\[(C[0-9,C]+)\]\*/', fl['clause'] or '')
        tagset = set(t for tg in tags for t in tg.split(','))
        if tagset:
            if prop not in tagset:
                continue
        elif reg not in serving:
            out.notes.append('failure in %s/%s not mapped to %s: %s' % (unit, reg, prop, fl['message']))
            continue
        unc = [h for h in meta.get('auto_uncontracted', []) if re.search(r'\b' + re.escape(h) + r'\s*\(', _region_text(text, meta, reg))]
        if unc:
            out.undecided.append('%s: %s calls helper(s) %s that are new in /repo and have no contract: cannot decide (%s)' % (unit, reg, unc, fl['message']))
            continue
        if (reg in meta.get('changed_fns', []) and reg not in meta.get('degraded_fns', []) and fl['message'].startswith('assertion failed')
                and not re.search(r'/\*\[C[0-9,C]+\]\*/', fl['clause'] or '')):
            # a PROOF STEP (an assert of the annotations that carries no property tag) no longer goes through in a function whose code
            # changed; Verus assumes it and goes on, so no contract clause was shown false: undecided, not an alarm
            hint_only.append('%s/%s: proof step no longer goes through in changed code [%s]' % (unit, reg, re.sub(r'\s+', ' ', fl['clause'] or '')[:90]))
            continue
        if reg in meta.get('degraded_fns', []):
            # DEGRADED function: its proof hints were dropped because the code they refer to changed. Only a postcondition of the function's
            # own contract that was provable WITHOUT any hint on the tree the contracts were written for (units/hintfree.json) still decides
            # something when it fails now; every other failed obligation may merely miss its hint and is reported as undecided.
            hf = HINTFREE.get(unit, {}).get(fmap[reg]['id'] if reg in fmap else reg)
            nclause = re.sub(r'\s+', ' ', fl['clause'] or '')[:160]
            if not (fl['message'].startswith('postcondition not satisfied') and hf is not None and '*' not in hf['fails'] and nclause not in hf['fails']):
                hint_only.append('%s/%s: %s [%s]' % (unit, reg, fl['message'], nclause[:70]))
                continue
        clause = re.sub(r'\s+', ' ', fl['clause'])[:160]
        name = '%s/%s/%s [%s]' % (unit, reg, fl['message'], clause)
        sites = ' | '.join('%s: %s' % (l[0], l[1]) for l in fl['labels'] if l[1])
        v = {'obligation': name, 'unit': unit, 'fn': reg, 'message': fl['message'], 'clause': clause,
             'sites': sites, 'rendered': fl['rendered'] + ('\n\nDEGRADED MODE: annotations whose anchors are gone were dropped: ' + '; '.join(degraded) if degraded else ''),
             'backend': 'verus', 'cex': None}
        if any(x['obligation'] == name for x in out.violations + out.known):
            continue
        k = match_known(known, prop, name, sites + ' ' + clause)
        if k:
            v['known'] = k
            out.known.append(v)
        else:
            out.violations.append(v)
    if hint_only and len(out.violations) + len(out.known) == nviol0:
        out.undecided.append('%s: restructured function(s): proof hints no longer apply and the failed obligations needed them on the unchanged tree, so nothing is decided: %s' % (unit, '; '.join(hint_only)[:600]))
    if tier == 'thorough':
        # (a) vacuity: every function under contract must be able to reach its body under its precondition
        try:
            vtext, vmeta = assemble.assemble(tpl, REPO, vacuity=True)
            vpath = os.path.join(workdir, 'unit_%s_vac.rs' % unit)
            open(vpath, 'w').write(vtext)
            vres = verus_run.run_verus(vpath, vmeta, workdir, rlimit=UNIT_RLIMIT.get(unit))
            out.cmds.append(vres['cmd'].replace(workdir, '<scratch>') + '   # vacuity probes')
            probed = set(f['region'] for f in vres['failures'] if 'VACUITY-PROBE' in (f['clause'] or '') or f['message'].startswith('assertion failed'))
            nprobe = 0
            for f in vmeta['functions']:
                if f['canary'] or f.get('lemma') or f.get('known') or prop not in f['serves']:
                    continue
                nprobe += 1
                if vres['status'] == 'undecided':
                    continue
                if f['id'] not in probed:
                    out.undecided.append('%s: precondition of %s is unsatisfiable (assert(false) verified at entry) => vacuous contract' % (unit, f['id']))
            if vres['status'] == 'undecided':
                out.notes.append('%s: vacuity run undecided: %s' % (unit, vres.get('reason')))
            out.samples.append({'unit': unit, 'vacuity_probes': nprobe, 'probes_that_failed_as_required': len([1 for f in vmeta['functions'] if f['id'] in probed])})
        except assemble.LostAnchor as ex:
            out.undecided.append('%s: vacuity assembly lost anchor: %s' % (unit, ex))
        # (b) stability: the whole unit must also verify under a second solver seed
        sres = verus_run.run_verus(path, meta, workdir, rlimit=max(40, UNIT_RLIMIT.get(unit) or 0), timeout=1800,
                                   extra=['--smt-option', 'smt.random_seed=23'])
        out.cmds.append(sres['cmd'].replace(workdir, '<scratch>') + '   # second seed')
        if sres['status'] == 'ok' or (sres['status'] == 'failed' and not _real_failures(sres)):
            out.samples.append({'unit': unit, 'second_seed': 'verified'})
        else:
            out.notes.append('%s: second solver seed did not reproduce the proof (%s): instability, reported, not an alarm' % (unit, sres.get('reason') or sorted(_real_failures(sres))[:2]))
    out.samples.append({'unit': unit, 'verus_verified': res['verified'], 'verus_errors_incl_canaries': res['errors'],
                        'smt_ms': res.get('smt_ms'), 'total_ms': res.get('total_ms')})
    return res, meta, text


def decide(prop, tier, seed):
    t0 = time.time()
    cfg = PROPS[prop]
    known = load_known()
    out = Outcome()
    workdir = tempfile.mkdtemp(prefix='e57-verif.%d.' % os.getpid())
    try:
        for unit in cfg.get('verus', []):
            run_verus_unit(prop, unit, workdir, out, tier, known)
        kgroups = list(cfg.get('kani', []))
        if tier == 'thorough':
            kgroups += cfg.get('kani_thorough', [])
        if kgroups:
            kani_run.run_groups(prop, kgroups, REPO, workdir, out, tier, known, match_known)
        if cfg.get('native'):
            # bounded executable contract checks: counterexample finders (never counted as proved)
            native_run.run_groups(prop, cfg['native'], REPO, workdir, out, tier, known, match_known)
        # replay of Verus failures with a paired Kani harness
        for v in out.violations:
            if v['backend'] == 'verus' and v.get('cex') is None:
                pair = cfg.get('cex_pairs', {}).get(v['fn'])
                if pair:
                    kani_run.counterexample_for(prop, pair, REPO, workdir, v)
    finally:
        shutil.rmtree(workdir, ignore_errors=True)
    wall = time.time() - t0
    return out, wall


def write_evidence(prop, tier, seed, out, wall):
    cfg = PROPS[prop]
    obligations = len(out.obligations)
    discharged = sum(1 for o in out.obligations if o['ok'])
    by_backend = {}
    for o in out.obligations:
        b = by_backend.setdefault(o['backend'], {'obligations': 0, 'discharged': 0, 'solver_ms': 0})
        b['obligations'] += 1
        b['discharged'] += 1 if o['ok'] else 0
        b['solver_ms'] += o.get('time_ms', 0)
    samples = []
    for o in out.obligations[:6]:
        samples.append({'obligation': o['name'], 'backend': o['backend'], 'discharged': o['ok'],
                        'solver_ms': o.get('time_ms', 0)})
    samples += cfg.get('clause_samples', [])
    ev = {
        'property_id': prop,
        'tier': tier,
        'seed': seed,
        'level': cfg['level'],
        'coverage': {
            'obligations': obligations,
            'discharged': discharged,
            'checker_cmd': ' ; '.join(out.cmds)[:4000] or 'none',
            'trusted_base': sorted(out.trusted) + cfg.get('trusted', []),
            'by_backend': by_backend,
            'functions_under_contract': out.functions,
            'obligation_list': [{'name': o['name'], 'backend': o['backend'], 'ok': o['ok'],
                                 'solver_ms': o.get('time_ms', 0)} for o in out.obligations],
            'bounded_checks': out.bounded,
            'extraction_rewrites': out.rewrites,
            'samples': samples or [{'note': 'no obligations'}],
            'explanation': cfg['claim'],
            'unit_runs': out.samples,
            'undecided': out.undecided,
            'known_findings_reported': [k['obligation'] for k in out.known],
            'notes': out.notes,
        },
        'assumptions': cfg.get('assumptions', []),
        'wall_s': round(wall, 2),
        'violations': len(out.violations),
    }
    evdir = os.environ.get('E57_EVIDENCE_DIR', os.path.join(VERIF, 'evidence'))
    os.makedirs(evdir, exist_ok=True)
    with open(os.path.join(evdir, prop + '.json'), 'w') as f:
        json.dump(ev, f, indent=1)


def write_replay(prop, v):
    d = os.path.join(os.environ.get('E57_REPLAY_DIR', os.path.join(VERIF, 'replays')), prop)
    os.makedirs(d, exist_ok=True)
    base = os.path.join(d, slug(v['obligation']))
    with open(base + '.txt', 'w') as f:
        f.write('property: %s\nfailed obligation: %s\nback end: %s\nfunction: %s\nclause: %s\nsites: %s\n\n'
                % (prop, v['obligation'], v['backend'], v['fn'], v.get('clause', ''), v.get('sites', '')))
        f.write('--- verifier output ---\n%s\n' % v.get('rendered', ''))
        if v.get('cex'):
            f.write('\n--- counterexample (Kani concrete playback) ---\n%s\n' % v['cex'].get('test', ''))
            f.write('\n--- native replay against the current tree ---\n%s\n' % v['cex'].get('native', ''))
        else:
            f.write('\nno-failing-input-found: the verifier gives no counterexample for this obligation\n')
    return base + '.txt'


def main(argv):
    import argparse
    ap = argparse.ArgumentParser()
    ap.add_argument('prop', nargs='?')
    ap.add_argument('--tier', default=os.environ.get('VERIF_TIER', 'quick'))
    ap.add_argument('--replay')
    a = ap.parse_args(argv)
    if a.replay:
        # a replay file names the property and the failed obligation and carries the verifier output / the concrete input; replaying
        # = showing it and deciding the SAME obligation again on the current tree (exit 1 if it still fails, 0 if it holds now)
        txt = open(a.replay).read()
        print(txt)
        m = re.search(r'^property: (C\d+)', txt, re.M)
        mo = re.search(r'^failed obligation: (.*)$', txt, re.M)
        if not m or m.group(1) not in PROPS:
            return 0
        prop = m.group(1)
        print('--- replay: deciding %s again on %s ---' % (prop, REPO))
        out, wall = decide(prop, 'quick', 0)
        still = [v for v in out.violations if mo and v['obligation'] == mo.group(1).strip()]
        for v in still:
            print('STILL FAILING: %s' % v['obligation'])
            print('VIOLATION property=%s replay=%s%s' % (prop, a.replay, '' if v.get('cex') and v['cex'].get('confirmed') else ' no-failing-input-found'))
        if still:
            return 1
        print('obligation %s does not fail on the current tree (%d other violation(s), %d undecided)' % (mo.group(1).strip() if mo else '?', len(out.violations), len(out.undecided)))
        return 0
    prop = a.prop
    if prop not in PROPS:
        print('unknown or unclaimed property', prop)
        return 2
    seed = int(os.environ.get('VERIF_SEED', '0') or 0)
    tier = 'thorough' if a.tier == 'thorough' else 'quick'
    out, wall = decide(prop, tier, seed)
    write_evidence(prop, tier, seed, out, wall)
    for k in out.known:
        print('KNOWN-FINDING: property=%s %s :: %s' % (prop, k['obligation'], k['known']['text']))
    print('property=%s tier=%s obligations=%d discharged=%d functions_under_contract=%d wall=%.1fs'
          % (prop, tier, len(out.obligations), sum(1 for o in out.obligations if o['ok']), len(out.functions), wall))
    if out.violations:
        for v in out.violations:
            path = write_replay(prop, v)
            tail = '' if v.get('cex') and v['cex'].get('confirmed') else ' no-failing-input-found'
            print('failed obligation: %s' % v['obligation'])
            print('VIOLATION property=%s replay=%s%s' % (prop, path, tail))
        return 1
    if out.undecided:
        shown = 0
        for u in out.undecided:
            if shown < 8:
                print('UNDECIDED property=%s reason=%s' % (prop, u))
            shown += 1
        if shown > 8:
            print('UNDECIDED property=%s reason=(%d more reasons in the evidence file)' % (prop, shown - 8))
        return 2
    return 0


if __name__ == '__main__':
    sys.exit(main(sys.argv[1:]))
