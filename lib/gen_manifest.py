"""writes /verif/MANIFEST.json from lib/props.py (claimed) and the NOT_APPLICABLE table below"""
import json, os, sys
HERE = os.path.dirname(os.path.abspath(__file__))
sys.path.insert(0, HERE)
from props import PROPS, NOT_APPLICABLE, FIX_COMMITS
ALL = ['C%02d' % i for i in range(1, 21)]
checks = []
for pid in ALL:
    if pid not in PROPS:
        continue
    c = PROPS[pid]
    checks.append({
        'property_id': pid,
        'quick_cmd': './check %s --tier quick' % pid,
        'thorough_cmd': './check %s --tier thorough' % pid,
        'evidence_file': 'evidence/%s.json' % pid,
        'replay_cmd_template': './check --replay {path}',
        'engine': 'verus-units+kani-units',
        'level_claimed': {'category': c['level'], 'text': c['claim'], 'design_ref': c.get('design_ref', 'DESIGN.md §5')},
        'level_note': ('; '.join(c.get('assumptions', [])) or 'see evidence trusted_base')
                      + ('; BOUNDED stand-ins run next to the proofs and are never counted as proved (evidence: bounded_checks): native execution of the real code '
                         'against its contract over an enumerated bound (%s) as counterexample finder' % ', '.join(c['native']) if c.get('native') else ''),
        'technique': c.get('technique', 'contract-based deductive verification: Verus on mechanically extracted real functions + Kani contract harnesses on the real crate'),
    })
na = [{'property_id': p, 'reason': NOT_APPLICABLE[p]} for p in ALL if p not in PROPS]
m = {
    'version': 1,
    'setup_cmd': './setup',
    'hooks': {
        'guard': 'e57_verif',
        'enable': 'none needed: Verus units are extracted from /repo/src on every run; Kani harness modules are appended to a scratch copy of the crate under #[cfg(kani)]; /repo carries no hook',
        'baseline_off_cmd': 'cd /repo && cargo test --workspace --no-fail-fast --offline',
        'source_commits': FIX_COMMITS,
        'add_only': True,
    },
    'engines': [
        {'name': 'verus-units', 'path': 'lib/assemble.py lib/verus_run.py units/verus', 'serves_properties': [p for p in ALL if p in PROPS and PROPS[p].get('verus')],
         'kind_free_text': 'mechanical extraction of real function bodies + contracts spliced at structural anchors, discharged by Verus/Z3'},
        {'name': 'native-bounded', 'path': 'lib/native_run.py units/native', 'serves_properties': [p for p in ALL if p in PROPS and PROPS[p].get('native')],
         'kind_free_text': 'BOUNDED stand-in, never counted as proved: the real functions executed natively against their contract as an oracle over an enumerated, stated bound; yields the concrete failing input that Verus cannot give'},
        {'name': 'kani-units', 'path': 'lib/kani_run.py units/kani', 'serves_properties': [p for p in ALL if p in PROPS and PROPS[p].get('kani')],
         'kind_free_text': 'contract harnesses appended under cfg(kani) to a scratch copy of the real crate, discharged by Kani/CBMC; concrete playback for counterexamples'},
    ],
    'checks': checks,
    'not_applicable': na,
    'notes': 'exit 0 held / exit 1 + VIOLATION line / exit 2 + UNDECIDED line (tool limit, lost anchor, timeout; never an alarm). source_commits lists fix: commits (no hooks exist).',
}
json.dump(m, open(os.path.join(os.path.dirname(HERE), 'MANIFEST.json'), 'w'), indent=1)
print('MANIFEST: %d checks, %d not_applicable' % (len(checks), len(na)))
