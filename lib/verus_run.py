"""Run Verus on an assembled unit, classify the outcome per function / obligation."""
import json
import os
import re
import subprocess
import time

DEFINITE = [
    'postcondition not satisfied',
    'precondition not satisfied',
    'assertion failed',
    'invariant not satisfied at end of loop body',
    'invariant not satisfied before loop',
    'loop invariant not satisfied',
    'possible arithmetic underflow/overflow',
    'possible division by zero',
    'possible bit shift underflow/overflow',
    'decreases not satisfied',
    'could not prove termination',
    'recommendation not met',
    'unreachable',
    'assert_by_contradiction',
    'failed this postcondition',
    'exhaustive',
]
UNDECIDED_MARKS = ['Resource limit (rlimit) exceeded', 'rlimit', 'timed out', 'solver']


def scan_trusted(text):
    """mechanical scan for assumptions in the assembled unit"""
    found = []
    kinds = [('assume', r'\bassume\s*\('), ('admit', r'\badmit\s*\('),
             ('external_body', r'#\[verifier::external_body\]'),
             ('assume_specification', r'\bassume_specification\b'),
             ('external', r'#\[verifier::external(_fn_specification|_type_specification|)\]'),
             ('axiom', r'\baxiom\s+fn\b|broadcast\s+axiom'),
             ('exec_allows_no_decreases_clause', r'exec_allows_no_decreases_clause'),
             ('loop_isolation_false', r'loop_isolation\(false\)')]
    lines = text.split('\n')
    for ln_no, ln in enumerate(lines, 1):
        code = ln.split('//')[0]
        for k, pat in kinds:
            if re.search(pat, code):
                # find the name of the item that follows
                name = ''
                for j in range(ln_no - 1, min(ln_no + 12, len(lines))):
                    m = re.search(r'assume_specification\s*(<[^>]*>)?\s*\[\s*(.+?)\s*\]\s*\(', lines[j])
                    if m:
                        name = m.group(2).strip()
                        break
                    m = re.search(r'\b(fn|struct|enum)\s+(\w+)', lines[j])
                    if m:
                        name = m.group(2)
                        break
                found.append((k, name, ln_no))
    return found


def region_of(meta, line):
    for r in meta['regions']:
        if r['start'] <= line <= r['end']:
            return r
    return None


def run_verus(path, meta, workdir, rlimit=None, threads=8, timeout=900, extra=None, multiple_errors=4):
    cmd = ['verus', path, '--output-json', '--time-expanded', '--error-format=json',
           '--multiple-errors', str(multiple_errors), '--num-threads', str(threads), '--triggers-mode', 'silent']
    if rlimit:
        cmd += ['--rlimit', str(rlimit)]
    if extra:
        cmd += extra
    t0 = time.time()
    try:
        p = subprocess.run(cmd, cwd=workdir, capture_output=True, text=True, timeout=timeout)
    except subprocess.TimeoutExpired:
        return {'status': 'undecided', 'reason': 'verus timeout %ds' % timeout, 'cmd': ' '.join(cmd),
                'functions': {}, 'failures': [], 'wall_s': time.time() - t0, 'verified': 0, 'errors': 0}
    wall = time.time() - t0
    res = {'cmd': ' '.join(cmd), 'wall_s': wall, 'functions': {}, 'failures': [], 'compile_errors': [],
           'raw_stderr': p.stderr[-20000:], 'verified': 0, 'errors': 0}
    js = None
    try:
        js = json.loads(p.stdout)
    except Exception:
        # json may be preceded by other text
        m = re.search(r'\{\s*"func-details".*', p.stdout, re.S)
        if m:
            try:
                js = json.loads(m.group(0))
            except Exception:
                js = None
    diags = []
    for ln in p.stderr.split('\n'):
        ln = ln.strip()
        if ln.startswith('{'):
            try:
                diags.append(json.loads(ln))
            except Exception:
                pass
    crate = os.path.splitext(os.path.basename(path))[0]
    if js:
        vr = js.get('verification-results', {})
        res['verified'] = vr.get('verified', 0)
        res['errors'] = vr.get('errors', 0)
        res['vir_error'] = vr.get('encountered-vir-error', False)
        res['smt_ms'] = js.get('times-ms', {}).get('smt', {}).get('smt-run', 0)
        res['total_ms'] = js.get('times-ms', {}).get('total', 0)
        for mod in js.get('times-ms', {}).get('smt', {}).get('smt-run-module-times', []):
            for f in mod.get('function-breakdown', []):
                name = f['function']
                if name.startswith(crate + '::'):
                    name = name[len(crate) + 2:]
                res['functions'][name] = {'success': f.get('success'), 'time_ms': f.get('time', 0),
                                          'rlimit': f.get('rlimit', 0), 'mode': f.get('mode:', '')}
    undecided = []
    for d in diags:
        if d.get('level') != 'error':
            continue
        msg = d.get('message', '')
        if msg.startswith('aborting due to'):
            continue
        spans = d.get('spans', [])
        prim = [s for s in spans if s.get('is_primary')]
        # region: prefer a span inside an extracted fn region
        reg = None
        site = None
        # for a failed precondition the obligation belongs to the caller (the span that is not the
        # `failed precondition` clause); otherwise prefer the first span inside an extracted function
        ordered = sorted(spans, key=lambda s: 1 if (s.get('label') or '').startswith('failed precondition') else 0)
        for s in ordered:
            r = region_of(meta, s['line_start'])
            if r and r['kind'] == 'fn':
                reg = r
                site = s
                break
        clause = ''
        clause_line = None
        for s in prim:
            if s.get('text'):
                clause = ' '.join(t['text'].strip() for t in s['text'][:1])
                if len(s['text']) > 1:
                    # multi-line clause: keep the first line and the most specific commented sub-clause lines
                    clause = ' '.join(t['text'].strip() for t in s['text'][:2])
                clause_line = s['line_start']
        labels = [(s.get('label') or '', (s['text'][0]['text'].strip() if s.get('text') else ''), s['line_start'])
                  for s in spans]
        definite = any(msg.startswith(k) or k in msg for k in DEFINITE)
        rl = 'rlimit' in msg or 'Resource limit' in msg
        entry = {'message': msg, 'region': reg['id'] if reg else None, 'canary': bool(reg and reg.get('canary')),
                 'clause': clause, 'clause_line': clause_line, 'labels': labels,
                 'rendered': (d.get('rendered') or '')[:3000]}
        if rl:
            entry['class'] = 'rlimit'
            undecided.append(entry)
        elif definite and js is not None and not res.get('vir_error'):
            entry['class'] = 'failed'
            res['failures'].append(entry)
        else:
            entry['class'] = 'compile'
            res['compile_errors'].append(entry)
    res['undecided'] = undecided
    if js is None:
        res['status'] = 'undecided'
        res['reason'] = 'verus produced no result (compile error?): ' + '; '.join(
            e['message'] for e in res['compile_errors'][:3]) + p.stderr[-500:]
    elif res['compile_errors']:
        res['status'] = 'undecided'
        res['reason'] = 'compile/unsupported: ' + '; '.join(
            '%s [%s]' % (e['message'], e['clause'][:80]) for e in res['compile_errors'][:3])
    elif undecided:
        res['status'] = 'undecided'
        res['reason'] = 'rlimit: ' + '; '.join('%s' % (e['region']) for e in undecided[:3])
    else:
        res['status'] = 'ok' if not res['failures'] else 'failed'
    return res
