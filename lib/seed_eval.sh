#!/bin/bash
# usage: lib/seed_eval.sh <seed-name> <worktree> <PROP> [<PROP>...]
# 1. confirms the seeded change in its scratch worktree (existing tests pass, demo fails with / passes without the patch)
# 2. stores it under /verif/seeded/<seed-name>/
# 3. applies it to /repo, runs the given checks, and undoes it straight afterwards
name=$1; wt=$2; shift 2
export CARGO_TARGET_DIR=$wt/target
cd $wt || exit 2
git checkout -q -- src 2>/dev/null
mkdir -p tests; [ -f tests/demo_test.rs ] || cp demo_test.rs tests/demo_test.rs
echo "== demo WITHOUT patch"
cargo test --offline --test demo_test 2>&1 | grep -E "^test result" | tail -1
git apply patch.diff || { echo "patch does not apply"; exit 2; }
echo "== existing tests WITH patch"
cargo test --offline --no-fail-fast 2>&1 | grep -E "^test result|Running" | cut -c1-110
echo "== demo WITH patch"
cargo test --offline --test demo_test 2>&1 | grep -E "^test result" | tail -1
mkdir -p /verif/seeded/$name
cp patch.diff /verif/seeded/$name/patch.diff; cp tests/demo_test.rs /verif/seeded/$name/demo_test.rs; cp NOTES.md /verif/seeded/$name/NOTES.md 2>/dev/null
cd /verif
git -C /repo apply /verif/seeded/$name/patch.diff || { echo "patch does not apply to /repo"; exit 2; }
export E57_EVIDENCE_DIR=/tmp/e57-seed-ev E57_REPLAY_DIR=/tmp/e57-seed-ev/replays
for p in "$@"; do echo "== check $p"; ./check $p 2>&1 | grep -E "VIOLATION|UNDECIDED|^property=|failed obligation" | cut -c1-300; done
git -C /repo checkout -- .
git -C /repo status --short | head -3
