import re,sys
def strip_map(src):
    """return list 'kind' per char: c=code, s=string/char, m=comment"""
    n=len(src); kind=['c']*n; i=0
    while i<n:
        ch=src[i]
        if src.startswith('//',i):
            j=src.find('\n',i); j=n if j<0 else j
            for k in range(i,j): kind[k]='m'
            i=j; continue
        if src.startswith('/*',i):
            d=1; j=i+2
            while j<n and d>0:
                if src.startswith('/*',j): d+=1; j+=2
                elif src.startswith('*/',j): d-=1; j+=2
                else: j+=1
            for k in range(i,j): kind[k]='m'
            i=j; continue
        m=re.match(r'b?r(#*)"',src[i:i+12])
        if m and (i==0 or not (src[i-1].isalnum() or src[i-1]=='_')):
            h=m.group(1); end=src.find('"'+h,i+len(m.group(0)))
            j=end+1+len(h)
            for k in range(i,j): kind[k]='s'
            i=j; continue
        if ch=='"' or (ch=='b' and src[i+1:i+2]=='"' and not (src[i-1].isalnum() or src[i-1]=='_')):
            j=i+ (2 if ch=='b' else 1)
            while j<n and src[j]!='"':
                j+= 2 if src[j]=='\\' else 1
            j+=1
            for k in range(i,j): kind[k]='s'
            i=j; continue
        if ch=="'":
            m=re.match(r"'(\\.[^']*|[^'\\])'",src[i:i+12])
            if m:
                for k in range(i,i+len(m.group(0))): kind[k]='s'
                i+=len(m.group(0)); continue
        i+=1
    return kind
def match_brace(src,kind,i):
    assert src[i]=='{'
    d=0
    for j in range(i,len(src)):
        if kind[j]!='c': continue
        if src[j]=='{': d+=1
        elif src[j]=='}':
            d-=1
            if d==0: return j
    raise Exception('unbalanced')
def find_fns(src,kind):
    out=[]
    for m in re.finditer(r'\bfn\s+(\w+)',src):
        if kind[m.start()]!='c': continue
        # find body open brace at paren depth 0
        j=m.end(); dp=0; da=0
        while j<len(src):
            if kind[j]=='c':
                c=src[j]
                if c in '([': dp+=1
                elif c in ')]': dp-=1
                elif c=='{' and dp==0: break
                elif c==';' and dp==0: j=-1; break
            j+=1
        if j<0: continue
        e=match_brace(src,kind,j)
        out.append((m.group(1),m.start(),j,e))
    return out
def find_loops(src,kind,b,e):
    loops=[]
    for m in re.finditer(r'\b(for|while|loop)\b',src[b:e]):
        p=b+m.start()
        if kind[p]!='c': continue
        # skip `for<'a>` hrtb and `impl .. for ..`
        pre=src[max(b,p-40):p]
        if m.group(1)=='for' and re.search(r'\bimpl\b[^;{}]*$',pre): continue
        j=p; dp=0
        while j<e:
            if kind[j]=='c':
                c=src[j]
                if c in '([': dp+=1
                elif c in ')]': dp-=1
                elif c=='{' and dp==0: break
            j+=1
        loops.append((m.group(1),p,j,match_brace(src,kind,j)))
    return loops
if __name__=='__main__':
    tot=0
    for f in sys.argv[1:]:
        src=open(f).read(); kind=strip_map(src)
        for name,s,b,e in find_fns(src,kind):
            # skip test module fns
            lp=find_loops(src,kind,b,e)
            line=src.count('\n',0,s)+1
            print(f"{f.split('/')[-1]}:{line} fn {name} body={e-b} loops={[ (k, src.count(chr(10),0,p)+1) for k,p,_,_ in lp]}")
            tot+=1
    print('functions',tot)
