#!/bin/bash
# usage: lib/seed_eval2.sh <seed-name> <worktree> <PROP> [<PROP>...]
# like seed_eval.sh, but the checks run against the scratch worktree (E57_REPO) instead of /repo, so several can run side by side
name=$1; wt=$2; shift 2
export CARGO_TARGET_DIR=$wt/target
cd $wt || exit 2
git checkout -q -- src 2>/dev/null
mkdir -p tests; [ -f tests/demo_test.rs ] || cp demo_test.rs tests/demo_test.rs
echo "== demo WITHOUT patch"
cargo test --offline --test demo_test 2>&1 | grep -E "^test result" | tail -1
git apply patch.diff || { echo "patch does not apply"; exit 2; }
echo "== existing tests WITH patch"
cargo test --offline --no-fail-fast 2>&1 | grep -E "^test result|Running" | cut -c1-110
echo "== demo WITH patch"
cargo test --offline --test demo_test 2>&1 | grep -E "^test result" | tail -1
mkdir -p /verif/seeded/$name
cp patch.diff /verif/seeded/$name/patch.diff; cp tests/demo_test.rs /verif/seeded/$name/demo_test.rs; cp NOTES.md /verif/seeded/$name/NOTES.md 2>/dev/null
[ -f Cargo.lock ] || cp /repo/Cargo.lock .
unset CARGO_TARGET_DIR
export E57_TARGET_SUFFIX=-$(basename $wt) E57_REPO=$wt E57_EVIDENCE_DIR=/tmp/e57-matrix-ev/$(basename $wt) E57_REPLAY_DIR=/tmp/e57-matrix-ev/$(basename $wt)/replays
cd /verif
for p in "$@"; do
  out=$(./check $p 2>&1); rc=$?
  echo "== check $p exit=$rc"; echo "$out" | grep -E "^VIOLATION|^UNDECIDED|^KNOWN|^property=|failed obligation" | cut -c1-400 | head -12
done
