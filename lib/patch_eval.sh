#!/bin/bash
# usage: lib/patch_eval.sh <scratch-worktree> <patch> <PROP>... : applies the patch in the scratch worktree (NOT in /repo) and runs the
# checks against that tree via E57_REPO. Used for the seeded/benign matrices; registered commands always run against /repo.
wt=$1; patch=$2; shift 2
cd $wt || exit 2
git checkout -q -- . ; git apply $patch || { echo "PATCH-DOES-NOT-APPLY $patch"; exit 2; }
[ -f Cargo.lock ] || cp /repo/Cargo.lock .
tag=$(basename $(dirname $patch))-$(basename $patch)
export E57_TARGET_SUFFIX=-$(basename $wt) E57_REPO=$wt E57_EVIDENCE_DIR=/tmp/e57-matrix-ev/$(basename $wt) E57_REPLAY_DIR=/tmp/e57-matrix-ev/$(basename $wt)/replays
cd /verif
for p in "$@"; do
  out=$(./check $p 2>&1); rc=$?
  v=$(echo "$out" | grep -c "^VIOLATION"); u=$(echo "$out" | grep -c "^UNDECIDED")
  echo "RESULT $tag $p exit=$rc violations=$v undecided=$u :: $(echo "$out" | grep -E '^VIOLATION|^UNDECIDED' | head -1 | cut -c1-230)"
done
cd $wt; git checkout -q -- .
