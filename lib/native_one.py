"""debug helper: run one native check group against a repo; usage: kani_one.py <group> [repo]"""
import sys, os, tempfile, shutil, time
HERE = os.path.dirname(os.path.abspath(__file__))
sys.path.insert(0, HERE)
import native_run, driver
grp = sys.argv[1]; repo = sys.argv[2] if len(sys.argv) > 2 else '/repo'
out = driver.Outcome()
wd = tempfile.mkdtemp(prefix='e57-native-one.')
t0 = time.time()
try:
    native_run.run_groups(os.environ.get('PROP','C12'), [grp], repo, wd, out, 'quick', [], driver.match_known)
finally:
    shutil.rmtree(wd, ignore_errors=True)
print('wall %.1f' % (time.time() - t0))
for o in out.obligations: print('OBL', o)
for v in out.violations: print('VIOL', v['obligation'], (v.get('cex') or '')[:300] if isinstance(v.get('cex'), str) else v.get('cex'))
print('UNDECIDED', out.undecided)
