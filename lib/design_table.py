"""prints the table of DESIGN.md §0.2 from the evidence files and the property table"""
import json, os, sys
sys.path.insert(0, os.path.dirname(os.path.abspath(__file__)))
from props import PROPS
V = os.path.dirname(os.path.dirname(os.path.abspath(__file__)))
print('| id | units | functions under contract | obligations (Verus function queries + lemmas + complete Kani harnesses) | bounded stand-ins (not counted) |')
print('|---|---|---|---|---|')
for p in sorted(PROPS):
    d = PROPS[p]
    if d.get('level') != 'proof':
        continue
    e = json.load(open(os.path.join(V, 'evidence', p + '.json')))
    cov = e['coverage']
    units = ', '.join(d.get('verus', [])) + (' + Kani ' + ', '.join(d['kani']) if d.get('kani') else '')
    bounded = sorted(set('/'.join(b['name'].split('/')[:2]) for b in cov.get('bounded_checks', []) if isinstance(b, dict)))
    fn = cov.get('functions_under_contract')
    nfn = len(fn) if isinstance(fn, list) else fn
    print('| %s | %s | %s | %s | %s |' % (p, units, nfn, cov.get('obligations'), ', '.join(bounded)))
