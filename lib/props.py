"""Property table: which units decide which property, what is claimed, what is assumed."""

# assumptions allowed per Verus unit ("kind:name"); anything else found by the mechanical scan => undecided
TRUSTED_ALLOW = {
    # le.rs: little-endian shims (assumed std semantics of {to,from}_le_bytes), included by every unit
    '*': {'external_body:shim_u16_to_le_bytes', 'external_body:shim_u32_to_le_bytes', 'external_body:shim_u64_to_le_bytes',
          'external_body:shim_u16_from_le_bytes', 'external_body:shim_u64_from_le_bytes', 'external_body:shim_le_u16',
          'external_body:shim_le_u32', 'external_body:shim_le_u64', 'external_body:to_le_bytes_shim', 'external_body:shim_u32_from_le_bytes',
          'external_body:axiom_float_le_roundtrip', 'external_body:shim_f32_from_le_bytes', 'external_body:shim_f64_from_le_bytes',
          'external_body:shim_u128_from_le_bytes', 'external_body:shim_vec_u8_zeros'},
    'bits': {
        'external_body:vec_drain_prefix', 'external_body:vec_drain_all', 'external_body:shim_u128_from_le_bytes',
        'external_body:shim_u64_to_le_bytes', 'external_body:shim_u32_to_le_bytes', 'external_body:shim_i128_ilog2',
        'external_body:axiom_float_le_roundtrip', 'external_body:shim_f32_to_le_bytes',
        'external_body:shim_f64_to_le_bytes', 'external_body:shim_f32_from_le_bytes',
        'external_body:shim_f64_from_le_bytes', 'external_body:shim_size_of_f32', 'external_body:shim_size_of_f64',
    },
}

GLOBAL_TRUSTED = [
    'Verus 0.2026.09.13 + Z3 (front end, VC generation, SMT)',
    'Kani 0.68 + CBMC 6.11 + CaDiCaL/Kissat',
    'the extractor (lib/assemble.py): function text taken verbatim from /repo, rewrites logged in extraction_rewrites, body hashes in functions_under_contract',
    'integer overflow is an error (debug-build semantics) in both back ends; `as` casts modelled exactly',
]

PROPS = {
    'C12': {
        'level': 'proof',
        'verus': ['bits'],
        'kani': ['bits_k', 'bsr_k', 'bsw_k'],
        'claim': ('Contracts on the real bodies of ByteStreamWriteBuffer::{new,add_bytes,add_bits,get_full_bytes,get_all_bytes,'
                  'full_bytes,all_bytes}, integer_bits, serialize_integer, RecordDataType::{bit_size,write}, '
                  'ByteStreamReadBuffer::{new,append,extract,available}, BitPack::unpack_{ints,scaled_ints,singles,doubles}: '
                  'exact width = width(min,max) (0 when equal, 64 for the full range), stored as value-min LSB first, '
                  'contiguous at any bit phase, cut-independent (bits_of concat lemma), decoder returns exactly '
                  'floor(|rest|/w) values each = chunk+min, encode/decode inverse (theorem_int_roundtrip); '
                  'unbounded in stream length and for every width, by loop invariants.'),
        'trusted': GLOBAL_TRUSTED,
        'assumptions': [
            'std semantics of Vec::drain(..n).collect(), {u64,u32,u128}::{to,from}_le_bytes, i128::ilog2, size_of::<f32/f64>() (shims with assumed specs)',
            'f32/f64 from_le_bytes inverts to_le_bytes bit for bit (float byte images are uninterpreted)',
            'usize arithmetic: buffers stay below usize::MAX-64 bytes / MAX_RB (0x1000_0000) bytes per read buffer (precondition, established by packet size limits)',
        ],
        'cex_pairs': {'serialize_integer': ('bits_k', 'serialize_integer_sub_no_overflow')},
    },
}

_DEV = 'device model (units/verus/prelude/dev.rs): std::io Read/Write/Seek on a Cursor/regular file with fault injection — any operation may fail, read may be short in any way, failed write_all leaves a torn prefix, sizes fit off_t; an assumption about the environment, not about e57'
_CRC_OFF = 'default configuration verified (cargo feature crc32c off); with the feature on crc32c::crc32c is assumed to compute the same function (crc32c is uninterpreted in the page-layer units, so the proofs are unchanged)'
TRUSTED_ALLOW['page_w'] = {
    'external_body:seek', 'external_body:stream_position', 'external_body:write_all', 'external_body:read',
    'external_body:read_exact', 'external_body:flush', 'assume_specification:<[T]>::fill', 'external_body:be4_len',
    'external_body:new', 'external_body:calculate', 'external_body:shim_u32_to_be_bytes', 'external_body:shim_u32_from_be_bytes',
}
TRUSTED_ALLOW['page_r'] = TRUSTED_ALLOW['page_w'] | {'external_body:slice_eq4'}
PROPS['C11'] = {
    'level': 'proof',
    'verus': ['page_w', 'page_r', 'crc'],
    'claim': ('Representation invariants of PagedWriter (every device page sealed, bytes at/after the cursor untouched, page-granular '
              'zero-filled logical stream view) and PagedReader (cache clause) proved preserved by the real bodies of every public '
              'operation against the device model, with frame conditions over the whole stream view: write/write_all append exactly '
              'the buffer, flush makes the device payload equal the logical stream with all pages sealed, physical_position = '
              'phys(cursor), physical_size = 1024*npages, physical_seek accepts exactly offsets inside the file and outside checksum '
              'bytes and leaves the stream unchanged, align writes only zeros; reader: seek_physical maps physical to logical, read returns '
              'the logical bytes at the cursor. By induction over operations this covers every history and every short-read schedule.'),
    'trusted': GLOBAL_TRUSTED + [_DEV, _CRC_OFF],
    'assumptions': [_DEV, _CRC_OFF, 'std::io::Write::write_all (provided trait method) is re-stated in the unit and verified against the extracted write',
                    'Drop for PagedWriter (flush, errors ignored) is outside the unit',
                    'reader: seek_physical accepts offsets inside checksum bytes; writer-reported positions never are (proved: physical_position % 1024 < 1020)'],
}

TRUSTED_ALLOW['rd_top'] = TRUSTED_ALLOW['page_r'] | {'external_body:shim_u64_from_le_bytes'}
_CRC_MATH = 'error-detection facts of the Castagnoli polynomial (HD>=4 up to 8192 bits, all bursts <= 32 bits) are mathematics about the polynomial, not about this code: assumed'
PROPS['C07'] = {
    'level': 'proof',
    'verus': ['page_r', 'rd_top', 'crc'],
    'kani': ['crc_k'],
    'claim': ('Cache-coherence invariant of PagedReader proved on every exit of read_page (after a failure the cache is never stale); '
              'read / read_exact / extract_xml hand out only bytes of pages whose stored big-endian checksum matches crc32c of the payload '
              '(postcondition page_ok for every byte) and otherwise fail with the cursor unchanged; validate_crc Ok => every page sealed '
              '(loop invariant over all pages, terminates); built-in CRC = CRC-32C for inputs of EVERY length (unit crc, Verus, on the real bodies '
              'of Crc32::new and Crc32::calculate): every one of the 256 table entries is eight steps of the reflected bitwise division by 0x82F63B78, '
              'calculate(data) == !state(data) with state(empty) = all ones and state(s+b) = eight bit steps of state(s)^b (loop invariant over the '
              'input; one table step = 8 bit steps for all (u32,u8) by bit-vector reasoning), and that definition takes "123456789" to 0xE3069283 '
              '(by computation). The Kani unit crc_k re-checks table, step and short inputs on the compiled crate (bounded, counterexamples).'),
    'trusted': GLOBAL_TRUSTED + [_DEV, _CRC_OFF, _CRC_MATH],
    'assumptions': [_DEV, _CRC_OFF, _CRC_MATH,
                    'the optional crc32c crate (hardware path) is outside both verifiers; identical files/verdicts follow if it computes CRC-32C',
                    'Crc32::calculate is seen by the page-layer units through its contract r == crc32c(data) only (crc32c uninterpreted there); unit crc proves that contract on the real body with crc32c := the bitwise CRC-32C definition, under the precondition that the table is the one Crc32::new builds (the field is private and written nowhere else); Iterator::fold over a slice is spelled out as the loop that defines it (rewrite logged in the evidence)',
                    'points/blobs read paths above the page layer inherit the guarantee through PagedReader::read/read_exact contracts (units rd, blob)'],
}

PROPS['C13'] = {
    'level': 'proof',
    'kani': ['norm_k'],
    'claim': ('Layer 1, discharged over the full f64 domain by loop-free Kani harnesses on the real functions: Range::from_min_max accepts exactly '
              'ordered finite limits (NaN/infinite rejected, no panic) and keeps them bit for bit; for every accepted range and every finite value '
              'normalize never panics, is never NaN, is >= 0, is 0 at/below the minimum and 0 for a degenerate range; normalize_value: disabled => '
              'value as f32 bit for bit, no range => 0, range => Range::normalize; from_limits: Some exactly when both limits are present and of the '
              'same kind among Double/Single/Integer; from_record_data_type: declared min/max else type extremes, scaled integers min*scale+offset. '
              'Schematic (exact binary grid): normalize(v) == (clamp(v,min,max)-min)/(max-min), 0 below, 1 above. Layer 2 (<= 1, = 1 at the maximum, '
              'monotone) is DERIVED from that expression structure under stated IEEE-754 facts, not discharged by a solver.'),
    'trusted': GLOBAL_TRUSTED,
    'assumptions': [
        'layer 2 rests on textbook IEEE-754 facts that CBMC does not decide in reasonable time (probed: > 15 min): every basic operation and cast is monotone in each argument; 0 <= x <= r, r > 0 finite => fl(x/r) <= 1; fl(r/r) == 1',
        'format! on error paths stubbed (alloc::fmt::format) — error messages are not part of the property',
        'Kani default "NaN on <op>" float checks are not obligations of the property and are filtered by description',
        'the fall-back order in {intensity,red,green,blue}_from_pointcloud (limits first, then data type) iterates the prototype Vec and is not under contract (Kani: Vec<Record> with String-bearing RecordName too expensive)',
        'XML parsing of the limits (strings -> f64) is outside (C04)',
    ],
}

TRUSTED_ALLOW['rd'] = TRUSTED_ALLOW['bits'] | TRUSTED_ALLOW['page_r'] | {
    'external_body:shim_le_u16', 'external_body:shim_le_u64', 'external_body:shim_u16_from_le_bytes', 'external_body:clone',
    'external_body:shim_vec_bsr', 'external_body:shim_vec_queues', 'external_body:shim_vec_usize_zeros',
    'external_body:shim_vec_u8_zeros', 'external_body:shim_resize_u8',
}
_RD_ASSUME = [
    'type invariant of PointCloud assumed as precondition (established on the XML side, RecordDataType::from_node): integer ranges are ordered (min <= max)',
    'files are smaller than 512 PiB and the target is 64-bit (usize arithmetic on buffer and queue lengths)',
    'derive(Clone) of PointCloud is structural; vec![x; n] builds n copies (shims)',
    '`reader: &mut dyn Read` parameters are instantiated with the extracted PagedReader, the only reader the crate passes there',
]
PROPS['C03'] = {
    'level': 'proof',
    'verus': ['bits', 'rd'],
    'kani': ['bsr_k'],
    'claim': ('Reader side on every legal packetisation, by contracts on the real bodies: PacketHeader/Index/Data/Ignored header parsers and '
              'CompressedVectorSectionHeader::read consume exactly 16/6/4/32 bytes and return kind, length field + 1 and stream count of the logical '
              'stream; QueueReader::advance skips index and ignored packets by exactly their declared length, consumes header + n sizes + the '
              'announced stream bytes of a data packet and aligns to 4, appends every stream chunk to its own bit buffer (carry-over of partial '
              'values = ByteStreamReadBuffer::append/extract contracts, C12), decodes with the unpack_* contracts (exactly floor(rest/w) values, '
              'leftover kept), fills zero-width records; pop_point takes one value from the front of each queue in prototype order; the raw '
              'iterator yields at most `records` points. XML lexical variants and attribute defaults are excluded (C04).'),
    'trusted': GLOBAL_TRUSTED + [_DEV, _CRC_OFF],
    'assumptions': [_DEV] + _RD_ASSUME + PROPS['C12']['assumptions'] + [
        'the value-level composition (decoded queue contents = encoded values for a whole section) is carried by the per-function contracts of bits + rd; no end-to-end composition lemma over whole files is proved',
        'XML lexical forms, omitted optional type attributes (defaults) and metadata are outside (roxmltree; see C04 not applicable)'],
}

UNIT_RLIMIT = {'page_w': 40, 'rd': 30, 'rd15': 40}
PROPS['C09'] = {
    'level': 'proof',
    'verus': ['bits', 'page_r', 'rd_top', 'rd', 'simple', 'blob'],
    'claim': ('Termination (decreases clauses) and allocation bounds as postconditions/invariants of the real functions: every loop of the bit-stream '
              'decoder, page reader, validate_crc, QueueReader::{available,pop_point,advance,parse_byte_streams} and PointCloudReaderRaw::next has a '
              'decreases measure; each successful advance strictly advances the cursor, which is bounded by the logical file size, so the refill '
              'loop ends; the raw iterator yields at most `records` points; memory held per stream is paid for by input already consumed '
              '(buffer bytes <= cursor, queued values + undecoded bits <= 8 x cursor); stream buffers drop consumed bytes on append; extract_xml refuses '
              'lengths above MAX_XML_SIZE before allocating; PagedReader::new refuses page sizes above 1 MiB before allocating; index/ignored '
              'skips allocate at most the declared 16-bit length.'),
    'trusted': GLOBAL_TRUSTED + [_DEV, _CRC_OFF],
    'assumptions': [_DEV] + _RD_ASSUME + [
        'the iterators are specified up to their first Err or None (the quantifier of C09)',
        'known finding F4 (all records zero-width) is excluded by precondition and reported separately as KNOWN-FINDING',
        'simple iterator: reserve calls of next are bounded by the number of points just decoded (precondition of the reserve shims), termination by the strictly advancing cursor; Blob::read copies at most `length` bytes and ends at end of file (unit blob)',
        'XML parsing (roxmltree) time and memory are outside'],
}

PROPS['C08'] = {
    'level': 'proof',
    'verus': ['bits', 'page_r', 'rd_top', 'rd'],
    'kani': ['norm_k', 'bsr_k'],
    'claim': ('Absence of panics (arithmetic overflow, index/slice bounds, unwrap, clamp, ilog2, division) as implicit obligations of every reader-side '
              'function under contract, with NO precondition on file content (only structural well-formedness of self): PagedReader::{new,seek_physical,'
              'read_page,read,align} + restated read_exact, E57Reader::{validate_crc,raw_xml,get_u64,extract_xml}, CompressedVectorSectionHeader::read, '
              'PacketHeader/Index/Data/Ignored::read, QueueReader::{new,available,pop_point,advance,parse_byte_streams}, BitPack::unpack_*, '
              'ByteStreamReadBuffer::*, PointCloudReaderRaw::{new,next,size_hint}, integer_bits/bit_size, Range::{from_min_max,normalize,from_limits,'
              'from_record_data_type} and normalize_value (Kani, full f64 domain). Functions taking a roxmltree::Node and the simple iterator/blob '
              'paths are covered only where units simple/blob claim them.'),
    'trusted': GLOBAL_TRUSTED + [_DEV, _CRC_OFF],
    'assumptions': [_DEV] + _RD_ASSUME + [
        'everything that parses XML (roxmltree, *::from_node, xml::*, root_from_document, Extension::vec_from_document) is NOT covered; str::parse does not panic is an argument by inspection, not a discharged obligation',
        'Header::read and E57Reader::new glue are covered by unit fmt when claimed',
        'known finding F4 (all records zero-width: unbounded allocation, abort) is reported under C09'],
}
PROPS['C17'] = {
    'level': 'proof',
    'verus': ['page_r', 'rd_top', 'rd'],
    'claim': ('Every postcondition of the read-side functions is stated in terms of the device bytes and the arguments only, under the representation '
              'invariant of PagedReader for an ARBITRARY admissible (offset, cached page, buffer) state: read/read_exact return lbyte(cursor+i); '
              'extract_xml, get_u64, QueueReader::new, PointCloudReaderRaw::new start with absolute seeks and their results do not mention the previous '
              'cursor; QueueReader::new creates fresh queues; the invariant (cache clause included) holds on every exit of read_page, i.e. also after '
              'failed operations (F15 fixed), so any operation equals the same operation on a fresh reader (a fresh reader is one admissible state).'),
    'trusted': GLOBAL_TRUSTED + [_DEV, _CRC_OFF],
    'assumptions': [_DEV] + _RD_ASSUME + ['descriptor getters (&self clones) and XML are outside; Blob::read and the simple iterator are covered when units blob/simple are claimed'],
}
PROPS['C16'] = {
    'level': 'proof',
    'verus': ['page_w', 'page_r', 'rd_top'],
    'claim': ('Device nondeterminism is part of the device model: read may return any short count, every operation may fail. Proved on the real bodies: '
              'PagedWriter::read_current_page fills the page identically for every short-read schedule; every PagedWriter/PagedReader operation and '
              'E57Reader::{get_u64,extract_xml} that returns Ok has seen no device error (ghost fault flag: Ok => failed unchanged; Err of a device op => '
              'failed set), so a swallowed error fails a postcondition; flush Ok => device payload equals the logical stream; restated write_all / '
              'read_exact loops (std provided methods) are verified against the extracted write / read, so results are independent of chunking.'),
    'trusted': GLOBAL_TRUSTED + [_DEV, _CRC_OFF],
    'assumptions': [_DEV, 'short WRITES of the device are absorbed by std write_all on the device (assumed in the device model contract)',
                    'Drop for PagedWriter ignores flush errors by design and runs after finalize: outside',
                    'E57Writer::finalize / PointCloudWriter / Blob layers are covered when units e57w/pcw/blob are claimed'],
}

PROPS['C10'] = {
    'level': 'proof',
    'verus': ['bits'],
    'kani': ['bits_k', 'wr_k'],
    'claim': ('Writer totality and representability, as far as the units reach: the bit packer (serialize_integer, RecordDataType::write, add_bits) '
              'is total and stores exactly the value under its precondition min <= value <= max (Verus, C12 unit); integer_bits/bit_size total for all '
              'i64 ranges incl. min = max and the full range; get_max_packet_points, on the real body for prototypes of EVERY length (unit pcw): no panic, '
              'Ok(n) implies 1 <= n <= 2^20 (finalize\'s drain loop makes progress) and a packet of n points fits the 16-bit length field, otherwise an Invalid '
              'error; validate_prototype and its helpers contains/get/validate_cartesian/validate_spherical/validate_color/validate_return on the real bodies: '
              'accepted EXACTLY when the prototype follows the documented rules (each name once, all-or-none coordinate and colour groups, invalid-state and '
              'flag attributes with their group and integer range, integer index/return attributes, Cartesian or spherical coordinates present), rejected with '
              'an Invalid error otherwise; add_point establishes the packer precondition for everything it buffers and rejects wrong arity/type/range (unit pcw).'),
    'trusted': GLOBAL_TRUSTED,
    'assumptions': PROPS['C12']['assumptions'] + [
        'a slice of Records has fewer than 2^56 elements (allocation limit)',
        'Extension::validate_name and namespace registration are string code: excluded',
        'the clause "whenever all calls succeeded the file reads back" is C01/C04/C06'],
}
PROPS['C14'] = {
    'level': 'proof',
    'kani': ['wr_k'],
    'claim': ('Leaves, full domain (Kani): update_min/update_max at f64 and i64 are the running minimum/maximum (None -> Some(v); replace iff strictly '
              'smaller/greater; bitwise incl. NaN behaviour); RecordValue::to_f64/to_i64/to_u8 give the real value of a record (scaled = i*scale+offset) '
              'and fail exactly on a kind mismatch; RecordDataType::limits = declared range; ColorLimits::from_record_types / '
              'IntensityLimits::from_record_type take each channel from its own record type. The induction step add_point (18 update sites, frame over '
              'the bounds structs) and the base case PointCloudWriter::new are in unit pcw.'),
    'trusted': GLOBAL_TRUSTED,
    'assumptions': ['XML emission/parsing of bounds and limits is outside (C04)', 'format! stubbed on error paths'],
}

TRUSTED_ALLOW['pcw'] = TRUSTED_ALLOW['bits'] | TRUSTED_ALLOW['page_w'] | {
    'external_body:eq', 'external_body:to_f64', 'external_body:to_i64', 'external_body:update_min', 'external_body:update_max',
    'external_body:shim_vec_bsw', 'external_body:shim_opaque_from_str',
    'external_body:spec_default', 'external_body:shim_clone_opaque', 'external_body:shim_clone_proto',
    'external_body:shim_arr8', 'external_body:bytes_eq8',
}
PROPS['C10']['verus'] = ['bits', 'pcw']
PROPS['C14']['verus'] = ['pcw']
PROPS['C14']['level'] = 'proof'
_PCW_ASSUME = [
    'contract-only callees inside unit pcw, each proved on the real function by the Kani unit wr_k: RecordValue::to_f64 (float arithmetic), update_min/update_max (generic over PartialOrd; instantiated at f64 and i64 in Kani); RecordValue::to_i64 is verified on its real body in the unit',
    'derive(PartialEq) of RecordName is structural; String fields are modelled by an identity tag',
    'point_count < u64::MAX',
]
PROPS['C10']['assumptions'] += _PCW_ASSUME
PROPS['C14']['assumptions'] += _PCW_ASSUME + [_DEV]

TRUSTED_ALLOW['blob'] = TRUSTED_ALLOW['page_w'] | TRUSTED_ALLOW['page_r'] | {
    'external_body:shim_u64_to_le_bytes', 'external_body:shim_le_u64',
}
UNIT_RLIMIT['blob'] = 30
PROPS['C06'] = {
    'level': 'proof',
    'verus': ['blob'],
    'claim': ('Blob::write, proved on the real body over the extracted PagedWriter: the logical stream receives exactly header(16) ++ payload ++ zero '
              'padding to the next 4-byte boundary (append/patch algebra over the whole stream view: nothing else changes, also not by the header '
              'patch), the header carries section id 0 and the section length of the format (header + payload + padding; convention confirmed on '
              'libE57Format / las2e57 files in testdata), the descriptor is (physical position of the section start, payload length). Blob::read, over '
              'the extracted PagedReader: Ok(n) implies n == length and the sink received exactly the `length` logical bytes behind the 16-byte header at '
              'the descriptor offset, every one from a page with a valid checksum; otherwise an error. std::io::copy / Read::take are restated and '
              'verified against the extracted write / read (any chunking).'),
    'trusted': GLOBAL_TRUSTED + [_DEV, _CRC_OFF],
    'assumptions': [_DEV, 'source/sink of the caller (&mut dyn Read / &mut dyn Write) are ghost-sequence models with the std::io contracts (any short read; write_all appends or fails)',
                    'sections start 4-byte aligned (precondition; every section writer aligns afterwards: proved for Blob::write and PagedWriter::align)',
                    'image->blob wiring (ImageWriter::add_*) is straight-line code storing the returned descriptors: not under contract (String/Image structs)',
                    'composition write∘read through the page layer is by the C11 contracts (logical stream survives flush); no end-to-end lemma over whole files'],
}

TRUSTED_ALLOW['fmt'] = TRUSTED_ALLOW['rd'] | TRUSTED_ALLOW['page_w'] | {'external_body:shim_arr8', 'external_body:bytes_eq8'}
TRUSTED_ALLOW['e57w'] = TRUSTED_ALLOW['page_w'] | {'external_body:shim_arr8', 'external_body:bytes_eq8', 'external_body:shim_string_as_bytes',
                                                  'external_body:serialize_root', 'external_body:shim_root', 'external_body:shim_empty_meta'}
UNIT_RLIMIT.update({'fmt': 40, 'e57w': 40, 'pcw': 40, 'blob': 40})
PROPS['C02'] = {
    'level': 'proof',
    'verus': ['page_w', 'fmt', 'blob', 'e57w'],
    'claim': ('Writer side against a format specification written from the standard, not from the reader (binary layer): Header::write emits the 48 header bytes '
              '(signature "ASTM-E57" checked against the extracted constant, version 1.0, LE fields); E57Writer::new starts the file with the placeholder header; '
              'finalize_customized_xml appends the XML bytes at the cursor, replaces ONLY logical bytes 0..48 by a header whose fields are the true flushed file '
              'length (whole pages), the physical XML offset (= phys(cursor), outside checksum bytes), the XML length and page size 1024, and flushes: device '
              'payload = logical stream, every page sealed (C11). DataPacketHeader::write and CompressedVectorSectionHeader::write emit the packet / section '
              'header layouts; Blob::write emits header ++ payload ++ padding with the section length of the format; physical_position never points into checksum '
              'bytes; align pads with zeros to 4; every page sealed with the big-endian checksum (that the checksum is CRC-32C is discharged under C07, unit crc). Header::read / packet parsers (unit rd) accept exactly these layouts.'),
    'trusted': GLOBAL_TRUSTED + [_DEV, _CRC_OFF],
    'assumptions': [_DEV, _CRC_OFF,
                    'XML well-formedness / namespace correctness and the offsets published INSIDE the XML text are outside (serialize_root is contract-only; String bytes uninterpreted) — C04 not applicable',
                    'the caller-supplied XML transformer is any function that can be called on every String',
                    'packet payload layout (sizes + streams) and the compressed-vector section length bookkeeping are in unit pcw (C01) when claimed',
                    'decoding by an independent implementation is replaced by: specification functions written from the standard + confirmation of the blob length convention on libE57Format files in testdata'],
}

TRUSTED_ALLOW['simple'] = TRUSTED_ALLOW['rd'] | {
    'external_body:to_f64', 'external_body:to_i64', 'external_body:convert_to_cartesian', 'external_body:convert_to_spherical',
    'external_body:convert_intensity', 'external_body:transform_point', 'external_body:shim_move_all', 'external_body:normalize_value',
    'external_body:shim_reserve_vec', 'external_body:shim_reserve_deque',
}
UNIT_RLIMIT['simple'] = 40
PROPS['C05'] = {
    'level': 'proof',
    'verus': ['simple'],
    'kani': ['simple_k', 'wr_k', 'norm_k'],
    'claim': ('pop_point (Verus, real body): the returned point IS the documented function view_point of the raw values at the front of the queues and the '
              'metadata — validity from the invalid-state attribute {0,1,2}/{0,1} with the documented defaults when it is absent, coordinates = real value of '
              'THEIR OWN record (scaled = i*scale+offset by to_f64, Kani), colour/intensity absent exactly when flagged or not stored, each colour channel '
              'normalised with its own range and the colour switch, intensity with the intensity range and switch, row/column default -1; Err(Invalid) only '
              'if a stored state lies outside its set. next (Verus, real body, modular over advance/pop_point): never more than `records` points, one '
              'point per call, terminates, and the "logic error" branch is unreachable, i.e. it fails only where advance or pop_point fail. '
              'Post-processing (Kani, real functions): which variant results in every (cartesian x spherical) state with all other fields bit-identical '
              '(full domain); formulas x = r cos(el) cos(az), y = r cos(el) sin(az), z = r sin(el), r/az/el, p\' = R p + t and the quaternion rotation '
              'matrix schematically with libm abstracted; intensity -> grey only when no colour.'),
    'trusted': GLOBAL_TRUSTED + [_DEV, _CRC_OFF],
    'assumptions': [_DEV] + _RD_ASSUME + [
        'formulas are checked SCHEMATICALLY: libm (cos, sin, atan2, asin, sqrt) replaced by stubs returning distinct exact values, inputs from exact binary grids; libm itself and IEEE rounding are trusted',
        'contract-only callees inside unit simple: to_f64/to_i64 (Kani wr_k), normalize_value (Kani norm_k), the four post-processing functions (Kani simple_k)',
        'prepare_indices (Iterator::position closures) is not under contract: assumed to return positions inside the prototype and the first record of each name',
        'the option setters are single assignments (not under contract); each switch guards exactly one post-processing loop in next (extracted text)',
        'the simple iterator is specified up to its first Err or None'],
}

_PCW2 = [
    'contract-only inside unit pcw: derive(Default) of the bounds structs = all None, derive(Clone) structural. Verified on their real bodies in the same unit (no longer assumed): validate_prototype and its helpers, get_max_packet_points, RecordDataType::limits, IntensityLimits::from_record_type, ColorLimits::from_record_types. Iterator adapters are spelled out as the loops / matches that define them, each application logged as a rewrite: sum over map (accumulation loop), any / find with a name-equality closure (verified helper loops shim_has* / shim_find*), Option::map with a constructor (match), fold (crc unit); the two local closures of validate_prototype are beta-reduced',
    'a slice of Records has fewer than 2^56 elements (allocation limit; precondition of PointCloudWriter::new)',
    'the per-call contracts (new / add_point / write_buffer_to_disk / finalize) are induction steps relative to the pre-state; the whole-history statement (all points of a section, in order, across all packets) follows by induction over calls and is not mechanised as one theorem',
]
PROPS['C01'] = {
    'level': 'proof',
    'verus': ['bits', 'page_w', 'page_r', 'pcw', 'rd'],
    'claim': ('Raw round trip as a chain of per-function contracts on the real bodies. Writer: add_point buffers exactly the accepted values (all fit the prototype), '
              'write_buffer_to_disk packs the first min(capacity, pending) points in order: per stream, emitted chunk bytes followed by what stays buffered are exactly '
              'the previously buffered bits plus enc(value) of each packed point (enc = value-min in width(min,max) bits LSB first / LE float bytes, C12), and the logical '
              'stream receives exactly one well-formed data packet (header, n LE stream lengths, the chunks, zero padding to 4; <= 65535 bytes) or nothing; the section '
              'length is the number of logical bytes since the section start; finalize drains everything, patches ONLY the 32 header bytes with the final length and '
              'publishes (records = points added, file_offset = physical section start, prototype); new writes the header placeholder and records data_offset = '
              'physical position behind it. Page layer (units page_w / page_r, as under C11): the logical stream survives every write / seek-back-and-patch / flush history and is what the reader returns. Reader: QueueReader::new seeks to file_offset/data_offset, advance '
              'appends each announced stream chunk to its bit buffer and decodes floor(rest/w) values (chunk+min), pop_point/next yield one value per record in order, '
              'at most `records` points (unit rd). Decoder(encoder(v)) = v for every representable v (theorem_int_roundtrip, float LE round trip).'),
    'trusted': GLOBAL_TRUSTED + [_DEV, _CRC_OFF],
    'assumptions': [_DEV] + _RD_ASSUME + _PCW_ASSUME + _PCW2 + PROPS['C12']['assumptions'] + [
        'identical prototype through XML (names, types, min/max/scale/offset as text) is outside (C04 not applicable)',
        'known finding F4 (all records zero-width) is excluded on the reader side and reported under C09'],
}
PROPS['C10']['assumptions'] += _PCW2
PROPS['C14']['assumptions'] += _PCW2
PROPS['C14']['claim'] += ' Unit pcw (Verus, real bodies): PointCloudWriter::new creates empty bounds exactly for the attribute groups present and default limits = declared range of the first Intensity / ColorRed,Green,Blue record types; add_point folds min/max over the records of the point for all 18 bound fields (frame over the structs), leaves them untouched when the point is rejected; write_buffer_to_disk never touches bounds/limits; finalize moves bounds and limits unchanged into the published descriptor.'
PROPS['C01']['kani'] = ['bsw_k', 'bsr_k', 'bits_k']
PROPS['C06']['verus'] = ['page_w', 'page_r', 'blob']
TRUSTED_ALLOW['img'] = TRUSTED_ALLOW['blob'] | {'external_body:shim_clone_image'}
UNIT_RLIMIT['img'] = 30
PROPS['C06']['verus'] = ['page_w', 'page_r', 'blob', 'img']
PROPS['C06']['claim'] += (' Image payloads (unit img, real bodies of ImageWriter::{add_visual_reference, add_pinhole, add_spherical, add_cylindrical, finalize} '
    'over the extracted Blob::write): the descriptor stored as the image data of a representation is (physical start, length) of the section written from the '
    'IMAGE source, the mask descriptor that of the section written from the MASK source right behind it (None exactly when no mask is given), format and '
    'properties are stored as given, a second projection is refused before anything is written, and finalize publishes exactly the assembled image, once, '
    'and only if it has a representation.')
PROPS['C06']['assumptions'] = PROPS['C06']['assumptions'] + ['derive(Clone) of Image is structural (shim_clone_image); `image: &mut dyn Read` / `mask: Option<&mut dyn Read>` are the ghost-sequence Source model; the XML side of image descriptors (offset/length as text) is outside (C04)']
PROPS['C02']['verus'] = ['page_w', 'fmt', 'blob', 'e57w', 'pcw']
PROPS['C16']['verus'] = ['page_w', 'page_r', 'rd_top', 'blob', 'e57w', 'pcw']

TRUSTED_ALLOW['rd15'] = TRUSTED_ALLOW['fmt'] | TRUSTED_ALLOW['rd_top'] | {'external_body:shim_parse_xml'}
_XML_EMPTY = 'roxmltree::Document::parse rejects a document of length zero (no root element): ASSUMED contract on the dependency (shim_parse_xml); String::from_utf8 / root_from_document / vec_from_document are behind the same shim'
PROPS['C15'] = {
    'level': 'proof',
    'verus': ['page_w', 'fmt', 'blob', 'e57w', 'pcw', 'rd15'],
    'claim': ('Ordering invariant over EVERY device write, by a history variable in the device model: `dirty` counts the device writes (complete or torn) that '
              'carry a non-zero byte for device bytes 32..40 (the XML-length field of the file header), `snap` is the device image just before the first one. '
              'Proved on the real bodies, for every outcome including every error exit: PagedWriter::{new, write, write_all(restated), flush, physical_seek, '
              'physical_size, physical_position, align, drop}, Header/section/packet header writers, Blob::write, PointCloudWriter::{new, add_point, '
              'write_buffer_to_disk, finalize} and E57Writer::new keep dirty == 0 (and the page buffer unable to put anything there) as long as they write at logical '
              'offsets >= 40 or write the placeholder header; so every device image from creation until the header write inside finalize has XML length zero '
              '(or is shorter than a header). E57Writer::finalize_customized_xml issues AT MOST ONE such write, and at that moment the device already holds every '
              'page of the finished file (all earlier sections and the complete XML, every page sealed, placeholder still in place: `complete_but_header(snap, ..)`); '
              'on success the final image differs from that snapshot only inside page 0. Reader side: E57Reader::new returns Err for every image that is shorter '
              'than 48 bytes or has XML length zero. NOT decided here: images torn INSIDE the final page-0 write (the 1024 bytes that carry the real header), '
              'where acceptance depends on roxmltree rejecting a truncated document; ImageWriter methods (thin wrappers over Blob::write) are not under contract.'),
    'trusted': GLOBAL_TRUSTED + [_DEV, _CRC_OFF, _XML_EMPTY],
    'assumptions': [_DEV, _XML_EMPTY,
                    'device writes reach the device in issue order (property statement); a torn write leaves a byte prefix of the buffer (device model `torn`)',
                    'Drop after an I/O ERROR is not covered (after a failed physical_seek the page buffer may hold another page; the caller already has the error)',
                    'the image torn inside the final page-0 write is outside the claim (see claim text)',
                    'ImageWriter::{add_*,finalize} and E57Writer::{add_pointcloud,add_blob,add_image} are thin wrappers (no own device access) and not under contract'],
}
for _p in ('C11', 'C16', 'C06', 'C02', 'C15'):
    PROPS[_p]['native'] = ['pw_n']
for _p in ('C16', 'C06', 'C02'):
    PROPS[_p]['native'] = ['pw_n', 'blob_n']
PROPS['C15']['native'] = ['pw_n', 'e57w_n']
PROPS['C13']['native'] = ['norm_n']
PROPS['C06']['native'] = ['pw_n', 'blob_n', 'img_n']
for _p in ('C14', 'C10', 'C01', 'C12', 'C02'):
    PROPS[_p]['native'] = ['pcw_n']
PROPS['C02']['native'] = ['pw_n', 'blob_n', 'pcw_n']
PROPS['C01']['native'] = ['pw_n', 'pcw_n']
PROPS['C10']['native'] = ['pcw_n', 'ext_n']
PROPS['C16']['native'] = ['pw_n', 'blob_n', 'pcw_n']
for _p in ('C17', 'C09', 'C03', 'C05', 'C07', 'C08'):
    PROPS[_p]['native'] = ['rd_n']

FIX_COMMITS = ['4bb8197', '4c9a29a', '15147a8', '4e117ba', 'b93d656', 'a099e6e', 'e707a6b', '30d67e9', '4443841', '1d90b93', 'ec0e9b9', 'ed32bde', '5c22086', 'e5e9f3b', '1f3471b']

_PENDING = 'unit not completed yet in the build round (applicable; see DESIGN.md §1) — not claimed until its obligations are discharged'
NOT_APPLICABLE = {
    
    'C04': 'lives entirely in format!-built strings and roxmltree parsing; no contract within reach of Verus (no str byte reasoning) or Kani (roxmltree does not finish) can state parse(serialise(x)) = x (DESIGN.md §6)',
    'C18': 'about roxmltree name matching and element lookup over arbitrary XML trees; would need an assumed contract on the dependency, which decides nothing (DESIGN.md §6)',
    'C19': 'whole-file composition of C01+C03+C04 plus writer determinism; the XML half is out of reach and whole-program composition is not a per-function contract; decidable ingredients are discharged under C10/C11/C12 (DESIGN.md §6)',
    'C20': 'the tools are main() functions doing process and file I/O; there is no function to put under contract (DESIGN.md §6)',
}
