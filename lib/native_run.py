"""Bounded executable contract checks (stand-in, never counted as proved): the REAL functions of /repo are run natively against their
contract as an executable oracle over an enumerated, stated bound of inputs / device behaviours. They exist to produce a concrete
failing input where the deductive back ends give none (Verus has no counterexamples; Kani does not finish on 1024-byte page buffers).
A group file units/native/<g>.rs: `//@target <file>`, `//@check <test fn> serves=C.. fn=<function> note="<bound>"`, `//@module` + Rust
test module text, appended to the target file of a scratch copy of /repo as `#[cfg(test)] mod native_verif_<g>`."""
import os
import re
import shutil
import subprocess
import time

VERIF = os.path.dirname(os.path.dirname(os.path.abspath(__file__)))
# E57_TARGET_SUFFIX: separate build directories for matrix runs that evaluate several trees side by side (registered checks run one at a time)
TARGET = os.path.join(VERIF, '.cache', 'native-target' + os.environ.get('E57_TARGET_SUFFIX', ''))


def parse_group(name):
    p = os.path.join(VERIF, 'units', 'native', name + '.rs')
    g = {'name': name, 'target': None, 'checks': {}, 'module': ''}
    lines = open(p).read().split('\n')
    i = 0
    while i < len(lines):
        ln = lines[i]
        if ln.startswith('//@target '):
            g['target'] = ln.split()[1]
        elif ln.startswith('//@check '):
            m = re.match(r'//@check (\w+)\s+serves=(\S+)\s+fn=(\S+)\s+note="(.*)"', ln)
            g['checks'][m.group(1)] = {'serves': m.group(2).split(','), 'fn': m.group(3), 'note': m.group(4)}
        elif ln.startswith('//@module'):
            g['module'] = '\n'.join(lines[i + 1:])
            break
        i += 1
    return g


def run_groups(prop, group_names, repo, workdir, out, tier, known, match_known):
    crate = os.path.join(workdir, 'native_crate')
    if os.path.exists(crate):
        shutil.rmtree(crate)
    os.makedirs(crate)
    shutil.copytree(os.path.join(repo, 'src'), os.path.join(crate, 'src'))
    if os.path.exists(os.path.join(repo, 'Cargo.lock')):
        shutil.copy(os.path.join(repo, 'Cargo.lock'), crate)
    toml = open(os.path.join(repo, 'Cargo.toml')).read()
    if '[workspace]' in toml:
        toml = toml[:toml.index('[workspace]')]
    open(os.path.join(crate, 'Cargo.toml'), 'w').write(toml + '\n[workspace]\n')
    os.makedirs(os.path.join(crate, '.cargo'))
    open(os.path.join(crate, '.cargo', 'config.toml'), 'w').write('[net]\noffline = true\n')
    sel = []
    for n in group_names:
        g = parse_group(n)
        tp = os.path.join(crate, g['target'])
        if not os.path.exists(tp):
            out.undecided.append('native/%s: target file missing: %s' % (n, g['target']))
            continue
        mine = [(t, m) for t, m in g['checks'].items() if prop in m['serves']]
        if not mine:
            continue
        open(tp, 'a').write('\n#[cfg(test)]\nmod native_verif_%s {\n    use super::*;\n%s\n}\n' % (n, g['module']))
        sel += [(n, t, m) for t, m in mine]
    if not sel:
        return
    env = dict(os.environ, CARGO_TARGET_DIR=TARGET, CARGO_NET_OFFLINE='true', RUST_BACKTRACE='0')
    cmd = ['cargo', 'test', '--offline', '--lib', '--', 'native_verif_', '--test-threads', '8']
    t0 = time.time()
    try:
        p = subprocess.run(cmd, cwd=crate, env=env, capture_output=True, text=True, timeout=1200)
        outp = p.stdout + '\n' + p.stderr
    except subprocess.TimeoutExpired:
        out.undecided.append('native: timeout')
        return
    wall = time.time() - t0
    out.cmds.append('cd <scratch copy of /repo + native_verif modules> && ' + ' '.join(cmd))
    if 'test result:' not in outp:
        # does not build against the changed code (renamed private items, changed signatures): no decision
        out.undecided.append('native: the bounded contract checks do not build against this tree: ' + outp[-600:].replace('\n', ' | '))
        return
    for n, t, m in sel:
        name = 'native/%s/%s' % (n, t)
        mm = re.search(r'test \S*native_verif_%s::%s \.\.\. (\w+)' % (n, t), outp)
        if not mm:
            out.undecided.append('%s: no result' % name)
            continue
        ok = mm.group(1) == 'ok'
        out.bounded.append({'name': name, 'backend': 'native execution of the real code against the contract', 'ok': ok, 'time_ms': int(wall * 1000),
                            'kind': 'bounded', 'fn': m['fn'], 'bound': m['note']})
        if not ok:
            pm = re.search(r"---- \S*native_verif_%s::%s stdout ----\n(.*?)(?:\n\n|\nnote:|\Z)" % (n, t), outp, re.S)
            msg = (pm.group(1) if pm else '')[:1500]
            v = {'obligation': '%s [contract violated on a concrete input]' % name, 'unit': 'native/' + n, 'fn': m['fn'], 'message': msg.split('\n')[0][:300],
                 'clause': m['note'], 'sites': msg[:300], 'rendered': msg, 'backend': 'native',
                 'cex': {'test': 'cargo test --lib -- native_verif_%s::%s' % (n, t), 'native': msg, 'confirmed': True}}
            k = match_known(known, prop, v['obligation'], msg)
            if k:
                v['known'] = k
                out.known.append(v)
            else:
                out.violations.append(v)
