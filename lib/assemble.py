"""Unit assembler: template (/verif/units/verus/*.rs) + real code from /repo -> one Verus file.

Template directives (a line whose first non-blank characters are `//@`):

  //@grw <regex> ==> <repl>            global rewrite, applied to every extracted item of this unit
  //@item <file> <kind> <Name>         extract a struct/enum/const/static/type definition verbatim
      //@rw <regex> ==> <repl> [;n=<k>]   local rewrite (must match; n=<k>: exactly k times)
  //@enditem
  //@fn <file> <Owner|-> <name> [trait=<T>] [rename=<new>] [serves=C01,C02] [canary] [nosig]
      //@rw <regex> ==> <repl>
      //@sig                           text spliced between signature and body (requires/ensures/decreases)
      //@body_start                    text spliced right after the opening brace
      //@loop <k> before|head|body_start|body_end [hdr=<regex>]
      //@call <callee> <n> before|after   statement containing the n-th (0-based) call of <callee>
      //@tail                          before the tail expression (after the last top-level `;`)
      //@fn_end                        before the closing brace
  //@endfn

Everything else in the template is copied as is (prelude: specs, lemmas, shims, device model).
The function text between `fn` and the closing brace is taken from /repo verbatim, then the
rewrites are applied (each application logged), then the contract sections are spliced in at the
structural anchors. A lost anchor raises LostAnchor (=> undecided, never an alarm).
"""
import hashlib
import os
import json
import re
import sys

sys.path.insert(0, os.path.dirname(__file__))
from lex import strip_map, match_brace, find_fns, find_loops  # noqa: E402


class LostAnchor(Exception):
    pass


LENIENT = {'on': False, 'dropped': [], 'force': set()}


def _lost(msg):
    """strict: raise; lenient (degraded mode): record the dropped annotation and go on without it"""
    if LENIENT['on']:
        LENIENT['dropped'].append(msg)
        return True
    raise LostAnchor(msg)


class TemplateError(Exception):
    pass


_src_cache = {}


def load(repo, rel):
    key = (repo, rel)
    if key not in _src_cache:
        p = os.path.join(repo, rel)
        if not os.path.exists(p):
            raise LostAnchor('source file missing: ' + rel)
        src = open(p).read()
        kind = strip_map(src)
        _src_cache[key] = (src, kind)
    return _src_cache[key]


def tests_start(src, kind):
    """offset of `mod tests` (code), or len(src)"""
    for m in re.finditer(r'\bmod\s+tests\b', src):
        if kind[m.start()] == 'c':
            # include the #[cfg(test)] in front
            return m.start()
    return len(src)


def find_impl_blocks(src, kind, owner, trait=None):
    out = []
    lim = tests_start(src, kind)
    for m in re.finditer(r'\bimpl\b', src):
        if kind[m.start()] != 'c' or m.start() >= lim:
            continue
        # header up to the opening brace
        j = m.end()
        while j < len(src) and not (src[j] == '{' and kind[j] == 'c'):
            if src[j] == ';' and kind[j] == 'c':
                j = -1
                break
            j += 1
        if j < 0 or j >= len(src):
            continue
        hdr = src[m.end():j]
        hdr_nogen = hdr
        mm = re.match(r'\s*(<.*?>)?\s*(.*)$', hdr, re.S)
        rest = mm.group(2) if mm else hdr
        rest = re.sub(r'\bwhere\b.*$', '', rest, flags=re.S).strip()
        if ' for ' in rest:
            t, o = rest.split(' for ', 1)
            t = t.strip()
            o = o.strip()
        else:
            t, o = None, rest
        oname = re.match(r'([\w:]+)', o)
        oname = oname.group(1).split('::')[-1] if oname else ''
        tname = None
        if t:
            tm = re.match(r'([\w:]+)', t)
            tname = tm.group(1).split('::')[-1] if tm else t
        if oname != owner:
            continue
        if trait != '*' and (trait or None) != tname:
            continue
        out.append((j, match_brace(src, kind, j)))
    return out


def locate_fn(repo, rel, owner, name, trait=None):
    src, kind = load(repo, rel)
    lim = tests_start(src, kind)
    fns = [f for f in find_fns(src, kind) if f[1] < lim]
    if owner == '-':
        # free function: not inside any impl / trait block => brace depth 0
        cands = []
        for f in fns:
            if f[0] != name:
                continue
            depth = 0
            for k in range(f[1]):
                if kind[k] == 'c':
                    if src[k] == '{':
                        depth += 1
                    elif src[k] == '}':
                        depth -= 1
            if depth == 0:
                cands.append(f)
    else:
        blocks = find_impl_blocks(src, kind, owner, trait)
        cands = [f for f in fns if f[0] == name and any(b < f[1] < e for b, e in blocks)
                 # direct child of the impl block (not a nested fn)
                 ]
    if len(cands) != 1:
        raise LostAnchor('fn %s::%s in %s: %d candidates' % (owner, name, rel, len(cands)))
    return src, kind, cands[0]


def locate_item(repo, rel, ikind, name, owner=None):
    src, kind = load(repo, rel)
    lim = tests_start(src, kind)
    blocks = find_impl_blocks(src, kind, owner) if owner else None
    for m in re.finditer(r'\b' + ikind + r'\s+' + re.escape(name) + r'\b', src):
        if kind[m.start()] != 'c' or m.start() >= lim:
            continue
        if blocks is not None and not any(b < m.start() < e for b, e in blocks):
            continue
        s = m.start()
        # extend backwards over `pub`, `pub(crate)`
        pre = re.search(r'(pub(\([^)]*\))?\s+)$', src[:s])
        if pre:
            s = pre.start()
        # attributes directly above (derive etc.)
        attrs = []
        while True:
            mm = re.search(r'(#\[[^\]]*\]\s*)$', src[:s])
            if not mm:
                break
            attrs.insert(0, mm.group(1).strip())
            s = mm.start()
        j = m.end()
        if ikind in ('const', 'static', 'type'):
            dpt = 0
            while j < len(src):
                if kind[j] == 'c':
                    if src[j] in '([{':
                        dpt += 1
                    elif src[j] in ')]}':
                        dpt -= 1
                    elif src[j] == ';' and dpt == 0:
                        break
                j += 1
        else:
            while j < len(src):
                if kind[j] == 'c' and src[j] in '{;(':
                    break
                j += 1
        if src[j] == '{':
            e = match_brace(src, kind, j) + 1
        elif src[j] == '(':  # tuple struct
            e = src.find(';', j) + 1
        else:
            e = j + 1
        # definitions start after attributes / doc comments: return text without attrs
        body_s = m.start()
        pre2 = re.search(r'(pub(\([^)]*\))?\s+)$', src[:body_s])
        if pre2:
            body_s = pre2.start()
        return src, kind, body_s, e, attrs
    raise LostAnchor('%s %s in %s not found' % (ikind, name, rel))



SNAPSHOTS = None


def load_snapshots():
    """units/snapshots.json: comment-stripped text of every function under contract on the tree the contracts were written for
    (generated by lib/snapshot.py). Used only to recognise RENAMED locals / parameters, so that annotations follow a rename."""
    global SNAPSHOTS
    if SNAPSHOTS is None:
        p = os.path.join(os.path.dirname(os.path.dirname(os.path.abspath(__file__))), 'units', 'snapshots.json')
        try:
            SNAPSHOTS = json.load(open(p))
        except Exception:
            SNAPSHOTS = {}
    return SNAPSHOTS


def _tokens(t):
    out = []
    for m in re.finditer(r'[A-Za-z_]\w*|\d[\w.]*|\S', t):
        tok = m.group(0)
        dotted = t[:m.start()].rstrip().endswith('.') and not t[:m.start()].rstrip().endswith('..')
        out.append((tok, dotted))
    return out


def rename_map(old, new):
    """identifiers of `old` that were consistently replaced by a fresh identifier in `new` (token-level diff), e.g. a renamed local"""
    import difflib
    a = _tokens(old)
    b = _tokens(new)
    ida = set(t for t, d in a if not d and re.match(r'^[A-Za-z_]\w*$', t))
    idb = set(t for t, d in b if not d and re.match(r'^[A-Za-z_]\w*$', t))
    sm = difflib.SequenceMatcher(None, [t for t, _ in a], [t for t, _ in b], autojunk=False)
    cand = {}
    bad = set()
    for op, i1, i2, j1, j2 in sm.get_opcodes():
        if op != 'replace' or i2 - i1 != j2 - j1:
            continue
        for k in range(i2 - i1):
            (x, dx), (y, dy) = a[i1 + k], b[j1 + k]
            if dx or dy or x == y or not re.match(r'^[A-Za-z_]\w*$', x) or not re.match(r'^[A-Za-z_]\w*$', y):
                continue
            if x in idb or y in ida:
                continue      # not a rename: the old name is still in use, or the new name already existed
            if cand.get(x, y) != y:
                bad.add(x)
            cand[x] = y
    return dict((x, y) for x, y in cand.items() if x not in bad)


def apply_rename(body, rmap):
    for x, y in rmap.items():
        body = re.sub(r'(?<![\w.])%s\b(?!\s*\()' % re.escape(x), y, body)
    return body


def strip_comments(text):
    k = strip_map(text)
    return ''.join(ch if kk != 'm' else ('\n' if ch == '\n' else '') for ch, kk in zip(text, k))


# std calls Verus has no specification for, redirected to the shims of prelude/le.rs (DESIGN rewrite rules 4 and 8);
# applied to every extracted function of every unit, each application logged
BUILTIN_RW = [
    (r'\b(u16|u32|u64)::from_le_bytes\(\s*(&?)(\w+)\[(\d+)\.\.(\d+)\]\.try_into\(\)\.internal_err\(WRONG_OFFSET\)\?,?\s*\)', r'shim_le_\1(&\3[..], \4, \5)?', None),
    (r'\b(u16|u32|u64|u128|f32|f64)::from_le_bytes\(', r'shim_\1_from_le_bytes(', None),
    (r'\b(u16|u32|u64)::to_le_bytes\(', r'shim_\1_to_le_bytes(', None),
    (r'\.to_le_bytes\(\)', r'.to_le_bytes_shim()', None),
    # zeroed byte buffers of the reader: allocation goes through a shim whose precondition is the C09 allocation bound
    (r'\bvec!\[0_u8;\s*([^\]]+)\]', r'shim_vec_u8_zeros(\1)', None),
]


def apply_rewrites(text, rws, log, where, required=True):
    for (pat, repl, n) in rws:
        try:
            new, cnt = re.subn(pat, repl, text, flags=re.S | re.M)
        except re.error as ex:
            raise TemplateError('bad regex %r: %s' % (pat, ex))
        if required and cnt == 0:
            if _lost('rewrite %r does not match in %s' % (pat, where)):
                continue
        if n is not None and cnt != n:
            _lost('rewrite %r matched %d times, expected %d in %s' % (pat, cnt, n, where))
        if cnt:
            log.append({'where': where, 'pattern': pat, 'replacement': repl, 'count': cnt})
        text = new
    return text


def parse_rw(arg):
    n = None
    m = re.search(r'\s;n=(\d+)\s*$', arg)
    if m:
        n = int(m.group(1))
        arg = arg[:m.start()]
    if ' ==> ' not in arg and not arg.endswith(' ==>'):
        raise TemplateError('bad rewrite: ' + arg)
    pat, _, repl = arg.partition(' ==>')
    return (pat.strip(), repl.strip() if repl.strip() != '<empty>' else '', n)


def stmt_start(text, kind, pos, lo):
    """start of the statement containing pos: after the nearest preceding `;`, `{` or `}` (code)"""
    j = pos - 1
    dp = 0
    while j > lo:
        if kind[j] == 'c':
            c = text[j]
            if c in ')]':
                dp += 1
            elif c in '([':
                dp -= 1
            elif dp <= 0 and c in ';{}':
                return j + 1
        j -= 1
    return lo + 1


def stmt_end(text, kind, pos, hi):
    j = pos
    dp = 0
    db = 0
    while j < hi:
        if kind[j] == 'c':
            c = text[j]
            if c in '([':
                dp += 1
            elif c in ')]':
                dp -= 1
            elif c == '{':
                db += 1
            elif c == '}':
                db -= 1
                if db < 0:
                    return j
            elif c == ';' and dp <= 0 and db <= 0:
                return j + 1
        j += 1
    return hi


def splice_fn(fid, text, sections, opts):
    """text: `fn name(..) -> T { body }` after rewrites. returns text with contract sections spliced."""
    kind = strip_map(text)
    fns = find_fns(text, kind)
    if not fns:
        raise LostAnchor('no fn in extracted text of ' + fid)
    name, s, b, e = fns[0]
    if opts.get('ret'):
        # name the return value: `-> T` => `-> (r: T)` (Verus syntax for postconditions)
        sigtxt = text[s:b]
        k2 = kind[s:b]
        pos = -1
        dp = 0
        for j in range(len(sigtxt) - 1):
            if k2[j] != 'c':
                continue
            c = sigtxt[j]
            if c in '([<' and not (c == '<' and sigtxt[j - 1:j] == '-'):
                dp += 1 if c != '<' else 0
            if c in '([':
                pass
            if c in ')]':
                dp -= 1
            if sigtxt[j:j + 2] == '->' and dp == 0:
                pos = j
        if pos < 0:
            raise LostAnchor('%s: no return type to name' % fid)
        rt = sigtxt[pos + 2:]
        mwhere = re.search(r'\bwhere\b', rt)
        rtype = rt[:mwhere.start()] if mwhere else rt
        tail_ = rt[mwhere.start():] if mwhere else ''
        newsig = sigtxt[:pos] + '-> (%s: %s) ' % (opts['ret'], rtype.strip()) + tail_
        text = text[:s] + newsig + text[b:]
        kind = strip_map(text)
        fns = find_fns(text, kind)
        name, s, b, e = fns[0]
    ins = []
    loops = find_loops(text, kind, b, e)
    # exclude loops of nested closures? keep source order
    for key, body in sections.items():
        k0 = key[0]
        if k0 == 'attr':
            ins.append((s, body.strip() + '\n', 0))
        elif k0 == 'sig':
            ins.append((b, '\n' + body + '\n', 0))
        elif k0 == 'body_start':
            ins.append((b + 1, '\n' + body + '\n', 0))
        elif k0 == 'fn_end':
            ins.append((e, '\n' + body + '\n', 1))
        elif k0 == 'tail':
            # after the last `;` or block-closing `}` at depth 1 of the body
            j = b + 1
            d = 0
            dp = 0
            last = b + 1
            while j < e:
                if kind[j] == 'c':
                    c = text[j]
                    if c == '{':
                        d += 1
                    elif c == '}':
                        d -= 1
                    elif c in '([':
                        dp += 1
                    elif c in ')]':
                        dp -= 1
                    elif c == ';' and d == 0 and dp == 0:
                        last = j + 1
                    if c == '}' and d == 0 and dp == 0:
                        # a block statement (loop / if without value) ends here unless an operator,
                        # `else`, or the end of the body follows
                        rest = text[j + 1:e]
                        mm = re.match(r'\s*(\S+)', strip_comments(rest))
                        nxt = mm.group(1) if mm else ''
                        if nxt and not nxt.startswith(('else', '.', '?', ';', ')', ',', '+', '-', '*', '/', '=', '&', '|', '<', '>', 'as')):
                            last = j + 1
                j += 1
            ins.append((last, '\n' + body + '\n', 0))
        elif k0 == 'loop':
            _, k, where, hdr = key
            if k >= len(loops):
                if _lost('%s: loop %d not found (%d loops)' % (fid, k, len(loops))):
                    continue
            kw, p, lb, le = loops[k]
            if hdr is not None and not re.search(hdr, text[p:lb]):
                # re-synchronise on the header text
                cand = [i for i, l in enumerate(loops) if re.search(hdr, text[l[1]:l[2]])]
                if len(cand) != 1:
                    if _lost('%s: loop %d header /%s/ lost' % (fid, k, hdr)):
                        continue
                kw, p, lb, le = loops[cand[0]]
            if where == 'before':
                ins.append((stmt_start(text, kind, p, b), '\n' + body + '\n', 0))
            elif where == 'head':
                ins.append((lb, '\n' + body + '\n', 0))
            elif where == 'body_start':
                ins.append((lb + 1, '\n' + body + '\n', 0))
            elif where == 'body_end':
                ins.append((le, '\n' + body + '\n', 1))
            elif where == 'after':
                ins.append((le + 1, '\n' + body + '\n', 0))
            else:
                raise TemplateError('bad loop anchor ' + where)
        elif k0 == 'call':
            _, callee, n, where = key
            occ = [m for m in re.finditer(r'(?<![\w])' + re.escape(callee) + r'\s*(::<[^>]*>)?\s*\(', text[b:e])
                   if kind[b + m.start()] == 'c']
            if n >= len(occ):
                if _lost('%s: call %s #%d not found (%d calls)' % (fid, callee, n, len(occ))):
                    continue
            p = b + occ[n].start()
            if where == 'before':
                ins.append((stmt_start(text, kind, p, b), '\n' + body + '\n', 0))
            elif where == 'after':
                ins.append((stmt_end(text, kind, p, e), '\n' + body + '\n', 0))
            else:
                raise TemplateError('bad call anchor ' + where)
        elif k0 == 'stmt':
            _, n, where, rx = key
            occ = [m for m in re.finditer(rx, text[b:e]) if kind[b + m.start()] == 'c']
            if n >= len(occ):
                if _lost('%s: statement /%s/ #%d not found (%d)' % (fid, rx, n, len(occ))):
                    continue
            p = b + occ[n].start()
            if where == 'before':
                ins.append((stmt_start(text, kind, p, b), '\n' + body + '\n', 0))
            elif where == 'after':
                ins.append((stmt_end(text, kind, p, e), '\n' + body + '\n', 0))
            else:
                raise TemplateError('bad stmt anchor ' + where)
        else:
            raise TemplateError('bad section ' + str(key))
    out = text
    # apply from the back; stable for equal positions (order of appearance in template)
    order = sorted(range(len(ins)), key=lambda i: (-ins[i][0], -i))
    for i in order:
        pos, t, _ = ins[i]
        out = out[:pos] + t + out[pos:]
    return out


def assemble(template_path, repo, vacuity=False, lenient=False, auto=None, degrade=None):
    LENIENT['on'] = lenient
    LENIENT['dropped'] = []
    LENIENT['force'] = set(degrade or [])
    try:
        text, meta = _assemble(template_path, repo, vacuity)
        meta['dropped_anchors'] = list(LENIENT['dropped'])
        if auto:
            text = add_auto_helpers(text, meta, repo, auto)
        return text, meta
    finally:
        LENIENT['on'] = False
        LENIENT['force'] = set()


def _assemble(template_path, repo, vacuity=False):
    """returns (text, meta). meta: functions[], items[], rewrites[], line ranges"""
    lines = open(template_path).read().split('\n')
    out = []          # list of text chunks
    meta = {'template': template_path, 'functions': [], 'items': [], 'rewrites': [], 'regions': []}
    grws = []
    i = 0
    cur_line = 1

    def emit(t):
        nonlocal cur_line
        out.append(t)
        cur_line += t.count('\n')

    while i < len(lines):
        ln = lines[i]
        st = ln.strip()
        if not st.startswith('//@'):
            emit(ln + '\n')
            i += 1
            continue
        parts = st[3:].split(None, 1)
        cmd = parts[0]
        arg = parts[1] if len(parts) > 1 else ''
        if cmd == 'grw':
            grws.append(parse_rw(arg))
            i += 1
        elif cmd == 'nopub':
            meta['nopub'] = True
            i += 1
        elif cmd == 'include':
            inc = os.path.join(os.path.dirname(template_path), 'prelude', arg.strip())
            inc_lines = open(inc).read().split('\n')
            lines[i:i + 1] = inc_lines
            meta.setdefault('includes', []).append(arg.strip())
        elif cmd == 'item':
            a = arg.split()
            rel, ikind, name = a[0], a[1], a[2]
            opts = dict((o.split('=', 1) + [''])[:2] for o in a[3:])
            rws = []
            i += 1
            while lines[i].strip() != '//@enditem':
                s2 = lines[i].strip()
                if s2.startswith('//@rw '):
                    rws.append(parse_rw(s2[6:]))
                elif s2:
                    raise TemplateError('unexpected in item: ' + s2)
                i += 1
            i += 1
            src, kind, s, e, attrs = locate_item(repo, rel, ikind, name, opts.get('owner') or None)
            raw = src[s:e]
            text = strip_comments(raw)
            iid = '%s %s' % (ikind, name)
            text = apply_rewrites(text, grws, meta['rewrites'], iid, required=False)
            text = apply_rewrites(text, rws, meta['rewrites'], iid)
            if 'bytestr' in opts:
                # byte string literals -> array literals of their bytes (Verus does not look inside b"..")
                def _bs(mm):
                    raw_b = bytes(mm.group(1), 'utf8').decode('unicode_escape').encode('latin1')
                    return '&[' + ', '.join('0x%02xu8' % c for c in raw_b) + ']'
                text, cnt = re.subn(r'b"((?:[^"\\]|\\.)*)"', _bs, text)
                if cnt:
                    meta['rewrites'].append({'where': iid, 'pattern': 'byte string literal', 'replacement': 'array literal of the same bytes', 'count': cnt})
            keep = [a_ for a_ in attrs if re.match(r'#\[derive\(', a_) and 'keepderive' in opts]
            meta['items'].append({'id': iid, 'file': rel, 'line': src.count('\n', 0, s) + 1,
                                  'sha256': hashlib.sha256(raw.encode()).hexdigest(),
                                  'dropped_attrs': [a_ for a_ in attrs if a_ not in keep]})
            start = cur_line
            emit(''.join(k + '\n' for k in keep) + text + '\n')
            meta['regions'].append({'id': iid, 'kind': 'item', 'start': start, 'end': cur_line - 1})
        elif cmd == 'fn':
            a = arg.split()
            rel, owner, name = a[0], a[1], a[2]
            opts = {}
            for o in a[3:]:
                k, _, v = o.partition('=')
                opts[k] = v
            rws = []
            sections = {}
            cur = None
            i += 1
            while lines[i].strip() != '//@endfn':
                s2 = lines[i].strip()
                if s2.startswith('//@'):
                    p2 = s2[3:].split()
                    c2 = p2[0]
                    if c2 == 'rw':
                        rws.append(parse_rw(s2[6:]))
                        cur = None
                    elif c2 in ('sig', 'fn_end', 'tail', 'body_start', 'attr'):
                        cur = (c2,)
                        sections.setdefault(cur, '')
                    elif c2 == 'loop':
                        hdr = None
                        mm = re.search(r'hdr=(.*)$', s2)
                        if mm:
                            hdr = mm.group(1).strip()
                        cur = ('loop', int(p2[1]), p2[2], hdr)
                        sections.setdefault(cur, '')
                    elif c2 == 'call':
                        cur = ('call', p2[1], int(p2[2]), p2[3])
                        sections.setdefault(cur, '')
                    elif c2 == 'stmt':
                        # //@stmt <n> before|after <regex>
                        cur = ('stmt', int(p2[1]), p2[2], s2.split(None, 3)[3])
                        sections.setdefault(cur, '')
                    else:
                        raise TemplateError('unknown directive in fn: ' + s2)
                else:
                    if cur is None:
                        if s2:
                            raise TemplateError('text outside section in fn %s: %s' % (name, s2))
                    else:
                        sections[cur] += lines[i] + '\n'
                i += 1
                if i >= len(lines):
                    raise TemplateError('missing //@endfn for ' + name)
            i += 1
            src, kind, (fname, s, b, e) = locate_fn(repo, rel, owner, name, opts.get('trait') or None)
            raw = src[s:e + 1]
            fid = ('%s::%s' % (owner, name)) if owner != '-' else name
            if opts.get('rename'):
                fid_out = ('%s::%s' % (owner, opts['rename'])) if owner != '-' else opts['rename']
            else:
                fid_out = fid
            text = strip_comments(raw)
            snap = load_snapshots().get('%s|%s|%s|%s' % (rel, owner, name, opts.get('trait') or ''))
            changed_fn = snap is not None and re.sub(r'\s+', ' ', snap) != re.sub(r'\s+', ' ', text)
            if changed_fn:
                meta.setdefault('changed_fns', []).append(fid_out)
            if changed_fn:
                rmap = rename_map(snap, text)
                if rmap:
                    # locals / parameters that were renamed in /repo: the annotations follow the rename (logged)
                    sections = dict((tuple(apply_rename(x_, rmap) if isinstance(x_, str) and len(x_) > 12 else x_ for x_ in k_), apply_rename(v_, rmap)) for k_, v_ in sections.items())
                    rws = [(apply_rename(a_, rmap), apply_rename(b_, rmap), c_) for (a_, b_, c_) in rws] if rws and len(rws[0]) == 3 else rws
                    meta['rewrites'].append({'where': fid_out, 'pattern': 'annotations: renamed identifiers', 'replacement': ', '.join('%s->%s' % kv for kv in sorted(rmap.items())), 'count': len(rmap)})
            text = apply_rewrites(text, BUILTIN_RW, meta['rewrites'], fid_out, required=False)
            text = apply_rewrites(text, grws, meta['rewrites'], fid_out, required=False)
            text = apply_rewrites(text, rws, meta['rewrites'], fid_out)
            if opts.get('rename'):
                text = re.sub(r'\bfn\s+' + re.escape(name) + r'\b', 'fn ' + opts['rename'], text, count=1)
            if vacuity and 'canary' not in opts:
                # reachability probe: with every precondition assumed, `false` must NOT be provable at function entry
                key = ('body_start',)
                sections[key] = '        proof { assert(false); } // VACUITY-PROBE\n' + sections.get(key, '')
            ndrop = len(LENIENT['dropped'])
            text0 = text
            text = splice_fn(fid_out, text, sections, opts)
            if fid_out in LENIENT.get('force', ()) and any(k_[0] not in ('sig', 'attr') for k_ in sections):
                # a proof hint of this function no longer compiles against the changed code (it names something that is gone)
                LENIENT['dropped'].append('%s: a proof hint refers to code that no longer exists' % fid_out)
            if (LENIENT['on'] or fid_out in LENIENT.get('force', ())) and len(LENIENT['dropped']) > ndrop:
                # a hint of this function lost its anchor: proof hints may depend on each other (ghost variables), so ALL hints of the
                # function are dropped and it is verified against its contract (signature clauses) alone
                LENIENT['dropped'].append('%s: all proof hints of this function dropped, contract clauses kept' % fid_out)
                meta.setdefault('degraded_fns', []).append(fid_out)
                sections = dict((k_, v_) for k_, v_ in sections.items() if k_[0] in ('sig', 'attr'))
                text = splice_fn(fid_out, text0, sections, opts)
            meta.setdefault('_spliced', {})[fid_out] = (text, rel, src.count('\n', 0, s) + 1, hashlib.sha256(raw.encode()).hexdigest(), name)
            start = cur_line
            emit(text + '\n')
            meta['functions'].append({
                'id': fid_out, 'source_fn': fid, 'file': rel, 'line': src.count('\n', 0, s) + 1,
                'sha256': hashlib.sha256(raw.encode()).hexdigest(),
                'serves': [x for x in opts.get('serves', '').split(',') if x],
                'canary': 'canary' in opts,
                'clauses': count_clauses(sections),
            })
            meta['regions'].append({'id': fid_out, 'kind': 'fn', 'start': start, 'end': cur_line - 1,
                                    'canary': 'canary' in opts})
        elif cmd == 'consts':
            # //@consts <file> <Owner> : every associated const of the impl blocks of Owner, verbatim (so a newly added const is picked up)
            a = arg.split()
            rel, owner = a[0], a[1]
            src, kind = load(repo, rel)
            blocks = find_impl_blocks(src, kind, owner)
            seen = []
            for m in re.finditer(r'\bconst\s+(\w+)\s*:', src):
                if kind[m.start()] != 'c' or not any(b < m.start() < e for b, e in blocks):
                    continue
                # only direct children of the impl block (brace depth 1 relative to the block)
                blk = [be for be in blocks if be[0] < m.start() < be[1]][0]
                depth = 0
                for k_ in range(blk[0], m.start()):
                    if kind[k_] == 'c':
                        depth += 1 if src[k_] == '{' else (-1 if src[k_] == '}' else 0)
                if depth != 1:
                    continue
                seen.append(m.group(1))
            i += 1
            for cname in seen:
                src2, kind2, s2, e2, attrs2 = locate_item(repo, rel, 'const', cname, owner)
                raw = src2[s2:e2]
                text = strip_comments(raw)
                text = apply_rewrites(text, grws, meta['rewrites'], 'const ' + cname, required=False)
                meta['items'].append({'id': 'const %s::%s' % (owner, cname), 'file': rel, 'line': src2.count('\n', 0, s2) + 1,
                                      'sha256': hashlib.sha256(raw.encode()).hexdigest(), 'dropped_attrs': attrs2})
                start = cur_line
                emit(text + '\n')
                meta['regions'].append({'id': 'const %s::%s' % (owner, cname), 'kind': 'item', 'start': start, 'end': cur_line - 1})
        elif cmd == 'lemma':
            # //@lemma <name> serves=C02,...   ...verbatim text...   //@endlemma : a spec-level obligation owned by properties
            a = arg.split()
            lname = a[0]
            opts = {}
            for o in a[1:]:
                k, _, v = o.partition('=')
                opts[k] = v
            start = cur_line
            i += 1
            while lines[i].strip() != '//@endlemma':
                emit(lines[i] + '\n')
                i += 1
            i += 1
            meta['functions'].append({'id': lname, 'source_fn': lname, 'file': '(specification)', 'line': 0, 'sha256': '',
                                      'serves': [x for x in opts.get('serves', '').split(',') if x],
                                      'canary': False, 'clauses': 1, 'lemma': True})
            meta['regions'].append({'id': lname, 'kind': 'fn', 'start': start, 'end': cur_line - 1, 'canary': False})
        elif cmd == 'dupfn':
            # //@dupfn <fn id> rename=<new> serves=.. [known] ;; <regex> ==> <repl> ;; ...
            head, *rws = arg.split(' ;; ')
            a = head.split()
            src_id = a[0]
            opts = {}
            for o in a[1:]:
                k, _, v = o.partition('=')
                opts[k] = v
            if src_id not in meta.get('_spliced', {}):
                raise TemplateError('dupfn: %s not assembled before' % src_id)
            text, rel, line, sha, name = meta['_spliced'][src_id]
            text = apply_rewrites(text, [parse_rw(r) for r in rws], meta['rewrites'], src_id + ' (dup)')
            text = re.sub(r'\bfn\s+' + re.escape(name) + r'\b', 'fn ' + opts['rename'], text, count=1)
            owner = src_id.rsplit('::', 1)[0] if '::' in src_id else None
            fid_out = (owner + '::' + opts['rename']) if owner else opts['rename']
            start = cur_line
            emit(text + '\n')
            meta['functions'].append({'id': fid_out, 'source_fn': src_id, 'file': rel, 'line': line, 'sha256': sha,
                                      'serves': [x for x in opts.get('serves', '').split(',') if x],
                                      'canary': 'canary' in opts, 'known': 'known' in opts, 'clauses': 0})
            meta['regions'].append({'id': fid_out, 'kind': 'fn', 'start': start, 'end': cur_line - 1,
                                    'canary': 'canary' in opts, 'known': 'known' in opts})
            i += 1
        else:
            raise TemplateError('unknown directive: ' + st)
    text = ''.join(out)
    meta.pop('_spliced', None)
    if meta.get('nopub'):
        # single-crate unit: everything private (same line structure, so regions stay valid)
        text = re.sub(r'\bpub(\([^)]*\))?\s+(?!assume_specification)(open\s+|closed\s+)?', '', text)
        text = re.sub(r'\b(open|closed)\s+spec\s+fn', 'spec fn', text)
    return text, meta


def _split_args(a):
    out, d, cur = [], 0, ''
    for ch in a:
        if ch in '([{':
            d += 1
        elif ch in ')]}':
            d -= 1
        if ch == ',' and d == 0:
            out.append(cur.strip())
            cur = ''
        else:
            cur += ch
    if cur.strip():
        out.append(cur.strip())
    return out


def inline_helper(text, name, has_self, pnames, expr, rtype):
    """replace calls `recv.name(args)` / `Self::name(args)` / `Owner::name(args)` / `name(args)` by the helper's expression"""
    n = 0
    pos = 0
    while True:
        m = re.compile(r'(?:(?P<recv>\b[A-Za-z_][\w.]*)\.|(?P<path>\b(?:[A-Za-z_]\w*::)+)|(?<![\w.:]))%s\s*\(' % re.escape(name)).search(text, pos)
        if not m:
            break
        if re.search(r'\bfn\s+$', text[:m.start()]):
            pos = m.end()
            continue
        # balanced argument list
        i = m.end()
        d = 1
        while i < len(text) and d:
            d += 1 if text[i] in '([{' else (-1 if text[i] in ')]}' else 0)
            i += 1
        args = _split_args(text[m.end():i - 1])
        recv = m.group('recv')
        if has_self and not recv and args:
            recv = re.sub(r'^&\s*(mut\s+)?', '', args[0])
            args = args[1:]
        if len(args) != len(pnames) or (has_self and not recv):
            pos = m.end()
            continue
        e = expr
        for pn, av in zip(pnames, args):
            e = re.sub(r'\b%s\b' % re.escape(pn), lambda _m: '(' + av + ')', e)
        if has_self:
            e = re.sub(r'\bself\b', lambda _m: recv, e)
        rep = '((%s) as %s)' % (e, rtype) if re.match(r'^[ui](8|16|32|64|128|size)$', rtype) else '(%s)' % e
        text = text[:m.start()] + rep + text[i:]
        pos = m.start() + len(rep)
        n += 1
    return text, n


def add_auto_helpers(text, meta, repo, auto):
    """auto: list of (owner_or_None, name) reported missing by rustc. Helper functions that a changed /repo introduced are
    extracted verbatim (builtin rewrites, visibility stripped, no contract) and appended, so that the unit still compiles."""
    files = []
    for f in meta['functions']:
        if f['file'] not in files and f['file'].endswith('.rs'):
            files.append(f['file'])
    added = []
    chunks = []
    for owner, name in auto:
        if owner == 'const':
            # a module-level constant that the changed code introduced: extracted verbatim (logged)
            for rel in files:
                src, kind = load(repo, rel)
                mc = re.search(r'^(?:pub(?:\([^)]*\))?\s+)?const\s+%s\s*:\s*[^=;]+=\s*[^;]+;' % re.escape(name), src, re.M)
                if mc and kind[mc.start()] == 'c':
                    ctext = re.sub(r'^pub(\([^)]*\))?\s+', '', mc.group(0))
                    chunks.append(ctext + '\n')
                    added.append('const %s (%s)' % (name, rel))
                    meta['rewrites'].append({'where': 'const ' + name, 'pattern': 'new constant in /repo', 'replacement': ctext, 'count': 1})
                    break
            continue
        for rel in files:
            try:
                src, kind, (fname, s0, b0, e0) = locate_fn(repo, rel, owner or '-', name, '*' if owner else None)
            except LostAnchor:
                continue
            t = strip_comments(src[s0:e0 + 1])
            log = []
            t = apply_rewrites(t, BUILTIN_RW, log, name, required=False)
            t = re.sub(r'\bpub(\([^)]*\))?\s+', '', t)
            t = re.sub(r'\b(PagedReader|PagedWriter)<T>', r'\1', t)
            t = re.sub(r"\b(QueueReader|PointCloudWriter|PointCloudReaderRaw|PointCloudReaderSimple)<'a, T>", r"\1<'a>", t)
            # a helper whose body is one side-effect-free arithmetic expression gets the contract `result == that expression`
            # (mechanically derived; overflow inside it is still checked by Verus in the helper itself)
            mm = re.match(r'^(fn\s+\w+\s*\(([^)]*)\))\s*->\s*([\w:<>]+)\s*\{\s*([^;{}]+?)\s*\}\s*$', t, re.S)
            inferred = False
            if mm and re.match(r'^[\w\s+\-*/%()<>=!&|:.,]+$', mm.group(4)) and not re.search(r'[A-Za-z_]\w*\s*\(', re.sub(r'\bas\s+\w+', '', mm.group(4))) \
                    and '&mut' not in mm.group(1):
                # a NEW helper whose body is one side-effect-free expression has no contract of its own: it is inlined at its call sites
                # (beta reduction, logged as an extraction rewrite), so that the callers' contracts decide about it
                params = [q.strip() for q in mm.group(2).split(',') if q.strip()]
                has_self = bool(params) and re.match(r'^&?\s*self$', params[0])
                pnames = [q.split(':')[0].strip() for q in params[1 if has_self else 0:]]
                text, ninl = inline_helper(text, name, has_self, pnames, mm.group(4), mm.group(3))
                if ninl:
                    meta['rewrites'].append({'where': name, 'pattern': 'call of new one-expression helper %s' % name,
                                             'replacement': '(%s) inlined at %d call site(s)' % (mm.group(4), ninl), 'count': ninl})
                    meta.setdefault('auto_inlined', []).append(name)
                    added.append('%s%s (%s, inlined)' % ((owner + '::') if owner else '', name, rel))
                    break
            meta.setdefault('auto_uncontracted', [])
            if not inferred:
                meta['auto_uncontracted'].append(name)
            hdr = None
            if owner:
                mh = re.search(r"^impl(<[^>]*>)?\s+%s(<[^>]*>)?\s*\{" % re.escape(owner), text, re.M)
                hdr = mh.group(0) if mh else 'impl %s {' % owner
            chunks.append(('%s\n%s\n}\n' % (hdr, t)) if owner else t + '\n')
            added.append('%s%s (%s)' % ((owner + '::') if owner else '', name, rel))
            break
    meta['auto_included'] = added
    if not chunks:
        return text
    idx = text.rindex('} // verus!')
    return text[:idx] + '// ---- helper functions newly found in /repo, extracted without contract ----\n' + ''.join(chunks) + text[idx:]


def count_clauses(sections):
    """rough count of contract clauses (top-level comma separated) in sig and loop heads"""
    n = 0
    for key, body in sections.items():
        if key[0] == 'sig' or (key[0] == 'loop' and key[2] == 'head'):
            t = strip_comments(body)
            d = 0
            cnt = 0
            for tok in re.finditer(r'[(\[{]|[)\]}]|,|\b(requires|ensures|invariant|decreases)\b', t):
                g = tok.group(0)
                if g in '([{':
                    d += 1
                elif g in ')]}':
                    d -= 1
                elif g == ',' and d == 0:
                    cnt += 1
            # clauses ~ separators + number of keywords when last clause has no trailing comma
            kws = len(re.findall(r'\b(requires|ensures|invariant|decreases)\b', t))
            n += max(cnt, kws)
    return n


if __name__ == '__main__':
    t, m = assemble(sys.argv[1], sys.argv[2] if len(sys.argv) > 2 else '/repo')
    sys.stdout.write(t)
