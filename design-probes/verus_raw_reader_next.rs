use vstd::prelude::*;
verus! {
pub enum Error { Invalid, Read, Write, Internal, NotImplemented }
pub type Result<T> = std::result::Result<T, Error>;
pub enum RecordValue { Single(f32), Double(f64), ScaledInteger(i64), Integer(i64) }
pub type RawValues = Vec<RecordValue>;

// QueueReader seen through its contract: `avail` complete points queued, `pos` = cursor in a logical stream of length `len`
pub struct QueueReader { pub avail: Ghost<nat>, pub pos: Ghost<int>, pub len: Ghost<int>, pub next_idx: Ghost<nat> }
impl QueueReader {
    pub open spec fn wf(&self) -> bool { 0 <= self.pos@ <= self.len@ }
    #[verifier::external_body]
    pub fn available(&self) -> (r: usize) ensures r as nat == self.avail@ { unimplemented!() }
    /// on Ok the cursor strictly advances (every packet has a non-empty header); points may or may not become available
    #[verifier::external_body]
    pub fn advance(&mut self) -> (r: Result<()>)
        requires old(self).wf()
        ensures final(self).wf(), final(self).len@ == old(self).len@, final(self).next_idx@ == old(self).next_idx@,
            r is Ok ==> final(self).pos@ > old(self).pos@ && final(self).avail@ >= old(self).avail@,
    { unimplemented!() }
    #[verifier::external_body]
    pub fn pop_point(&mut self, output: &mut RawValues) -> (r: Result<()>)
        requires old(self).wf()
        ensures final(self).wf(), final(self).len@ == old(self).len@, final(self).pos@ == old(self).pos@,
            old(self).avail@ >= 1 ==> r is Ok && final(self).avail@ == old(self).avail@ - 1 && final(self).next_idx@ == old(self).next_idx@ + 1,
    { unimplemented!() }
}

pub struct PointCloudReaderRaw {
    queue_reader: QueueReader,
    prototype_len: usize,
    records: u64,
    read: u64,
}
impl PointCloudReaderRaw {
    spec fn wf(&self) -> bool { self.queue_reader.wf() && self.read <= self.records && self.read as nat == self.queue_reader.next_idx@ }

    /// Returns the next available point or None if the end was reached.
    fn next(&mut self) -> (r: Option<Result<RawValues>>)
        requires old(self).wf()
        ensures final(self).wf(), final(self).records == old(self).records,
            (r is None) == (old(self).read >= old(self).records),
            (r matches Some(Ok(_))) ==> final(self).read == old(self).read + 1,
            (r matches Some(Err(_))) ==> final(self).read == old(self).read,
    {
        // Already read all points?
        if self.read >= self.records {
            return None;
        }

        // Refill property queues if required
        // (in some corner cases more than one advance is required)
        while self.queue_reader.available() < 1
            invariant self.wf(), self.records == old(self).records, self.read == old(self).read, self.read < self.records,
            decreases self.queue_reader.len@ - self.queue_reader.pos@
        {
            if let Err(err) = self.queue_reader.advance() {
                return Some(Err(err));
            }
        }

        // Extract next point
        let mut point = RawValues::with_capacity(self.prototype_len);
        match self.queue_reader.pop_point(&mut point) {
            Ok(()) => {
                self.read += 1;
                Some(Ok(point))
            }
            Err(err) => Some(Err(err)),
        }
    }
}
}
fn main() {}
