use vstd::prelude::*;
verus! {
spec fn bit64(x: u64, k: int) -> bool { (x >> (k as u64)) & 1u64 == 1u64 }

// extensionality by halving: compare low bit and recurse on x >> 1
proof fn lemma_ext(a: u64, b: u64, n: nat)
    requires n <= 64, forall|k: int| 0 <= k < n ==> bit64(a, k) == bit64(b, k),
             n < 64 ==> (a >> (n as u64)) == 0 && (b >> (n as u64)) == 0,
    ensures a == b
    decreases n
{
    if n == 0 {
        assert(a >> 0u64 == a) by (bit_vector);
        assert(b >> 0u64 == b) by (bit_vector);
    } else {
        let m = (n - 1) as nat;
        let mm = m as u64;
        assert(bit64(a, m as int) == bit64(b, m as int));
        // clear bit m of both
        let a2 = a & !(1u64 << mm);
        let b2 = b & !(1u64 << mm);
        assert forall|k: int| 0 <= k < m implies bit64(a2, k) == bit64(b2, k) by {
            let kk = k as u64;
            assert(kk < mm && mm < 64 ==> (((a & !(1u64 << mm)) >> kk) & 1u64) == ((a >> kk) & 1u64)) by (bit_vector);
            assert(kk < mm && mm < 64 ==> (((b & !(1u64 << mm)) >> kk) & 1u64) == ((b >> kk) & 1u64)) by (bit_vector);
            assert(kk < mm && mm < 64);
            assert(bit64(a, k) == bit64(b, k));
            assert(bit64(a2, k) == bit64(a, k));
            assert(bit64(b2, k) == bit64(b, k));
        }
        assert(mm < 64 && (mm < 63 ==> (a >> ((mm + 1) as u64)) == 0) ==> ((a & !(1u64 << mm)) >> mm) == 0) by (bit_vector);
        assert(mm < 64 && (mm < 63 ==> (b >> ((mm + 1) as u64)) == 0) ==> ((b & !(1u64 << mm)) >> mm) == 0) by (bit_vector);
        assert(((a >> mm) & 1u64) == 0u64 || ((a >> mm) & 1u64) == 1u64) by (bit_vector);
        assert(((b >> mm) & 1u64) == 0u64 || ((b >> mm) & 1u64) == 1u64) by (bit_vector);
        assert(((a >> mm) & 1u64) == ((b >> mm) & 1u64));
        if n < 64 { assert((a >> ((mm + 1) as u64)) == 0); assert((b >> ((mm + 1) as u64)) == 0); }
        lemma_ext(a2, b2, m);
        assert(mm < 64 && (a & !(1u64 << mm)) == (b & !(1u64 << mm)) && (((a >> mm) & 1u64) == ((b >> mm) & 1u64)) ==> a == b) by (bit_vector);
    }
}

// masking keeps the low w bits and clears the rest
proof fn lemma_mask(x: u64, w: u64, k: u64)
    requires 1 <= w <= 64, k < 64
    ensures ({ let mask = (((1u128 << (w as u128)) - 1) as u64); bit64(x & mask, k as int) == (k < w && bit64(x, k as int)) })
{
    assert(1 <= w <= 64 && k < 64 ==> ((((x & ((((1u128 << (w as u128)) - 1u128) as u64))) >> k) & 1u64 == 1u64) == (k < w && ((x >> k) & 1u64 == 1u64)))) by (bit_vector);
}
}
fn main(){}
