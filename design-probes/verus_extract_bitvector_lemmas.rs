use vstd::prelude::*;
verus! {
spec fn bit8(x: u8, k: int) -> bool { (x >> (k as u8)) & 1u8 == 1u8 }
spec fn bit_at(s: Seq<u8>, i: int) -> bool { bit8(s[i / 8], i % 8) }
spec fn bit64(x: u64, k: int) -> bool { (x >> (k as u64)) & 1u64 == 1u64 }
spec fn bit128(x: u128, k: int) -> bool { (x >> (k as u128)) & 1u128 == 1u128 }

// value of a 16 byte little endian array as u128, defined bytewise
spec fn le128(b: Seq<u8>) -> u128 {
    (b[0] as u128) | (b[1] as u128) << 8 | (b[2] as u128) << 16 | (b[3] as u128) << 24
    | (b[4] as u128) << 32 | (b[5] as u128) << 40 | (b[6] as u128) << 48 | (b[7] as u128) << 56
    | (b[8] as u128) << 64 | (b[9] as u128) << 72 | (b[10] as u128) << 80 | (b[11] as u128) << 88
    | (b[12] as u128) << 96 | (b[13] as u128) << 104 | (b[14] as u128) << 112 | (b[15] as u128) << 120
}

// bit j of le128 is bit j%8 of byte j/8 -- proved bytewise by bit_vector
proof fn lemma_le128_bit(b0: u8, b1: u8, b2: u8, b3: u8, b4: u8, b5: u8, b6: u8, b7: u8,
                         b8: u8, b9: u8, b10: u8, b11: u8, b12: u8, b13: u8, b14: u8, b15: u8, j: u128)
    requires j < 128
    ensures ({
        let v = (b0 as u128) | (b1 as u128) << 8 | (b2 as u128) << 16 | (b3 as u128) << 24
            | (b4 as u128) << 32 | (b5 as u128) << 40 | (b6 as u128) << 48 | (b7 as u128) << 56
            | (b8 as u128) << 64 | (b9 as u128) << 72 | (b10 as u128) << 80 | (b11 as u128) << 88
            | (b12 as u128) << 96 | (b13 as u128) << 104 | (b14 as u128) << 112 | (b15 as u128) << 120;
        let byte: u8 = if j < 8 { b0 } else if j < 16 { b1 } else if j < 24 { b2 } else if j < 32 { b3 }
            else if j < 40 { b4 } else if j < 48 { b5 } else if j < 56 { b6 } else if j < 64 { b7 }
            else if j < 72 { b8 } else if j < 80 { b9 } else if j < 88 { b10 } else if j < 96 { b11 }
            else if j < 104 { b12 } else if j < 112 { b13 } else if j < 120 { b14 } else { b15 };
        ((v >> j) & 1u128 == 1u128) == (((byte as u128) >> (j % 8)) & 1u128 == 1u128)
    })
{
    assert(j < 128 ==> ({
        let v = (b0 as u128) | (b1 as u128) << 8 | (b2 as u128) << 16 | (b3 as u128) << 24
            | (b4 as u128) << 32 | (b5 as u128) << 40 | (b6 as u128) << 48 | (b7 as u128) << 56
            | (b8 as u128) << 64 | (b9 as u128) << 72 | (b10 as u128) << 80 | (b11 as u128) << 88
            | (b12 as u128) << 96 | (b13 as u128) << 104 | (b14 as u128) << 112 | (b15 as u128) << 120;
        let byte: u8 = if j < 8 { b0 } else if j < 16 { b1 } else if j < 24 { b2 } else if j < 32 { b3 }
            else if j < 40 { b4 } else if j < 48 { b5 } else if j < 56 { b6 } else if j < 64 { b7 }
            else if j < 72 { b8 } else if j < 80 { b9 } else if j < 88 { b10 } else if j < 96 { b11 }
            else if j < 104 { b12 } else if j < 112 { b13 } else if j < 120 { b14 } else { b15 };
        ((v >> j) & 1u128 == 1u128) == (((byte as u128) >> (j % 8)) & 1u128 == 1u128)
    })) by (bit_vector);
}

// shifting right by `off` and truncating to u64: bit k of result = bit k+off of input
proof fn lemma_shift_trunc(v: u128, off: u128, k: u128)
    requires off < 8, k < 64
    ensures ((((v >> off) as u64) >> (k as u64)) & 1u64 == 1u64) == ((v >> ((k + off) as u128)) & 1u128 == 1u128)
{
    assert(off < 8 && k < 64 ==> (((((v >> off) as u64) >> (k as u64)) & 1u64 == 1u64) == ((v >> ((k + off) as u128)) & 1u128 == 1u128))) by (bit_vector);
}
}
fn main(){}
