import re,sys
sys.path.insert(0,'.')
from lex import strip_map, match_brace, find_fns, find_loops

def extract_fn(path, impl_type, name):
    src=open(path).read(); kind=strip_map(src)
    # restrict to impl block of impl_type (first one outside mod tests)
    tests=src.find('mod tests')
    for m in re.finditer(r'\bimpl\b[^{;]*\b'+impl_type+r'\b[^{;]*\{',src):
        if kind[m.start()]!='c' or (tests>=0 and m.start()>tests): continue
        b=m.end()-1; e=match_brace(src,kind,b)
        for fname,s,bb,ee in find_fns(src,kind):
            if fname==name and b<s<e:
                return src,kind,s,bb,ee
    raise Exception('lost anchor: fn '+name)

def splice(path, impl_type, name, contract):
    src,kind,s,b,e=extract_fn(path,impl_type,name)
    sig=src[s:b].rstrip()
    sig=re.sub(r'^pub(\([^)]*\))?\s+','',sig)
    body=src[b:e+1]
    loops=find_loops(src,kind,b,e)
    # collect insertions as (absolute position, text), apply from the back
    ins=[]
    for k,(kw,p,lb,le) in enumerate(loops):
        c=contract.get('loops',{}).get(k,{})
        if 'before' in c: ins.append((p, c['before']+'\n            '))
        if 'head' in c: ins.append((lb, '\n'+c['head']+'\n'))
        if 'body_start' in c: ins.append((lb+1, '\n'+c['body_start']))
        if 'body_end' in c: ins.append((le, c['body_end']+'\n'))
    if 'fn_end' in contract: ins.append((e, contract['fn_end']+'\n'))
    out=src
    for pos,text in sorted(ins,key=lambda x:-x[0]):
        out=out[:pos]+text+out[pos:]
    shift=sum(len(t) for p,t in ins)
    newbody=out[b:e+1+shift]
    return sig+'\n'+contract['sig']+'\n'+newbody

contract_add_bits={
 'sig':'''        requires
            old(self).wf(),
            bits <= 8 * data@.len(),
            bits <= 64,
            old(self).buffer@.len() + 16 < usize::MAX,
            forall|i: int| bits <= i < 8 * ((bits + 7) / 8) ==> !bit_at(data@, i),
        ensures
            final(self).wf(),
            final(self).bits() =~= old(self).bits() + Seq::new(bits as nat, |i: int| bit_at(data@, i)),''',
 'loops':{0:{
   'before':'let ghost p0: int = 8 * start_byte + start_bit;',
   'head':'''                invariant
                    1 <= start_bit < 8,
                    bits <= 64, bits <= 8 * data@.len(),
                    p0 == 8 * start_byte + start_bit,
                    start_byte + 16 < usize::MAX,
                    start_byte == old(self).buffer@.len() - 1, start_bit == old(self).last_byte_bit,
                    self.last_byte_bit == (start_bit + b) % 8,
                    self.buffer@.len() == (p0 + b + 7) / 8,
                    forall|i: int| p0 + b <= i < 8 * self.buffer@.len() ==> !bit_at(self.buffer@, i),
                    forall|i: int| 0 <= i < p0 ==> bit_at(self.buffer@, i) == bit_at(old(self).buffer@, i),
                    forall|i: int| 0 <= i < b ==> bit_at(self.buffer@, p0 + i) == bit_at(data@, i),''',
   'body_start':'                let ghost pre = self.buffer@;',
   'body_end':'''                proof {
                    lemma_mask_bit(data@[source_byte as int], (b % 8) as usize);
                    lemma_bit_step(pre, self.buffer@, p0 + b, source_bit);
                }'''}},
 'fn_end':'''        proof {
            if old(self).last_byte_bit == 0 { Self::lemma_aligned(*old(self), *self, data@, bits); }
            else { Self::lemma_unaligned(*old(self), *self, data@, bits); }
        }''',
}
if __name__=='__main__':
    repo=sys.argv[1] if len(sys.argv)>1 else '/repo'
    print(splice(repo+'/src/bs_write.rs','ByteStreamWriteBuffer','add_bits',contract_add_bits))
