import re,sys,subprocess
sys.path.insert(0,'.')
from splice import splice, contract_add_bits, extract_fn
repo=sys.argv[1] if len(sys.argv)>1 else '/repo'
probe=open('/verif/design-probes/verus_bs_write_add_bits.rs').read()
# prelude = everything of the probe up to the struct definition (specs, lemmas, shims)
pre=probe[:probe.index('struct ByteStreamWriteBuffer {')]
# spec fns + lemmas that live in the impl block of the probe
impl_specs=probe[probe.index('    spec fn nbits(&self)'):probe.index('    fn new() -> (r: Self)')]
lem=probe[probe.index('    proof fn lemma_aligned('):probe.index('    fn add_bits(&mut self')]
# struct extracted from /repo
src=open(repo+'/src/bs_write.rs').read()
m=re.search(r'pub struct ByteStreamWriteBuffer \{.*?\n\}',src,re.S)
struct=re.sub(r'\bpub ','',m.group(0))
simple={
 'new':'        ensures r.wf(), r.bits() =~= Seq::<bool>::empty()',
 'full_bytes':'        requires self.wf()\n        ensures r as int == self.nbits() / 8',
 'all_bytes':'        ensures r == self.buffer@.len()',
}
fns=[]
for name,c in simple.items():
    sig_body=splice(repo+'/src/bs_write.rs','ByteStreamWriteBuffer',name,{'sig':c})
    # name the return value r
    sig_body=re.sub(r'\) -> (\w+)\n',r') -> (r: \1)\n',sig_body,count=1)
    fns.append(sig_body)
fns.append(splice(repo+'/src/bs_write.rs','ByteStreamWriteBuffer','add_bits',contract_add_bits))
unit=pre+struct+'\nimpl ByteStreamWriteBuffer {\n'+impl_specs+lem+'\n'+'\n\n'.join(fns)+'\n}\n}\nfn main() {}\n'
open('unit_bits.rs','w').write(unit)
r=subprocess.run(['verus','unit_bits.rs','--triggers-mode','silent'],capture_output=True,text=True)
out=(r.stdout+r.stderr)
print('\n'.join(l for l in out.splitlines() if l.startswith('error') or 'verification results' in l))
