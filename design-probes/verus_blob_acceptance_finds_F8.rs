use vstd::prelude::*;
verus! {
pub enum Error { Invalid, Read, Write, Internal, NotImplemented }
pub type Result<T> = std::result::Result<T, Error>;
pub struct IoError { pub kind: u8 }
impl Error { pub fn invalid<T>(desc: &str) -> (r: Result<T>) ensures r is Err { Err(Error::Invalid) } }
pub const WRONG_OFFSET: &'static str = "Wrong buffer offset detected";
pub trait Converter<T> { fn read_err(self, c: &str) -> Result<T>; fn write_err(self, c: &str) -> Result<T>; fn internal_err(self, c: &str) -> Result<T>; }
impl<T, E> Converter<T> for std::result::Result<T, E> {
    fn read_err(self, c: &str) -> Result<T> { match self { Ok(v) => Ok(v), Err(_) => Err(Error::Read) } }
    fn write_err(self, c: &str) -> Result<T> { match self { Ok(v) => Ok(v), Err(_) => Err(Error::Write) } }
    fn internal_err(self, c: &str) -> Result<T> { match self { Ok(v) => Ok(v), Err(_) => Err(Error::Internal) } }
}
// contract-only views of the page layer and of the caller's source/sink
pub struct PagedReader { pub s: Ghost<Seq<u8>>, pub pos: Ghost<int> }
impl PagedReader {
    #[verifier::external_body] pub fn seek_physical(&mut self, offset: u64) -> std::result::Result<u64, IoError> { unimplemented!() }
    #[verifier::external_body] pub fn read_exact(&mut self, buf: &mut [u8]) -> std::result::Result<(), IoError> { unimplemented!() }
}
pub struct PagedWriter { pub s: Ghost<Seq<u8>>, pub pos: Ghost<int> }
impl PagedWriter {
    #[verifier::external_body] pub fn physical_position(&mut self) -> Result<u64> { unimplemented!() }
    #[verifier::external_body] pub fn physical_seek(&mut self, pos: u64) -> Result<()> { unimplemented!() }
    #[verifier::external_body] pub fn write_all(&mut self, buf: &[u8]) -> std::result::Result<(), IoError> { unimplemented!() }
    #[verifier::external_body] pub fn align(&mut self) -> Result<()> { unimplemented!() }
}
pub struct Source { pub rest: Ghost<Seq<u8>> }
pub struct Sink { pub got: Ghost<Seq<u8>> }
#[verifier::external_body]
fn shim_copy_into_writer(reader: &mut Source, writer: &mut PagedWriter) -> std::result::Result<u64, IoError> { unimplemented!() }
#[verifier::external_body]
fn shim_copy_take(reader: &mut PagedReader, limit: u64, writer: &mut Sink) -> std::result::Result<u64, IoError> { unimplemented!() }
#[verifier::external_body]
fn shim_le_u64(b: &[u8], lo: usize, hi: usize) -> (r: Result<u64>) requires lo + 8 == hi, hi <= b@.len() ensures r is Ok { unimplemented!() }
#[verifier::external_body]
fn shim_u64_to_le_bytes(x: u64) -> [u8; 8] { x.to_le_bytes() }

pub struct Blob { pub offset: u64, pub length: u64 }
struct BlobSectionHeader { section_length: u64 }

impl Blob {
    pub fn read(&self, reader: &mut PagedReader, writer: &mut Sink) -> Result<u64> {
        reader
            .seek_physical(self.offset)
            .read_err("Failed to seek to start offset of blob")?;
        let header = BlobSectionHeader::from_reader(reader)?;
        if self.length > header.section_length + 16 {
            Error::invalid("Blob XML length and blob section header mismatch")?
        }

        shim_copy_take(reader, self.length, writer).read_err("Failed to read binary blob data")
    }

    pub fn write(writer: &mut PagedWriter, reader: &mut Source) -> Result<Self> {
        // Write temporary section header with invalid zero length
        let start_offset = writer.physical_position()?;
        let mut section_header = BlobSectionHeader { section_length: 0 };
        section_header.to_writer(writer)?;

        // Write blob data
        let length = shim_copy_into_writer(reader, writer).write_err("Failed to write blob data")?;

        // Update blob section header with actual lenght
        let end_offset = writer.physical_position()?;
        section_header.section_length = length;
        writer.physical_seek(start_offset)?;
        section_header.to_writer(writer)?;
        writer.physical_seek(end_offset)?;

        writer
            .align()
            .write_err("Failed to align writer on next 4-byte offset after writing blob section")?;

        Ok(Self {
            offset: start_offset,
            length,
        })
    }
}
impl BlobSectionHeader {
    fn from_array(buffer: &[u8; 16]) -> Result<Self> {
        let section_id = buffer[0];
        if section_id != 0 {
            Error::invalid("Section ID of the blob section header is not 0")?
        }
        Ok(Self {
            section_length: shim_le_u64(buffer, 8, 16)?,
        })
    }

    fn from_reader(reader: &mut PagedReader) -> Result<BlobSectionHeader> {
        let mut buffer = [0_u8; 16];
        reader
            .read_exact(&mut buffer)
            .read_err("Failed to read compressed vector section header")?;
        BlobSectionHeader::from_array(&buffer)
    }

    fn to_writer(&self, writer: &mut PagedWriter) -> Result<()> {
        let mut bytes: [u8; 16] = [0; 16];
        let length_bytes = shim_u64_to_le_bytes(self.section_length);
        bytes[8..16].copy_from_slice(&length_bytes);
        writer
            .write_all(&bytes)
            .write_err("Failed to write blob section header")
    }
}
}
fn main() {}
