use vstd::prelude::*;
verus! {
pub assume_specification<T: Clone> [<[T]>::fill] (s: &mut [T], v: T)
    ensures final(s)@.len() == old(s)@.len(), forall|i: int| 0 <= i < final(s)@.len() ==> final(s)@[i] == v;

pub enum SeekFrom { Start(u64), End(i64), Current(i64) }
pub struct IoError { pub kind: u8 }
pub enum Error { Invalid, Read, Write, Internal, NotImplemented }
pub type EResult<T> = std::result::Result<T, Error>;
impl Error { pub fn invalid<T>(desc: &str) -> (r: EResult<T>) ensures r is Err { Err(Error::Invalid) } }
pub trait Converter<T>: Sized {
    spec fn ok_spec(&self) -> bool;
    spec fn val_spec(&self) -> T;
    fn read_err(self, context: &str) -> (r: EResult<T>) ensures (r is Ok) == self.ok_spec(), r is Ok ==> r->Ok_0 == self.val_spec();
    fn write_err(self, context: &str) -> (r: EResult<T>) ensures (r is Ok) == self.ok_spec(), r is Ok ==> r->Ok_0 == self.val_spec();
}
impl<T, E> Converter<T> for std::result::Result<T, E> {
    open spec fn ok_spec(&self) -> bool { self is Ok }
    open spec fn val_spec(&self) -> T { self->Ok_0 }
    fn read_err(self, context: &str) -> (r: EResult<T>) { match self { Ok(v) => Ok(v), Err(_) => Err(Error::Read) } }
    fn write_err(self, context: &str) -> (r: EResult<T>) { match self { Ok(v) => Ok(v), Err(_) => Err(Error::Write) } }
}

// ---------------- device model (environment assumption) ----------------
pub struct Dev { pub data: Vec<u8>, pub pos: u64 }

impl Dev {
    #[verifier::external_body]
    pub fn seek(&mut self, s: SeekFrom) -> (r: Result<u64, IoError>)
        requires s is Start || (s is End && s->End_0 == 0),
        ensures match r {
            Ok(p) => final(self).data@ == old(self).data@ && final(self).pos == p
                && (s is Start ==> p == s->Start_0) && (s is End ==> p == old(self).data@.len()),
            Err(_) => true },
    { unimplemented!() }

    #[verifier::external_body]
    pub fn stream_position(&mut self) -> (r: Result<u64, IoError>)
        ensures match r { Ok(p) => final(self).data@ == old(self).data@ && final(self).pos == old(self).pos && p == old(self).pos, Err(_) => true },
    { unimplemented!() }

    #[verifier::external_body]
    pub fn write_all(&mut self, buf: &[u8]) -> (r: Result<(), IoError>)
        requires old(self).pos <= old(self).data@.len(),
        ensures match r {
            Ok(_) => final(self).pos == old(self).pos + buf@.len()
                && final(self).data@ =~= old(self).data@.subrange(0, old(self).pos as int) + buf@
                    + (if old(self).pos + buf@.len() <= old(self).data@.len() { old(self).data@.subrange(old(self).pos + buf@.len(), old(self).data@.len() as int) } else { Seq::<u8>::empty() }),
            Err(_) => true },
    { unimplemented!() }

    #[verifier::external_body]
    pub fn read(&mut self, buf: &mut [u8]) -> (r: Result<usize, IoError>)
        ensures final(self).data@ == old(self).data@, final(buf)@.len() == old(buf)@.len(),
            match r {
                Ok(n) => n <= old(buf)@.len() && old(self).pos + n <= (if old(self).pos <= old(self).data@.len() { old(self).data@.len() as int } else { old(self).pos as int })
                    && final(self).pos == old(self).pos + n
                    && (n == 0 <==> (old(buf)@.len() == 0 || old(self).pos >= old(self).data@.len()))
                    && final(buf)@ =~= old(self).data@.subrange(old(self).pos as int, old(self).pos + n) + old(buf)@.subrange(n as int, old(buf)@.len() as int),
                Err(_) => true },
    { unimplemented!() }

    #[verifier::external_body]
    pub fn flush(&mut self) -> (r: Result<(), IoError>)
        ensures match r { Ok(_) => final(self).data@ == old(self).data@ && final(self).pos == old(self).pos, Err(_) => true },
    { unimplemented!() }
}

pub uninterp spec fn crc32c(s: Seq<u8>) -> u32;
pub uninterp spec fn be4(x: u32) -> Seq<u8>;
pub axiom fn be4_len(x: u32) ensures be4(x).len() == 4;

pub struct Crc32 { table: [u32; 256] }
impl Crc32 {
    #[verifier::external_body]
    pub fn calculate(&mut self, data: &[u8]) -> (r: u32)
        ensures r == crc32c(data@)
    { 0 }
}
#[verifier::external_body]
fn shim_u32_to_be_bytes(x: u32) -> (r: [u8; 4])
    ensures r@ == be4(x)
{ x.to_be_bytes() }

pub const PAGE_SIZE: u64 = 1024;
pub const CRC_SIZE: u64 = 4;
pub const PAGE_PAYLOAD_SIZE: usize = (PAGE_SIZE - CRC_SIZE) as usize;

// ---------------- page-format specification ----------------
pub open spec fn page(d: Seq<u8>, k: int) -> Seq<u8> { d.subrange(1024 * k, 1024 * k + 1024) }
pub open spec fn sealed_page(pg: Seq<u8>) -> bool { pg.len() == 1024 && pg.subrange(1020, 1024) == be4(crc32c(pg.subrange(0, 1020))) }
pub open spec fn all_sealed(d: Seq<u8>) -> bool { forall|k: int| 0 <= k < d.len() / 1024 ==> sealed_page(#[trigger] page(d, k)) }

#[derive(Clone, Copy)]
pub struct PagedWriterGhostDummy {}
pub struct PagedWriter {
    pub writer: Dev,
    pub offset: usize,
    pub page_buffer: [u8; 1024],
    pub crc: Crc32,
}

impl PagedWriter {
    pub open spec fn dl(&self) -> int { self.writer.data@.len() as int }
    pub open spec fn p(&self) -> int { self.writer.pos as int / 1024 }
    pub open spec fn page_exists(&self) -> bool { self.writer.pos < self.writer.data@.len() }

    pub open spec fn wf(&self) -> bool {
        &&& self.dl() % 1024 == 0
        &&& self.writer.pos % 1024 == 0
        &&& self.writer.pos <= self.dl()
        &&& self.offset < 1020
        &&& all_sealed(self.writer.data@)
        // bytes at/after the cursor are untouched since the page was loaded
        &&& (self.page_exists() ==> forall|i: int| self.offset <= i < 1020 ==> self.page_buffer@[i] == self.writer.data@[self.writer.pos + i])
        &&& (!self.page_exists() ==> forall|i: int| self.offset <= i < 1020 ==> self.page_buffer@[i] == 0u8)
    }
    /// number of payload pages of the logical stream
    pub open spec fn npages(&self) -> int {
        if self.dl() / 1024 >= self.p() + (if self.offset > 0 { 1int } else { 0int }) { self.dl() / 1024 } else { self.p() + 1 }
    }
    /// the logical stream, page granular (zero filled)
    pub open spec fn stream(&self) -> Seq<u8> {
        Seq::new((1020 * self.npages()) as nat, |i: int|
            if i / 1020 == self.p() { self.page_buffer@[i % 1020] } else { self.writer.data@[1024 * (i / 1020) + i % 1020] })
    }
    pub open spec fn cursor(&self) -> int { 1020 * self.p() + self.offset }

    fn read_current_page(&mut self) -> (r: Result<(), IoError>)
        requires old(self).dl() % 1024 == 0, old(self).writer.pos % 1024 == 0, old(self).writer.pos <= old(self).dl(),
        ensures match r {
            Ok(_) => final(self).writer.data@ == old(self).writer.data@ && final(self).offset == old(self).offset
                && (old(self).page_exists() ==> final(self).writer.pos == old(self).writer.pos + 1024
                        && final(self).page_buffer@ =~= old(self).writer.data@.subrange(old(self).writer.pos as int, old(self).writer.pos + 1024))
                && (!old(self).page_exists() ==> final(self).writer.pos == old(self).writer.pos
                        && final(self).page_buffer@ =~= Seq::new(1024, |i: int| 0u8)),
            Err(_) => true },
    {
        let ghost pos0 = self.writer.pos as int;
        let ghost data0 = self.writer.data@;
        let mut unread = &mut self.page_buffer[..];
        let ghost whole = final(unread)@;   // prophecy: final content of the whole page buffer
        let ghost done: Seq<u8> = Seq::empty();
        while !unread.is_empty()
            invariant
                self.writer.data@ == data0, data0.len() % 1024 == 0, pos0 % 1024 == 0, pos0 <= data0.len(),
                self.offset == old(self).offset,
                done.len() + unread@.len() == 1024,
                self.writer.pos == pos0 + done.len(),
                done.len() > 0 ==> pos0 < data0.len(),
                done =~= data0.subrange(pos0, pos0 + done.len()),
                whole =~= done + final(unread)@,
            ensures
                unread@.len() > 0 ==> pos0 + done.len() >= data0.len(),
            decreases unread@.len()
        {
            let read = self.writer.read(unread)?;
            if read == 0 {
                break;
            }
            proof { done = done + unread@.subrange(0, read as int); }
            unread = &mut unread[read..];
        }
        let ghost un = unread@;
        unread.fill(0);
        proof {
            assert(self.page_buffer@ =~= whole);
            assert(whole =~= done + Seq::new(un.len(), |i: int| 0u8));
            if done.len() > 0 && un.len() > 0 {
                // loop left through `break`: device exhausted in the middle of a page: impossible
                assert(pos0 + done.len() >= data0.len());
                assert(false);
            }
        }
        Ok(())
    }

    fn write(&mut self, buf: &[u8]) -> (r: Result<usize, IoError>)
        requires old(self).wf(), old(self).dl() + 2048 < u64::MAX,
        ensures match r {
            Ok(n) => final(self).wf()
                && n == (if buf@.len() <= 1020 - old(self).offset { buf@.len() as int } else { 1020 - old(self).offset })
                && final(self).dl() <= old(self).dl() + 1024
                && (old(self).offset + n < 1020 ==> final(self).dl() == old(self).dl() && final(self).offset == old(self).offset + n)
                && (old(self).offset + n == 1020 ==> final(self).offset == 0)
                && final(self).cursor() == old(self).cursor() + n
                && final(self).stream().len() >= old(self).stream().len()
                && (forall|i: int| 0 <= i < final(self).stream().len() ==> #[trigger] final(self).stream()[i] ==
                        (if old(self).cursor() <= i < old(self).cursor() + n { buf@[i - old(self).cursor()] }
                         else if i < old(self).stream().len() { old(self).stream()[i] } else { 0u8 })),
            Err(_) => true },
    {
        let remaining_page_bytes = PAGE_PAYLOAD_SIZE - self.offset;
        let writeable_bytes = buf.len().min(remaining_page_bytes);
        self.page_buffer[self.offset..self.offset + writeable_bytes]
            .copy_from_slice(&buf[..writeable_bytes]);
        self.offset += writeable_bytes;
        let ghost mid = *self;
        proof {
            // state after the in-memory copy, before any device I/O
            assert(mid.writer == old(self).writer);
            assert forall|i: int| 0 <= i < 1020 implies #[trigger] mid.page_buffer@[i] ==
                (if old(self).offset <= i < old(self).offset + writeable_bytes { buf@[i - old(self).offset] } else { old(self).page_buffer@[i] }) by { }
        }
        if self.offset == PAGE_PAYLOAD_SIZE {
            let crc = self.crc.calculate(&self.page_buffer[..PAGE_PAYLOAD_SIZE]);

            self.page_buffer[PAGE_PAYLOAD_SIZE..].copy_from_slice(&shim_u32_to_be_bytes(crc));
            let ghost d0 = self.writer.data@;
            let ghost pb = self.page_buffer@;
            self.writer.write_all(&self.page_buffer)?;

            let page_phys_offset = self.writer.stream_position()?;
            self.offset = 0;
            let ghost d1 = self.writer.data@;
            self.read_current_page()?;
            self.writer.seek(SeekFrom::Start(page_phys_offset))?;
            proof {
                let p = old(self).p();
                be4_len(crc);
                assert(pb.subrange(0, 1020) =~= mid.page_buffer@.subrange(0, 1020));
                assert(pb.subrange(1020, 1024) =~= be4(crc));
                assert(sealed_page(pb));
                assert(d1.len() == (if old(self).page_exists() { d0.len() } else { d0.len() + 1024 }));
                assert forall|k: int| 0 <= k < d1.len() / 1024 implies sealed_page(#[trigger] page(d1, k)) by {
                    if k == p { assert(page(d1, k) =~= pb); } else { assert(page(d1, k) =~= page(d0, k)); }
                }
                assert(self.p() == p + 1);
                assert forall|i: int| 0 <= i < self.stream().len() implies #[trigger] self.stream()[i] ==
                        (if old(self).cursor() <= i < old(self).cursor() + writeable_bytes { buf@[i - old(self).cursor()] }
                         else if i < old(self).stream().len() { old(self).stream()[i] } else { 0u8 }) by {
                    let k = i / 1020;
                    if k == p {
                        assert(d1[1024 * k + i % 1020] == pb[i % 1020]);
                    } else if k == p + 1 {
                    } else {
                        assert(d1[1024 * k + i % 1020] == d0[1024 * k + i % 1020]);
                    }
                }
            }
        } else {
            proof {
                assert forall|i: int| 0 <= i < self.stream().len() implies #[trigger] self.stream()[i] ==
                        (if old(self).cursor() <= i < old(self).cursor() + writeable_bytes { buf@[i - old(self).cursor()] }
                         else if i < old(self).stream().len() { old(self).stream()[i] } else { 0u8 }) by { }
            }
        }
        Ok(writeable_bytes)
    }

    /// std::io::Write::write_all (default method), re-stated over the inherent `write`
    fn write_all(&mut self, buf: &[u8]) -> (r: Result<(), IoError>)
        requires old(self).wf(), old(self).dl() + 1024 * ((old(self).offset + buf@.len()) / 1020 + 3) < u64::MAX,
        ensures match r {
            Ok(_) => final(self).wf() && final(self).cursor() == old(self).cursor() + buf@.len()
                && final(self).stream().len() >= old(self).stream().len()
                && (forall|i: int| 0 <= i < final(self).stream().len() ==> #[trigger] final(self).stream()[i] ==
                        (if old(self).cursor() <= i < old(self).cursor() + buf@.len() { buf@[i - old(self).cursor()] }
                         else if i < old(self).stream().len() { old(self).stream()[i] } else { 0u8 })),
            Err(_) => true },
    {
        let mut done: usize = 0;
        while done < buf.len()
            invariant
                done <= buf@.len(), self.wf(), self.dl() + 1024 * ((self.offset + (buf@.len() - done)) / 1020 + 3) < u64::MAX,
                self.cursor() == old(self).cursor() + done,
                self.stream().len() >= old(self).stream().len(),
                forall|i: int| 0 <= i < self.stream().len() ==> #[trigger] self.stream()[i] ==
                        (if old(self).cursor() <= i < old(self).cursor() + done { buf@[i - old(self).cursor()] }
                         else if i < old(self).stream().len() { old(self).stream()[i] } else { 0u8 }),
            decreases buf@.len() - done
        {
            let ghost before = *self;
            let n = self.write(vstd::slice::slice_subrange(buf, done, buf.len()))?;
            if n == 0 { return Err(IoError { kind: 9 }); }
            done = done + n;
        }
        Ok(())
    }

    /// Seek to a specific physical offset in the file.
    pub fn physical_seek(&mut self, pos: u64) -> (r: EResult<()>)
        requires old(self).wf(), old(self).dl() + 4096 < u64::MAX,
        ensures match r {
            Ok(_) => final(self).wf() && pos <= 1024 * old(self).npages() && pos % 1024 < 1020
                && final(self).stream() =~= old(self).stream()
                && final(self).cursor() == 1020 * (pos as int / 1024) + pos as int % 1024,
            Err(_) => true },
    {
        // Make sure we wrote any current (partial) page before seeking
        self.flush().write_err("Failed to flush before seeking")?;
        let ghost fl = *self;

        let end = self
            .writer
            .seek(SeekFrom::End(0))
            .write_err("Failed to seek to file end")?;
        if pos > end {
            Error::invalid("Cannot seek after end of file")?
        }

        let page = pos / PAGE_SIZE;
        let offset = (pos % PAGE_SIZE) as usize;
        if offset >= PAGE_PAYLOAD_SIZE {
            Error::invalid("Cannot seek into checksum")?
        }

        let page_phys_offset = page * PAGE_SIZE;
        self.writer
            .seek(SeekFrom::Start(page_phys_offset))
            .write_err("Failed to seek to specified position")?;
        self.read_current_page()
            .write_err("Failed to read existing page data")?;
        self.writer
            .seek(SeekFrom::Start(page_phys_offset))
            .write_err("Failed to seek back to page start after reading existing data")?;

        self.offset = offset;
        proof {
            let d = self.writer.data@;
            assert(d == fl.writer.data@);
            assert forall|i: int| 0 <= i < self.stream().len() implies self.stream()[i] == old(self).stream()[i] by {
                if i / 1020 == self.p() { assert(self.page_buffer@[i % 1020] == d[1024 * (i / 1020) + i % 1020]); }
            }
        }

        Ok(())
    }

    // Get the current physical size of the file.
    pub fn physical_size(&mut self) -> (r: EResult<u64>)
        requires old(self).wf(), old(self).dl() + 4096 < u64::MAX,
        ensures match r {
            Ok(sz) => final(self).wf() && final(self).stream() =~= old(self).stream() && final(self).cursor() == old(self).cursor()
                && sz == 1024 * old(self).npages() && sz == final(self).dl(),
            Err(_) => true },
    {
        self.flush().write_err("Cannot flush writer")?;
        let pos = self
            .writer
            .stream_position()
            .write_err("Cannot get current position")?;
        let size = self
            .writer
            .seek(SeekFrom::End(0))
            .write_err("Cannot seek to file end")?;
        self.writer
            .seek(SeekFrom::Start(pos))
            .write_err("Cannot seek to previous position")?;
        Ok(size)
    }

    /// Get the current physical offset in the file.
    pub fn physical_position(&mut self) -> (r: EResult<u64>)
        requires old(self).wf(), old(self).dl() + 2048 < u64::MAX,
        ensures match r { Ok(p) => final(self).wf() && final(self).stream() == old(self).stream() && final(self).cursor() == old(self).cursor()
                            && p == 1024 * old(self).p() + old(self).offset, Err(_) => true },
    {
        let pos = self
            .writer
            .stream_position()
            .read_err("Failed to get position from writer")?;
        Ok(pos + self.offset as u64)
    }

    /// Write some zeros to next 4-byte-aligned offset, if needed.
    pub fn align(&mut self) -> (r: EResult<()>)
        requires old(self).wf(), old(self).dl() + 4096 < u64::MAX,
        ensures match r { Ok(_) => final(self).wf() && final(self).cursor() % 4 == 0 && final(self).cursor() - old(self).cursor() < 4
                && final(self).cursor() >= old(self).cursor()
                && (forall|i: int| 0 <= i < old(self).cursor() && i < final(self).stream().len() ==> #[trigger] final(self).stream()[i] == old(self).stream()[i]),
            Err(_) => true },
    {
        let zeros = [0u8; 4];
        let mod_offset = self.offset % 4;
        if mod_offset != 0 {
            self.write_all(vstd::slice::slice_subrange(&zeros, mod_offset, 4))
                .write_err("Failed to write zero bytes for alignment")?;
        }
        Ok(())
    }

    fn flush(&mut self) -> (r: Result<(), IoError>)
        requires old(self).wf()
        ensures match r {
            Ok(_) => final(self).wf() && final(self).stream() =~= old(self).stream() && final(self).cursor() == old(self).cursor()
                && final(self).dl() == 1024 * old(self).npages()
                && (forall|i: int| 0 <= i < 1020 * old(self).npages() ==> final(self).writer.data@[1024 * (i / 1020) + i % 1020] == #[trigger] old(self).stream()[i]),
            Err(_) => true },
    {
        if self.offset > 0 {
            let pos = self.writer.stream_position()?;
            let crc = self.crc.calculate(&self.page_buffer[..PAGE_PAYLOAD_SIZE]);
            self.page_buffer[PAGE_PAYLOAD_SIZE..].copy_from_slice(&shim_u32_to_be_bytes(crc));
            let ghost d0 = self.writer.data@;
            self.writer.write_all(&self.page_buffer)?;
            self.writer.seek(SeekFrom::Start(pos))?;
            proof {
                let d1 = self.writer.data@;
                let pb = self.page_buffer@;
                let p = old(self).p();
                be4_len(crc);
                assert(pb.subrange(0, 1020) =~= old(self).page_buffer@.subrange(0, 1020));
                assert(pb.subrange(1020, 1024) =~= be4(crc));
                assert(sealed_page(pb));
                assert(d1.len() == (if old(self).page_exists() { d0.len() } else { d0.len() + 1024 }));
                assert forall|k: int| 0 <= k < d1.len() / 1024 implies sealed_page(#[trigger] page(d1, k)) by {
                    if k == p { assert(page(d1, k) =~= pb); } else { assert(page(d1, k) =~= page(d0, k)); }
                }
                assert(self.page_exists());
                assert forall|i: int| 0 <= i < 1020 implies self.page_buffer@[i] == d1[self.writer.pos + i] by { }
                assert(self.npages() == old(self).npages());
                assert forall|i: int| 0 <= i < 1020 * old(self).npages() implies
                    d1[1024 * (i / 1020) + i % 1020] == #[trigger] old(self).stream()[i] by {
                    if i / 1020 == p { } else { assert(d1[1024 * (i / 1020) + i % 1020] == d0[1024 * (i / 1020) + i % 1020]); }
                }
            }
        }
        self.writer.flush()
    }
}
}
fn main() {}
