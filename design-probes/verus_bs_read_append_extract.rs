use vstd::prelude::*;
verus! {
spec fn bit8(x: u8, k: int) -> bool { (x >> (k as u8)) & 1u8 == 1u8 }
spec fn bit_at(s: Seq<u8>, i: int) -> bool { bit8(s[i / 8], i % 8) }
spec fn bit64(x: u64, k: int) -> bool { (x >> (k as u64)) & 1u64 == 1u64 }
spec fn bit128(x: u128, k: int) -> bool { (x >> (k as u128)) & 1u128 == 1u128 }

spec fn le128(b: Seq<u8>) -> u128 {
    (b[0] as u128) | (b[1] as u128) << 8 | (b[2] as u128) << 16 | (b[3] as u128) << 24
    | (b[4] as u128) << 32 | (b[5] as u128) << 40 | (b[6] as u128) << 48 | (b[7] as u128) << 56
    | (b[8] as u128) << 64 | (b[9] as u128) << 72 | (b[10] as u128) << 80 | (b[11] as u128) << 88
    | (b[12] as u128) << 96 | (b[13] as u128) << 104 | (b[14] as u128) << 112 | (b[15] as u128) << 120
}
proof fn lemma_le128_bit_raw(b0: u8, b1: u8, b2: u8, b3: u8, b4: u8, b5: u8, b6: u8, b7: u8,
                         b8: u8, b9: u8, b10: u8, b11: u8, b12: u8, b13: u8, b14: u8, b15: u8, j: u128)
    requires j < 128
    ensures ({
        let v = (b0 as u128) | (b1 as u128) << 8 | (b2 as u128) << 16 | (b3 as u128) << 24
            | (b4 as u128) << 32 | (b5 as u128) << 40 | (b6 as u128) << 48 | (b7 as u128) << 56
            | (b8 as u128) << 64 | (b9 as u128) << 72 | (b10 as u128) << 80 | (b11 as u128) << 88
            | (b12 as u128) << 96 | (b13 as u128) << 104 | (b14 as u128) << 112 | (b15 as u128) << 120;
        let byte: u8 = if j < 8 { b0 } else if j < 16 { b1 } else if j < 24 { b2 } else if j < 32 { b3 }
            else if j < 40 { b4 } else if j < 48 { b5 } else if j < 56 { b6 } else if j < 64 { b7 }
            else if j < 72 { b8 } else if j < 80 { b9 } else if j < 88 { b10 } else if j < 96 { b11 }
            else if j < 104 { b12 } else if j < 112 { b13 } else if j < 120 { b14 } else { b15 };
        ((v >> j) & 1u128 == 1u128) == ((byte >> ((j % 8) as u8)) & 1u8 == 1u8)
    })
{
    assert(j < 128 ==> ({
        let v = (b0 as u128) | (b1 as u128) << 8 | (b2 as u128) << 16 | (b3 as u128) << 24
            | (b4 as u128) << 32 | (b5 as u128) << 40 | (b6 as u128) << 48 | (b7 as u128) << 56
            | (b8 as u128) << 64 | (b9 as u128) << 72 | (b10 as u128) << 80 | (b11 as u128) << 88
            | (b12 as u128) << 96 | (b13 as u128) << 104 | (b14 as u128) << 112 | (b15 as u128) << 120;
        let byte: u8 = if j < 8 { b0 } else if j < 16 { b1 } else if j < 24 { b2 } else if j < 32 { b3 }
            else if j < 40 { b4 } else if j < 48 { b5 } else if j < 56 { b6 } else if j < 64 { b7 }
            else if j < 72 { b8 } else if j < 80 { b9 } else if j < 88 { b10 } else if j < 96 { b11 }
            else if j < 104 { b12 } else if j < 112 { b13 } else if j < 120 { b14 } else { b15 };
        ((v >> j) & 1u128 == 1u128) == ((byte >> ((j % 8) as u8)) & 1u8 == 1u8)
    })) by (bit_vector);
}
proof fn lemma_le128_bit(b: Seq<u8>, j: int)
    requires b.len() == 16, 0 <= j < 128
    ensures bit128(le128(b), j) == bit_at(b, j)
{
    lemma_le128_bit_raw(b[0], b[1], b[2], b[3], b[4], b[5], b[6], b[7], b[8], b[9], b[10], b[11], b[12], b[13], b[14], b[15], j as u128);
}
proof fn lemma_shift_trunc(v: u128, off: usize, k: int)
    requires off < 8, 0 <= k < 64
    ensures bit64((v >> off) as u64, k) == bit128(v, k + off)
{
    let kk = k as u128; let oo = off as u128;
    assert(oo < 8 && kk < 64 ==> (((((v >> oo) as u64) >> (kk as u64)) & 1u64 == 1u64) == ((v >> ((kk + oo) as u128)) & 1u128 == 1u128))) by (bit_vector);
    assert((v >> off) == (v >> oo)) by (bit_vector) requires oo == off as u128;
}

#[verifier::external_body]
fn shim_u128_from_le_bytes(b: [u8; 16]) -> (r: u128)
    ensures r == le128(b@)
{ u128::from_le_bytes(b) }

struct ByteStreamReadBuffer {
    buffer: Vec<u8>,
    tmp: Vec<u8>,
    offset: usize,
}

impl ByteStreamReadBuffer {
    spec fn wf(&self) -> bool { self.offset <= 8 * self.buffer@.len() && self.buffer@.len() <= 0x10_0000 && self.tmp@.len() == 0 }
    spec fn rest(&self) -> Seq<bool> {
        Seq::new((8 * self.buffer@.len() - self.offset) as nat, |i: int| bit_at(self.buffer@, self.offset + i))
    }

    /// Append a fresh slice of bytes to the end of the stream
    fn append(&mut self, data: &[u8])
        requires old(self).wf(), old(self).buffer@.len() - old(self).offset / 8 + data@.len() <= 0x10_0000
        ensures final(self).wf(),
            final(self).rest() =~= old(self).rest() + Seq::new((8 * data@.len()) as nat, |i: int| bit_at(data@, i)),
            final(self).offset < 8,
    {
        let consumed_bytes = self.offset / 8;
        let remaining_bytes = self.buffer.len() - consumed_bytes;
        self.offset -= consumed_bytes * 8;
        self.tmp.reserve(remaining_bytes + data.len());
        self.tmp.extend_from_slice(&self.buffer[consumed_bytes..]);
        self.tmp.extend_from_slice(data);
        self.buffer.clear();
        std::mem::swap(&mut self.buffer, &mut self.tmp);
        proof {
            let ob = old(self).buffer@; let nb = self.buffer@; let c = consumed_bytes as int;
            assert(nb =~= ob.subrange(c, ob.len() as int) + data@);
            assert forall|i: int| 0 <= i < 8 * nb.len() implies #[trigger] bit_at(nb, i) ==
                (if i < 8 * (ob.len() - c) { bit_at(ob, i + 8 * c) } else { bit_at(data@, i - 8 * (ob.len() - c)) }) by {
                if i < 8 * (ob.len() - c) {
                    assert(nb[i / 8] == ob[i / 8 + c]);
                    assert((i + 8 * c) / 8 == i / 8 + c);
                    assert((i + 8 * c) % 8 == i % 8);
                } else {
                    let r = ob.len() - c;
                    assert(nb[i / 8] == data@[i / 8 - r]);
                    assert((i - 8 * r) / 8 == i / 8 - r);
                    assert((i - 8 * r) % 8 == i % 8);
                }
            }
        }
    }

    fn extract(&mut self, bits: usize) -> (r: Option<u64>)
        requires old(self).wf(), bits <= 64
        ensures final(self).wf(), final(self).buffer@ == old(self).buffer@,
            match r {
                Some(v) => old(self).rest().len() >= bits
                    && (forall|k: int| 0 <= k < bits ==> bit64(v, k) == #[trigger] old(self).rest()[k])
                    && final(self).rest() =~= old(self).rest().subrange(bits as int, old(self).rest().len() as int),
                None => old(self).rest().len() < bits && final(self).offset == old(self).offset,
            }
    {
        if self.available() < bits {
            return None;
        }

        let start_offset = self.offset / 8;
        let end_offset = (self.offset + bits + 7) / 8; // Integer division with rounding up
        let offset = self.offset % 8;

        let mut data = [0; 16];
        let data_len = end_offset - start_offset;
        let dst = &mut data[..data_len];
        let src = &self.buffer[start_offset..end_offset];
        dst.copy_from_slice(src);
        let ghost arr = data@;

        self.offset += bits;
        let data = shim_u128_from_le_bytes(data) >> offset;
        proof {
            let v128 = le128(arr);
            assert forall|k: int| 0 <= k < bits implies bit64(data as u64, k) == #[trigger] old(self).rest()[k] by {
                lemma_shift_trunc(v128, offset, k);
                lemma_le128_bit(arr, k + offset);
                let j = k + offset;
                assert(j / 8 < data_len);
                assert(arr[j / 8] == old(self).buffer@[start_offset + j / 8]);
                assert((old(self).offset + k) / 8 == start_offset + j / 8);
                assert((old(self).offset + k) % 8 == j % 8);
            }
        }
        Some(data as u64)
    }

    /// Returns the number of available bits in the stream
    fn available(&self) -> (r: usize)
        requires self.wf()
        ensures r == self.rest().len()
    {
        (self.buffer.len() * 8) - self.offset
    }
}
}
fn main(){}
