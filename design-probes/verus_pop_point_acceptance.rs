use vstd::prelude::*;
use std::collections::VecDeque;
verus! {
pub enum Error { Invalid, Read, Write, Internal, NotImplemented }
pub type Result<T> = std::result::Result<T, Error>;
impl Error {
    pub fn invalid<T>(desc: &str) -> (r: Result<T>) ensures r is Err { Err(Error::Invalid) }
    pub fn internal<T>(desc: &str) -> (r: Result<T>) ensures r is Err { Err(Error::Internal) }
}
#[verifier::external_body]
fn fmt_opaque() -> &'static str { "" }
pub enum RecordValue { Single(f32), Double(f64), ScaledInteger(i64), Integer(i64) }
pub enum RecordDataType {
    Single { min: Option<f32>, max: Option<f32> },
    Double { min: Option<f64>, max: Option<f64> },
    ScaledInteger { min: i64, max: i64, scale: f64, offset: f64 },
    Integer { min: i64, max: i64 },
}
impl RecordValue {
    #[verifier::external_body] pub fn to_f64(&self, dt: &RecordDataType) -> Result<f64> { unimplemented!() }
    #[verifier::external_body] pub fn to_i64(&self, dt: &RecordDataType) -> Result<i64> { unimplemented!() }
}
pub struct Record { pub data_type: RecordDataType }
pub struct PointCloud { pub prototype: Vec<Record>, pub records: u64 }
pub enum CartesianCoordinate { Valid { x: f64, y: f64, z: f64 }, Direction { x: f64, y: f64, z: f64 }, Invalid }
pub enum SphericalCoordinate { Valid { range: f64, azimuth: f64, elevation: f64 }, Direction { azimuth: f64, elevation: f64 }, Invalid }
pub struct Color { pub red: f32, pub green: f32, pub blue: f32 }
pub struct Point { pub cartesian: CartesianCoordinate, pub spherical: SphericalCoordinate, pub color: Option<Color>, pub intensity: Option<f32>, pub row: i64, pub column: i64 }
struct Indices {
    cartesian: Option<(usize, usize, usize)>,
    cartesian_invalid: Option<usize>,
    spherical: Option<(usize, usize, usize)>,
    spherical_invalid: Option<usize>,
    color: Option<(usize, usize, usize)>,
    color_invalid: Option<usize>,
    intensity: Option<usize>,
    intensity_invalid: Option<usize>,
    row: Option<usize>,
    column: Option<usize>,
}
struct Range { min: f64, max: f64, inv_range: f64 }
impl Range { #[verifier::external_body] fn normalize(&self, value: f64) -> f32 { unimplemented!() } }
#[verifier::external_body]
fn shim_f64_as_f32(v: f64) -> f32 { v as f32 }
pub struct QueueReader { x: u8 }
impl QueueReader { #[verifier::external_body] pub fn pop_point(&mut self, output: &mut Vec<RecordValue>) -> Result<()> { unimplemented!() } }
pub struct PointCloudReaderSimple {
    pc: PointCloud,
    queue_reader: QueueReader,
    ni: bool,
    nc: bool,
    indices: Indices,
    values: Vec<RecordValue>,
    intensity_range: Option<Range>,
    red_range: Option<Range>,
    green_range: Option<Range>,
    blue_range: Option<Range>,
}
impl PointCloudReaderSimple {
        fn normalize_value(&self, enabled: bool, value: f64, range: &Option<Range>) -> f32 {
        if enabled {
            if let Some(range) = range {
                range.normalize(value)
            } else {
                // Return zero for point clouds without proper range
                0.0
            }
        } else {
            shim_f64_as_f32(value)
        }
    }

    fn pop_point(&mut self) -> Result<Point> {
        // Read raw values of the point from queue
        self.queue_reader.pop_point(&mut self.values)?;

        // Some shortcuts for better readability
        let proto = &self.pc.prototype;
        let values = &self.values;
        let indices = &self.indices;

        // Cartesian coordinates
        let cartesian_invalid = if let Some(ind) = indices.cartesian_invalid {
            values[ind].to_i64(&proto[ind].data_type)?
        } else if indices.cartesian.is_some() {
            0
        } else {
            2
        };
        let cartesian = if let Some(ind) = indices.cartesian {
            if cartesian_invalid == 0 {
                CartesianCoordinate::Valid {
                    x: values[ind.0].to_f64(&proto[ind.0].data_type)?,
                    y: values[ind.1].to_f64(&proto[ind.1].data_type)?,
                    z: values[ind.2].to_f64(&proto[ind.2].data_type)?,
                }
            } else if cartesian_invalid == 1 {
                CartesianCoordinate::Direction {
                    x: values[ind.0].to_f64(&proto[ind.0].data_type)?,
                    y: values[ind.1].to_f64(&proto[ind.1].data_type)?,
                    z: values[ind.2].to_f64(&proto[ind.2].data_type)?,
                }
            } else if cartesian_invalid == 2 {
                CartesianCoordinate::Invalid
            } else {
                Error::invalid(fmt_opaque())?
            }
        } else {
            CartesianCoordinate::Invalid
        };

        // Spherical coordinates
        let spherical_invalid = if let Some(ind) = indices.spherical_invalid {
            values[ind].to_i64(&proto[ind].data_type)?
        } else if indices.spherical.is_some() {
            0
        } else {
            2
        };
        let spherical = if let Some(ind) = indices.spherical {
            if spherical_invalid == 0 {
                SphericalCoordinate::Valid {
                    range: values[ind.0].to_f64(&proto[ind.0].data_type)?,
                    azimuth: values[ind.1].to_f64(&proto[ind.1].data_type)?,
                    elevation: values[ind.2].to_f64(&proto[ind.2].data_type)?,
                }
            } else if spherical_invalid == 1 {
                SphericalCoordinate::Direction {
                    azimuth: values[ind.1].to_f64(&proto[ind.1].data_type)?,
                    elevation: values[ind.2].to_f64(&proto[ind.2].data_type)?,
                }
            } else if spherical_invalid == 2 {
                SphericalCoordinate::Invalid
            } else {
                Error::invalid(fmt_opaque())?
            }
        } else {
            SphericalCoordinate::Invalid
        };

        // RGB colors
        let color_invalid = if let Some(ind) = indices.color_invalid {
            values[ind].to_i64(&proto[ind].data_type)?
        } else if indices.color.is_some() {
            0
        } else {
            1
        };
        let color = if let Some(ind) = indices.color {
            if color_invalid == 0 {
                Some(Color {
                    red: self.normalize_value(
                        self.nc,
                        values[ind.0].to_f64(&proto[ind.0].data_type)?,
                        &self.red_range,
                    ),
                    green: self.normalize_value(
                        self.nc,
                        values[ind.1].to_f64(&proto[ind.1].data_type)?,
                        &self.green_range,
                    ),
                    blue: self.normalize_value(
                        self.nc,
                        values[ind.2].to_f64(&proto[ind.2].data_type)?,
                        &self.blue_range,
                    ),
                })
            } else if color_invalid == 1 {
                None
            } else {
                Error::invalid(fmt_opaque())?
            }
        } else {
            None
        };

        // Intensity values
        let intensity_invalid = if let Some(ind) = indices.intensity_invalid {
            values[ind].to_i64(&proto[ind].data_type)?
        } else if indices.intensity.is_some() {
            0
        } else {
            1
        };
        let intensity = if let Some(ind) = indices.intensity {
            if intensity_invalid == 0 {
                let value = values[ind].to_f64(&proto[ind].data_type)?;
                Some(self.normalize_value(self.ni, value, &self.intensity_range))
            } else if intensity_invalid == 1 {
                None
            } else {
                Error::invalid(fmt_opaque())?
            }
        } else {
            None
        };

        // Row index
        let row = if let Some(ind) = indices.row {
            values[ind].to_i64(&proto[ind].data_type)?
        } else {
            -1
        };

        // Column index
        let column = if let Some(ind) = indices.column {
            values[ind].to_i64(&proto[ind].data_type)?
        } else {
            -1
        };

        Ok(Point {
            cartesian,
            spherical,
            color,
            intensity,
            row,
            column,
        })
    }
}
}
fn main() {}
