use vstd::prelude::*;
verus! {
pub enum Error { Invalid, Read, Write, Internal, NotImplemented }
pub type Result<T> = std::result::Result<T, Error>;
pub struct IoError { pub kind: u8 }
pub trait Converter<T> { fn write_err(self, context: &str) -> Result<T>; }
impl<T, E> Converter<T> for std::result::Result<T, E> {
    fn write_err(self, context: &str) -> Result<T> { match self { Ok(v) => Ok(v), Err(_) => Err(Error::Write) } }
}
pub struct Opaque { x: u8 }
pub struct PagedWriter { pub data: Ghost<Seq<u8>> }
impl PagedWriter {
    #[verifier::external_body] pub fn physical_position(&mut self) -> Result<u64> { unimplemented!() }
    #[verifier::external_body] pub fn physical_size(&mut self) -> Result<u64> { unimplemented!() }
    #[verifier::external_body] pub fn physical_seek(&mut self, pos: u64) -> Result<()> { unimplemented!() }
    #[verifier::external_body] pub fn write_all(&mut self, buf: &[u8]) -> std::result::Result<(), IoError> { unimplemented!() }
    #[verifier::external_body] pub fn flush(&mut self) -> std::result::Result<(), IoError> { unimplemented!() }
}
const SIGNATURE: &'static [u8; 8] = b"ASTM-E57";
const MAJOR_VERSION: u32 = 1;
const MINOR_VERSION: u32 = 0;
const PAGE_SIZE: u64 = 1024;
pub struct Header { pub signature: [u8; 8], pub major: u32, pub minor: u32, pub phys_length: u64, pub phys_xml_offset: u64, pub xml_length: u64, pub page_size: u64 }
impl Header {
    #[verifier::external_body] pub fn write(&self, writer: &mut PagedWriter) -> Result<()> { unimplemented!() }
}
impl Default for Header {
    fn default() -> Self {
        Self {
            signature: *SIGNATURE,
            major: MAJOR_VERSION,
            minor: MINOR_VERSION,
            phys_length: 0,
            phys_xml_offset: 0,
            xml_length: 0,
            page_size: PAGE_SIZE,
        }
    }
}
#[verifier::external_body]
pub fn serialize_root(root: &Opaque, pointclouds: &Vec<Opaque>, images: &Vec<Opaque>, extensions: &Vec<Opaque>) -> Result<String> { unimplemented!() }

#[verifier::external_body]
fn shim_string_as_bytes(s: &String) -> (r: &[u8]) { s.as_bytes() }
pub struct E57Writer {
    pub writer: PagedWriter,
    pub pointclouds: Vec<Opaque>,
    extensions: Vec<Opaque>,
    images: Vec<Opaque>,
    root: Opaque,
}
impl E57Writer {
    pub fn finalize_customized_xml(
        &mut self,
        transformer: impl Fn(String) -> Result<String>,
    ) -> Result<()> {
        let xml = serialize_root(
            &self.root,
            &self.pointclouds,
            &self.images,
            &self.extensions,
        )?;
        let xml = transformer(xml)?;
        let xml_bytes = shim_string_as_bytes(&xml);
        let xml_length = xml_bytes.len();
        let xml_offset = self.writer.physical_position()?;
        self.writer
            .write_all(xml_bytes)
            .write_err("Failed to write XML data")?;
        let phys_length = self.writer.physical_size()?;

        // Add missing values in header at start of the the file
        let header = Header {
            phys_xml_offset: xml_offset,
            xml_length: xml_length as u64,
            phys_length,
            ..Default::default()
        };
        self.writer.physical_seek(0)?;
        header.write(&mut self.writer)?;
        self.writer
            .flush()
            .write_err("Failed to flush writer at the end")
    }
}
}
fn main() {}
