use vstd::prelude::*;
use std::collections::VecDeque;
verus! {
spec fn bit8(x: u8, k: int) -> bool { (x >> (k as u8)) & 1u8 == 1u8 }
spec fn bit_at(s: Seq<u8>, i: int) -> bool { bit8(s[i / 8], i % 8) }
spec fn bit64(x: u64, k: int) -> bool { (x >> (k as u64)) & 1u64 == 1u64 }
spec fn bit128(x: u128, k: int) -> bool { (x >> (k as u128)) & 1u128 == 1u128 }

spec fn le128(b: Seq<u8>) -> u128 {
    (b[0] as u128) | (b[1] as u128) << 8 | (b[2] as u128) << 16 | (b[3] as u128) << 24
    | (b[4] as u128) << 32 | (b[5] as u128) << 40 | (b[6] as u128) << 48 | (b[7] as u128) << 56
    | (b[8] as u128) << 64 | (b[9] as u128) << 72 | (b[10] as u128) << 80 | (b[11] as u128) << 88
    | (b[12] as u128) << 96 | (b[13] as u128) << 104 | (b[14] as u128) << 112 | (b[15] as u128) << 120
}
proof fn lemma_le128_bit_raw(b0: u8, b1: u8, b2: u8, b3: u8, b4: u8, b5: u8, b6: u8, b7: u8,
                         b8: u8, b9: u8, b10: u8, b11: u8, b12: u8, b13: u8, b14: u8, b15: u8, j: u128)
    requires j < 128
    ensures ({
        let v = (b0 as u128) | (b1 as u128) << 8 | (b2 as u128) << 16 | (b3 as u128) << 24
            | (b4 as u128) << 32 | (b5 as u128) << 40 | (b6 as u128) << 48 | (b7 as u128) << 56
            | (b8 as u128) << 64 | (b9 as u128) << 72 | (b10 as u128) << 80 | (b11 as u128) << 88
            | (b12 as u128) << 96 | (b13 as u128) << 104 | (b14 as u128) << 112 | (b15 as u128) << 120;
        let byte: u8 = if j < 8 { b0 } else if j < 16 { b1 } else if j < 24 { b2 } else if j < 32 { b3 }
            else if j < 40 { b4 } else if j < 48 { b5 } else if j < 56 { b6 } else if j < 64 { b7 }
            else if j < 72 { b8 } else if j < 80 { b9 } else if j < 88 { b10 } else if j < 96 { b11 }
            else if j < 104 { b12 } else if j < 112 { b13 } else if j < 120 { b14 } else { b15 };
        ((v >> j) & 1u128 == 1u128) == ((byte >> ((j % 8) as u8)) & 1u8 == 1u8)
    })
{
    assert(j < 128 ==> ({
        let v = (b0 as u128) | (b1 as u128) << 8 | (b2 as u128) << 16 | (b3 as u128) << 24
            | (b4 as u128) << 32 | (b5 as u128) << 40 | (b6 as u128) << 48 | (b7 as u128) << 56
            | (b8 as u128) << 64 | (b9 as u128) << 72 | (b10 as u128) << 80 | (b11 as u128) << 88
            | (b12 as u128) << 96 | (b13 as u128) << 104 | (b14 as u128) << 112 | (b15 as u128) << 120;
        let byte: u8 = if j < 8 { b0 } else if j < 16 { b1 } else if j < 24 { b2 } else if j < 32 { b3 }
            else if j < 40 { b4 } else if j < 48 { b5 } else if j < 56 { b6 } else if j < 64 { b7 }
            else if j < 72 { b8 } else if j < 80 { b9 } else if j < 88 { b10 } else if j < 96 { b11 }
            else if j < 104 { b12 } else if j < 112 { b13 } else if j < 120 { b14 } else { b15 };
        ((v >> j) & 1u128 == 1u128) == ((byte >> ((j % 8) as u8)) & 1u8 == 1u8)
    })) by (bit_vector);
}
proof fn lemma_le128_bit(b: Seq<u8>, j: int)
    requires b.len() == 16, 0 <= j < 128
    ensures bit128(le128(b), j) == bit_at(b, j)
{
    lemma_le128_bit_raw(b[0], b[1], b[2], b[3], b[4], b[5], b[6], b[7], b[8], b[9], b[10], b[11], b[12], b[13], b[14], b[15], j as u128);
}
proof fn lemma_shift_trunc(v: u128, off: usize, k: int)
    requires off < 8, 0 <= k < 64
    ensures bit64((v >> off) as u64, k) == bit128(v, k + off)
{
    let kk = k as u128; let oo = off as u128;
    assert(oo < 8 && kk < 64 ==> (((((v >> oo) as u64) >> (kk as u64)) & 1u64 == 1u64) == ((v >> ((kk + oo) as u128)) & 1u128 == 1u128))) by (bit_vector);
    assert((v >> off) == (v >> oo)) by (bit_vector) requires oo == off as u128;
}

#[verifier::external_body]
fn shim_u128_from_le_bytes(b: [u8; 16]) -> (r: u128)
    ensures r == le128(b@)
{ u128::from_le_bytes(b) }

struct ByteStreamReadBuffer {
    buffer: Vec<u8>,
    tmp: Vec<u8>,
    offset: usize,
}

impl ByteStreamReadBuffer {
    spec fn wf(&self) -> bool { self.offset <= 8 * self.buffer@.len() && self.buffer@.len() <= 0x10_0000 }
    spec fn rest(&self) -> Seq<bool> {
        Seq::new((8 * self.buffer@.len() - self.offset) as nat, |i: int| bit_at(self.buffer@, self.offset + i))
    }

    fn extract(&mut self, bits: usize) -> (r: Option<u64>)
        requires old(self).wf(), bits <= 64
        ensures final(self).wf(), final(self).buffer@ == old(self).buffer@,
            match r {
                Some(v) => old(self).rest().len() >= bits
                    && (forall|k: int| 0 <= k < bits ==> bit64(v, k) == #[trigger] old(self).rest()[k])
                    && final(self).rest() =~= old(self).rest().subrange(bits as int, old(self).rest().len() as int),
                None => old(self).rest().len() < bits && final(self).offset == old(self).offset,
            }
    {
        if self.available() < bits {
            return None;
        }

        let start_offset = self.offset / 8;
        let end_offset = (self.offset + bits + 7) / 8; // Integer division with rounding up
        let offset = self.offset % 8;

        let mut data = [0; 16];
        let data_len = end_offset - start_offset;
        let dst = &mut data[..data_len];
        let src = &self.buffer[start_offset..end_offset];
        dst.copy_from_slice(src);
        let ghost arr = data@;

        self.offset += bits;
        let data = shim_u128_from_le_bytes(data) >> offset;
        proof {
            let v128 = le128(arr);
            assert forall|k: int| 0 <= k < bits implies bit64(data as u64, k) == #[trigger] old(self).rest()[k] by {
                lemma_shift_trunc(v128, offset, k);
                lemma_le128_bit(arr, k + offset);
                let j = k + offset;
                assert(j / 8 < data_len);
                assert(arr[j / 8] == old(self).buffer@[start_offset + j / 8]);
                assert((old(self).offset + k) / 8 == start_offset + j / 8);
                assert((old(self).offset + k) % 8 == j % 8);
            }
        }
        Some(data as u64)
    }

    /// Returns the number of available bits in the stream
    fn available(&self) -> (r: usize)
        requires self.wf()
        ensures r == self.rest().len()
    {
        (self.buffer.len() * 8) - self.offset
    }
}

pub enum RecordValue { Single(f32), Double(f64), ScaledInteger(i64), Integer(i64) }
pub type Result<T> = std::result::Result<T, ()>;

spec fn width(min: i64, max: i64) -> nat;   // characterised by the contract of shim_ilog2 below
#[verifier::external_body]
fn shim_i128_ilog2(x: i128) -> (r: u32)
    requires x > 0
    ensures pow2(r as int) <= x, x < pow2(r as int + 1)
{ x.ilog2() }
proof fn lemma_pow2_mono(a: int, b: int)
    requires 0 <= a <= b
    ensures pow2(a) <= pow2(b), pow2(a) >= 1
    decreases b
{
    if a < b { lemma_pow2_mono(a, b - 1); } else if a > 0 { lemma_pow2_mono(a - 1, a - 1); }
}
proof fn lemma_pow2_64()
    ensures pow2(64) == 0x1_0000_0000_0000_0000
{
    reveal_with_fuel(pow2, 65);
}

// extensionality by halving: compare low bit and recurse on x >> 1
proof fn lemma_ext(a: u64, b: u64, n: nat)
    requires n <= 64, forall|k: int| 0 <= k < n ==> bit64(a, k) == bit64(b, k),
             n < 64 ==> (a >> (n as u64)) == 0 && (b >> (n as u64)) == 0,
    ensures a == b
    decreases n
{
    if n == 0 {
        assert(a >> 0u64 == a) by (bit_vector);
        assert(b >> 0u64 == b) by (bit_vector);
    } else {
        let m = (n - 1) as nat;
        let mm = m as u64;
        assert(bit64(a, m as int) == bit64(b, m as int));
        // clear bit m of both
        let a2 = a & !(1u64 << mm);
        let b2 = b & !(1u64 << mm);
        assert forall|k: int| 0 <= k < m implies bit64(a2, k) == bit64(b2, k) by {
            let kk = k as u64;
            assert(kk < mm && mm < 64 ==> (((a & !(1u64 << mm)) >> kk) & 1u64) == ((a >> kk) & 1u64)) by (bit_vector);
            assert(kk < mm && mm < 64 ==> (((b & !(1u64 << mm)) >> kk) & 1u64) == ((b >> kk) & 1u64)) by (bit_vector);
            assert(kk < mm && mm < 64);
            assert(bit64(a, k) == bit64(b, k));
            assert(bit64(a2, k) == bit64(a, k));
            assert(bit64(b2, k) == bit64(b, k));
        }
        assert(mm < 64 && (mm < 63 ==> (a >> ((mm + 1) as u64)) == 0) ==> ((a & !(1u64 << mm)) >> mm) == 0) by (bit_vector);
        assert(mm < 64 && (mm < 63 ==> (b >> ((mm + 1) as u64)) == 0) ==> ((b & !(1u64 << mm)) >> mm) == 0) by (bit_vector);
        assert(((a >> mm) & 1u64) == 0u64 || ((a >> mm) & 1u64) == 1u64) by (bit_vector);
        assert(((b >> mm) & 1u64) == 0u64 || ((b >> mm) & 1u64) == 1u64) by (bit_vector);
        assert(((a >> mm) & 1u64) == ((b >> mm) & 1u64));
        if n < 64 { assert((a >> ((mm + 1) as u64)) == 0); assert((b >> ((mm + 1) as u64)) == 0); }
        lemma_ext(a2, b2, m);
        assert(mm < 64 && (a & !(1u64 << mm)) == (b & !(1u64 << mm)) && (((a >> mm) & 1u64) == ((b >> mm) & 1u64)) ==> a == b) by (bit_vector);
    }
}


spec fn chunk_val(bits: Seq<bool>) -> u64 { choose|x: u64| holds_bits(x, bits) }
proof fn lemma_chunk_val(x: u64, bits: Seq<bool>)
    requires holds_bits(x, bits)
    ensures chunk_val(bits) == x
{
    let y = chunk_val(bits);
    assert(holds_bits(y, bits));
    assert forall|k: int| 0 <= k < 64 implies bit64(x, k) == bit64(y, k) by { }
    lemma_ext(x, y, 64);
}
spec fn chunk(r: Seq<bool>, j: int, w: int) -> Seq<bool> { r.subrange(j * w, j * w + w) }
spec fn holds_bits(x: u64, bits: Seq<bool>) -> bool {
    forall|k: int| 0 <= k < 64 ==> bit64(x, k) == (k < bits.len() && bits[k])
}

proof fn lemma_mask(x: u64, w: u64, k: u64)
    requires 1 <= w <= 64, k < 64
    ensures ({ let mask = (((1u128 << (w as u128)) - 1) as u64); bit64(x & mask, k as int) == (k < w && bit64(x, k as int)) })
{
    assert(1 <= w <= 64 && k < 64 ==> ((((x & ((((1u128 << (w as u128)) - 1u128) as u64))) >> k) & 1u64 == 1u64) == (k < w && ((x >> k) & 1u64 == 1u64)))) by (bit_vector);
}

struct BitPack;
impl BitPack {
    fn unpack_ints(
        stream: &mut ByteStreamReadBuffer,
        min: i64,
        max: i64,
        output: &mut VecDeque<RecordValue>,
    ) -> (r: Result<()>)
        requires old(stream).wf(), min < max
        ensures
            final(stream).wf(),
            r is Ok,
            exists|w: int| 1 <= w <= 64 && ({
                    let k = old(stream).rest().len() as int / w;
                    &&& #[trigger] pow2(w - 1) <= (max as int) - (min as int)
                    &&& (w == 64 || (max as int) - (min as int) < pow2(w))
                    &&& final(output)@.len() == old(output)@.len() + k
                    &&& final(stream).rest() =~= old(stream).rest().subrange(k * w, old(stream).rest().len() as int)
                    &&& forall|j: int| 0 <= j < old(output)@.len() ==> final(output)@[j] == old(output)@[j]
                    &&& forall|j: int| 0 <= j < k ==> #[trigger] final(output)@[old(output)@.len() + j]
                            == RecordValue::Integer((chunk_val(chunk(old(stream).rest(), j, w)) as i128 + min as i128) as i64)
                }),
    {
        let range = max as i128 - min as i128;
        let lg = shim_i128_ilog2(range);
        proof {
            lemma_pow2_64();
            if lg >= 64 { lemma_pow2_mono(64, lg as int); }
        }
        let bits = lg as usize + 1;
        proof { assert(1u128 << (bits as u128) >= 1u128) by (bit_vector) requires 1 <= bits <= 64; 
                assert((1u128 << bits) == (1u128 << (bits as u128))) by (bit_vector); }
        let mask = ((1_u128 << bits) - 1) as u64;
        let ghost r0 = stream.rest();
        let ghost out0 = output@;
        let ghost n: int = 0;
        while let Some(uint) = stream.extract(bits)
            invariant
                1 <= bits <= 64, stream.wf(),
                mask == (((1u128 << (bits as u128)) - 1) as u64),
                0 <= n, n * bits <= r0.len(),
                stream.rest() =~= r0.subrange(n * bits, r0.len() as int),
                output@.len() == out0.len() + n,
                forall|j: int| 0 <= j < out0.len() ==> output@[j] == out0[j],
                forall|j: int| 0 <= j < n ==> #[trigger] output@[out0.len() + j]
                        == RecordValue::Integer((chunk_val(chunk(r0, j, bits as int)) as i128 + min as i128) as i64),
            ensures
                stream.wf(), 0 <= n, n * bits <= r0.len(),
                stream.rest() =~= r0.subrange(n * bits, r0.len() as int),
                stream.rest().len() < bits,
                output@.len() == out0.len() + n,
                forall|j: int| 0 <= j < out0.len() ==> output@[j] == out0[j],
                forall|j: int| 0 <= j < n ==> #[trigger] output@[out0.len() + j]
                        == RecordValue::Integer((chunk_val(chunk(r0, j, bits as int)) as i128 + min as i128) as i64),
            decreases stream.rest().len()
        {
            let int_v = (uint & mask) as i128 + min as i128;
            output.push_back(RecordValue::Integer(int_v as i64));
            proof {
                let x = uint & mask;
                let c = chunk(r0, n, bits as int);
                assert forall|k: int| 0 <= k < 64 implies bit64(x, k) == (k < c.len() && c[k]) by {
                    lemma_mask(uint, bits as u64, k as u64);
                }
                assert(holds_bits(x, c));
                lemma_chunk_val(x, c);
                assert((n + 1) * bits == n * bits + bits) by (nonlinear_arith);
                n = n + 1;
            }
        }
        proof {
            let w = bits as int;
            let k = r0.len() as int / w;
            // loop exit: fewer than `bits` bits left
            assert(r0.len() - n * w < w);
            assert(n == k) by (nonlinear_arith) requires 0 <= n, n * w <= r0.len(), r0.len() - n * w < w, w >= 1, k == r0.len() as int / w;
            assert(pow2(w - 1) <= max as int - min as int);
        }
        Ok(())
    }
}
spec fn pow2(e: int) -> int decreases e { if e <= 0 { 1 } else { 2 * pow2(e - 1) } }
}
fn main(){}
