use vstd::prelude::*;
use vstd::std_specs::ops::*;
verus! {
pub axiom fn f64_ops_uninterpreted()
    ensures
        (forall|a: f64, b: f64| #[trigger] a.mul_req(b)),
        (forall|a: f64, b: f64| #[trigger] a.add_req(b)),
        (forall|a: f64, b: f64| #[trigger] a.sub_req(b)),
        (forall|a: f64, b: f64| #[trigger] a.div_req(b)),
        <f64 as MulSpec<f64>>::obeys_mul_spec(),
        <f64 as AddSpec<f64>>::obeys_add_spec(),
        <f64 as SubSpec<f64>>::obeys_sub_spec(),
        <f64 as DivSpec<f64>>::obeys_div_spec();

fn m2(a: f64, b: f64, c: f64) -> (r: f64)
    ensures r == a.mul_spec(b).mul_spec(c)
{
    proof { f64_ops_uninterpreted(); }
    a * b * c
}
fn tp(x: f64, y: f64, z: f64, r0: f64, r3: f64, r6: f64, t: f64) -> (r: f64)
    ensures r == r0.mul_spec(x).add_spec(r3.mul_spec(y)).add_spec(r6.mul_spec(z)).add_spec(t)
{
    proof { f64_ops_uninterpreted(); }
    let nx = r0 * x + r3 * y + r6 * z;
    nx + t
}
}
fn main(){}
