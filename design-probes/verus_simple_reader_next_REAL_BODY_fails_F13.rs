use vstd::prelude::*;
use std::collections::VecDeque;
verus! {
pub enum Error { Invalid, Read, Write, Internal, NotImplemented }
pub type Result<T> = std::result::Result<T, Error>;
impl Error { pub fn internal<T>(desc: &str) -> (r: Result<T>) ensures r is Err, r->Err_0 is Internal { Err(Error::Internal) } }
pub struct Point { pub row: i64 }
pub struct PointCloud { pub records: u64 }

pub struct QueueReader { pub avail: Ghost<nat>, pub pos: Ghost<int>, pub len: Ghost<int>, pub failed: Ghost<bool> }
impl QueueReader {
    pub open spec fn wf(&self) -> bool { 0 <= self.pos@ <= self.len@ }
    #[verifier::external_body]
    pub fn available(&self) -> (r: usize) ensures r as nat == self.avail@ { unimplemented!() }
    /// a successful advance may complete zero points (index/ignored packet, value straddling packets)
    #[verifier::external_body]
    pub fn advance(&mut self) -> (r: Result<()>)
        requires old(self).wf()
        ensures final(self).wf(), final(self).len@ == old(self).len@,
            r is Ok ==> final(self).pos@ > old(self).pos@ && final(self).avail@ >= old(self).avail@ && final(self).failed@ == old(self).failed@,
            r is Err ==> final(self).failed@,
    { unimplemented!() }
}
#[verifier::external_body]
fn vec_take_all(v: &mut Vec<Point>) -> (r: Vec<Point>) ensures r@ == old(v)@, final(v)@.len() == 0 { std::mem::take(v) }
fn convert_to_cartesian(p: &mut Point) {}

pub struct PointCloudReaderSimple {
    pc: PointCloud,
    queue_reader: QueueReader,
    s2c: bool,
    read: u64,
    points: VecDeque<Point>,
    buffer: Vec<Point>,
    pop_failed: Ghost<bool>,
}
impl PointCloudReaderSimple {
    spec fn wf(&self) -> bool { self.queue_reader.wf() }
    #[verifier::external_body]
    fn pop_point(&mut self) -> (r: Result<Point>)
        requires old(self).wf()
        ensures final(self).wf(), final(self).queue_reader.len@ == old(self).queue_reader.len@,
            final(self).queue_reader.failed@ == old(self).queue_reader.failed@, final(self).pc.records == old(self).pc.records,
            final(self).read == old(self).read, final(self).points@ == old(self).points@, final(self).buffer@ == old(self).buffer@,
            r is Err ==> final(self).pop_failed@, r is Ok ==> final(self).pop_failed@ == old(self).pop_failed@,
    { unimplemented!() }

    /// Returns the next available point or None if the end was reached.
    #[verifier::loop_isolation(false)]
    fn next(&mut self) -> (r: Option<Result<Point>>)
        requires old(self).wf(), !old(self).queue_reader.failed@, !old(self).pop_failed@
        ensures
            // C05: the simple iterator fails only where the raw iterator fails (a failed advance) or on an invalid state value
            (r matches Some(Err(_))) ==> (final(self).queue_reader.failed@ || final(self).pop_failed@),
    {
        // Already read all points?
        if self.read >= self.pc.records {
            return None;
        }

        // Is there a point available in the output queue?
        if let Some(point) = self.points.pop_front() {
            self.read += 1;
            return Some(Ok(point));
        }

        // Refill queues with raw point values
        if let Err(err) = self.queue_reader.advance() {
            return Some(Err(err));
        }

        // Read raw point values as simple point, add to buffer
        let available = self.queue_reader.available();
        self.buffer.reserve(available);
        for _ in 0..available
            invariant self.queue_reader.wf(), !self.queue_reader.failed@, !self.pop_failed@, self.read < self.pc.records,
        {
            let p = match self.pop_point() {
                Ok(p) => p,
                Err(err) => return Some(Err(err)),
            };
            self.buffer.push(p);
        }

        // Move points from buffer to output queue
        self.points.reserve(available);
        for p in vec_take_all(&mut self.buffer) {
            self.points.push_back(p);
        }

        // Get and return one of the new points
        if let Some(point) = self.points.pop_front() {
            self.read += 1;
            Some(Ok(point))
        } else {
            Some(Error::internal(
                "Cannot read next point because of logic error",
            ))
        }
    }
}
}
fn main() {}
