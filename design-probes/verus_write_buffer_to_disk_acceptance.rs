use vstd::prelude::*;
use std::collections::VecDeque;
verus! {
pub struct IoError { pub kind: u8 }
pub enum Error { Invalid, Read, Write, Internal, NotImplemented }
pub type Result<T> = std::result::Result<T, Error>;
impl Error {
    pub fn invalid<T>(desc: &str) -> (r: Result<T>) ensures r is Err { Err(Error::Invalid) }
    pub fn internal<T>(desc: &str) -> (r: Result<T>) ensures r is Err { Err(Error::Internal) }
}
pub trait Converter<T> {
    fn write_err(self, context: &str) -> Result<T>;
    fn invalid_err(self, context: &str) -> Result<T>;
    fn internal_err(self, context: &str) -> Result<T>;
}
impl<T, E> Converter<T> for std::result::Result<T, E> {
    fn write_err(self, context: &str) -> Result<T> { match self { Ok(v) => Ok(v), Err(_) => Err(Error::Write) } }
    fn invalid_err(self, context: &str) -> Result<T> { match self { Ok(v) => Ok(v), Err(_) => Err(Error::Invalid) } }
    fn internal_err(self, context: &str) -> Result<T> { match self { Ok(v) => Ok(v), Err(_) => Err(Error::Internal) } }
}
impl<T> Converter<T> for Option<T> {
    fn write_err(self, context: &str) -> Result<T> { match self { Some(v) => Ok(v), None => Err(Error::Write) } }
    fn invalid_err(self, context: &str) -> Result<T> { match self { Some(v) => Ok(v), None => Err(Error::Invalid) } }
    fn internal_err(self, context: &str) -> Result<T> { match self { Some(v) => Ok(v), None => Err(Error::Internal) } }
}
pub struct LStream { pub data: Ghost<Seq<u8>>, pub pos: Ghost<int> }
impl LStream {
    #[verifier::external_body]
    pub fn write_all(&mut self, buf: &[u8]) -> (r: std::result::Result<(), IoError>) { unimplemented!() }
    #[verifier::external_body]
    pub fn align(&mut self) -> (r: Result<()>) { unimplemented!() }
}
pub enum RecordValue { Single(f32), Double(f64), ScaledInteger(i64), Integer(i64) }
pub enum RecordDataType {
    Single { min: Option<f32>, max: Option<f32> },
    Double { min: Option<f64>, max: Option<f64> },
    ScaledInteger { min: i64, max: i64, scale: f64, offset: f64 },
    Integer { min: i64, max: i64 },
}
pub struct ByteStreamWriteBuffer { buffer: Vec<u8>, last_byte_bit: usize }
impl ByteStreamWriteBuffer {
    #[verifier::external_body] pub fn get_full_bytes(&mut self) -> Vec<u8> { unimplemented!() }
    #[verifier::external_body] pub fn get_all_bytes(&mut self) -> Vec<u8> { unimplemented!() }
    #[verifier::external_body] pub fn full_bytes(&self) -> usize { 0 }
    #[verifier::external_body] pub fn all_bytes(&self) -> usize { 0 }
}
impl RecordDataType {
    #[verifier::external_body]
    pub fn write(&self, value: &RecordValue, buffer: &mut ByteStreamWriteBuffer) -> Result<()> { Ok(()) }
}
pub struct Record { pub data_type: RecordDataType }
pub type RawValues = Vec<RecordValue>;
pub struct CompressedVectorSectionHeader { section_id: u8, pub section_length: u64, pub data_offset: u64, pub index_offset: u64 }
pub struct DataPacketHeader { pub comp_restart_flag: bool, pub packet_length: u64, pub bytestream_count: u16 }
impl DataPacketHeader {
    pub const SIZE: usize = 6;
    #[verifier::external_body]
    pub fn write(&self, writer: &mut LStream) -> Result<()> { Ok(()) }
}
#[verifier::external_body]
fn shim_u16_to_le_bytes(x: u16) -> [u8; 2] { x.to_le_bytes() }

pub struct PointCloudWriter<'a> {
    writer: &'a mut LStream,
    section_header: CompressedVectorSectionHeader,
    prototype: Vec<Record>,
    point_count: u64,
    buffer: VecDeque<RawValues>,
    max_points_per_packet: usize,
    byte_streams: Vec<ByteStreamWriteBuffer>,
}
impl<'a> PointCloudWriter<'a> {
    fn write_buffer_to_disk(&mut self, last_flush: bool) -> Result<()> {
        // Add points from buffer into byte streams
        let packet_points = self.max_points_per_packet.min(self.buffer.len());
        let proto_len = self.prototype.len();
        for _ in 0..packet_points {
            let p = self
                .buffer
                .pop_front()
                .internal_err("Failed to get next point for writing")?;
            for i in 0..self.prototype.len() {
                let prototype = &self.prototype[i];
                let raw_value = p
                    .get(i)
                    .invalid_err("Prototype is bigger than number of provided values")?;
                prototype
                    .data_type
                    .write(raw_value, &mut self.byte_streams[i])?;
            }
        }

        // Check and prepare buffer sizes
        let mut sum_bs_sizes = 0;
        let mut bs_sizes = Vec::with_capacity(proto_len);
        for bs in &self.byte_streams {
            let bs_size = if last_flush {
                bs.all_bytes()
            } else {
                bs.full_bytes()
            };
            sum_bs_sizes += bs_size;
            bs_sizes.push(bs_size as u16);
        }

        // Only write packet if there is actual data!
        if sum_bs_sizes > 0 {
            let mut packet_length = DataPacketHeader::SIZE + proto_len * 2 + sum_bs_sizes;
            if packet_length % 4 != 0 {
                let missing = 4 - (packet_length % 4);
                packet_length += missing;
            }
            if packet_length > u16::MAX as usize {
                Error::internal("Invalid data packet length detected")?
            }

            // Add data packet length to section length for later
            self.section_header.section_length += packet_length as u64;

            // Write data packet header
            DataPacketHeader {
                comp_restart_flag: false,
                packet_length: packet_length as u64,
                bytestream_count: proto_len as u16,
            }
            .write(&mut self.writer)?;

            // Write bytestream sizes as u16 values
            for size in bs_sizes {
                let bytes = shim_u16_to_le_bytes(size);
                self.writer
                    .write_all(&bytes)
                    .write_err("Cannot write data packet buffer size")?;
            }

            // Write actual bytestream buffers with data
            for bs in &mut self.byte_streams {
                let data = if last_flush {
                    bs.get_all_bytes()
                } else {
                    bs.get_full_bytes()
                };
                self.writer
                    .write_all(&data)
                    .write_err("Cannot write bytestream buffer into data packet")?;
            }
        }

        self.writer
            .align()
            .write_err("Failed to align writer on next 4-byte offset after writing data packet")?;

        Ok(())
    }
}
}
fn main() {}
