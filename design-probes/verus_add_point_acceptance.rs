use vstd::prelude::*;
use std::collections::VecDeque;
verus! {
pub enum Error { Invalid, Read, Write, Internal, NotImplemented }
pub type Result<T> = std::result::Result<T, Error>;
impl Error {
    pub fn invalid<T>(desc: &str) -> (r: Result<T>) ensures r is Err { Err(Error::Invalid) }
    pub fn internal<T>(desc: &str) -> (r: Result<T>) ensures r is Err { Err(Error::Internal) }
}
pub trait Converter<T> {
    fn internal_err(self, context: &str) -> Result<T>;
}
impl<T> Converter<T> for Option<T> {
    fn internal_err(self, context: &str) -> Result<T> { match self { Some(v) => Ok(v), None => Err(Error::Internal) } }
}
pub struct Opaque { x: u8 }
pub enum RecordName { CartesianX, CartesianY, CartesianZ, SphericalRange, SphericalAzimuth, SphericalElevation, RowIndex, ColumnIndex, ReturnIndex, ReturnCount, Intensity, Unknown { namespace: Opaque, name: Opaque } }
impl PartialEq for RecordName { #[verifier::external_body] fn eq(&self, o: &Self) -> (r: bool) ensures r == (*self == *o) { unimplemented!() } }
pub enum RecordValue { Single(f32), Double(f64), ScaledInteger(i64), Integer(i64) }
pub enum RecordDataType {
    Single { min: Option<f32>, max: Option<f32> },
    Double { min: Option<f64>, max: Option<f64> },
    ScaledInteger { min: i64, max: i64, scale: f64, offset: f64 },
    Integer { min: i64, max: i64 },
}
pub struct Record { pub name: RecordName, pub data_type: RecordDataType }
pub type RawValues = Vec<RecordValue>;
impl RecordValue {
    #[verifier::external_body] pub fn to_f64(&self, dt: &RecordDataType) -> Result<f64> { unimplemented!() }
    #[verifier::external_body] pub fn to_i64(&self, dt: &RecordDataType) -> Result<i64> { unimplemented!() }
}
pub struct CartesianBounds { pub x_min: Option<f64>, pub x_max: Option<f64>, pub y_min: Option<f64>, pub y_max: Option<f64>, pub z_min: Option<f64>, pub z_max: Option<f64> }
pub struct IndexBounds { pub row_min: Option<i64>, pub row_max: Option<i64>, pub column_min: Option<i64>, pub column_max: Option<i64>, pub return_min: Option<i64>, pub return_max: Option<i64> }
#[verifier::external_body]
fn update_min<T>(value: T, min: &mut Option<T>) { unimplemented!() }
#[verifier::external_body]
fn update_max<T>(value: T, min: &mut Option<T>) { unimplemented!() }
#[verifier::external_body]
fn fmt_opaque() -> &'static str { "" }

pub struct PointCloudWriter {
    prototype: Vec<Record>,
    point_count: u64,
    buffer: VecDeque<RawValues>,
    max_points_per_packet: usize,
    cartesian_bounds: Option<CartesianBounds>,
    index_bounds: Option<IndexBounds>,
}
impl PointCloudWriter {
    #[verifier::external_body]
    fn write_buffer_to_disk(&mut self, last_flush: bool) -> Result<()> { Ok(()) }

    pub fn add_point(&mut self, values: RawValues) -> Result<()> {
        if values.len() != self.prototype.len() {
            Error::invalid("Number of values does not match prototype length")?
        }

        // Go over all values to validate and extract min/max values
        for i in 0..self.prototype.len() {
            let p = &self.prototype[i];
            let value = &values[i];

            // Ensure that each value fits the corresponding prototype entry
            if !match p.data_type {
                RecordDataType::Single { .. } => matches!(value, RecordValue::Single(..)),
                RecordDataType::Double { .. } => matches!(value, RecordValue::Double(..)),
                RecordDataType::ScaledInteger { .. } => {
                    matches!(value, RecordValue::ScaledInteger(..))
                }
                RecordDataType::Integer { .. } => matches!(value, RecordValue::Integer(..)),
            } {
                Error::invalid(fmt_opaque())?
            }

            // Update cartesian bounds
            if p.name == RecordName::CartesianX
                || p.name == RecordName::CartesianY
                || p.name == RecordName::CartesianZ
            {
                let value = values[i].to_f64(&p.data_type)?;
                let bounds = self
                    .cartesian_bounds
                    .as_mut()
                    .internal_err("Cannot find cartesian bounds")?;
                if p.name == RecordName::CartesianX {
                    update_min(value, &mut bounds.x_min);
                    update_max(value, &mut bounds.x_max);
                }
                if p.name == RecordName::CartesianY {
                    update_min(value, &mut bounds.y_min);
                    update_max(value, &mut bounds.y_max);
                }
                if p.name == RecordName::CartesianZ {
                    update_min(value, &mut bounds.z_min);
                    update_max(value, &mut bounds.z_max);
                }
            }

            // Update index bounds
            if p.name == RecordName::RowIndex
                || p.name == RecordName::ColumnIndex
                || p.name == RecordName::ReturnIndex
            {
                let value = values[i].to_i64(&p.data_type)?;
                let bounds = self
                    .index_bounds
                    .as_mut()
                    .internal_err("Cannot find index bounds")?;
                if p.name == RecordName::RowIndex {
                    update_min(value, &mut bounds.row_min);
                    update_max(value, &mut bounds.row_max);
                }
            }
        }

        // Add new point to output buffer
        self.buffer.push_back(values);
        self.point_count += 1;

        // Empty buffer and write points when its full
        if self.buffer.len() >= self.max_points_per_packet {
            self.write_buffer_to_disk(false)?;
        }

        Ok(())
    }
}
}
fn main() {}
