use vstd::prelude::*;
verus! {

pub enum SeekFrom { Start(u64), End(i64), Current(i64) }
pub struct IoError { pub kind: u8 }

// ---------------- device model (environment assumption) ----------------
pub struct Dev { pub data: Vec<u8>, pub pos: u64 }

impl Dev {
    #[verifier::external_body]
    pub fn seek(&mut self, s: SeekFrom) -> (r: Result<u64, IoError>)
        requires s is Start || (s is End && s->End_0 == 0),
        ensures match r {
            Ok(p) => final(self).data@ == old(self).data@ && final(self).pos == p
                && (s is Start ==> p == s->Start_0) && (s is End ==> p == old(self).data@.len()),
            Err(_) => final(self).data@ == old(self).data@ },
    { unimplemented!() }

    #[verifier::external_body]
    pub fn stream_position(&mut self) -> (r: Result<u64, IoError>)
        ensures match r { Ok(p) => final(self).data@ == old(self).data@ && final(self).pos == old(self).pos && p == old(self).pos, Err(_) => true },
    { unimplemented!() }

    #[verifier::external_body]
    pub fn write_all(&mut self, buf: &[u8]) -> (r: Result<(), IoError>)
        requires old(self).pos <= old(self).data@.len(),
        ensures match r {
            Ok(_) => final(self).pos == old(self).pos + buf@.len()
                && final(self).data@ =~= old(self).data@.subrange(0, old(self).pos as int) + buf@
                    + (if old(self).pos + buf@.len() <= old(self).data@.len() { old(self).data@.subrange(old(self).pos + buf@.len(), old(self).data@.len() as int) } else { Seq::<u8>::empty() }),
            Err(_) => true },
    { unimplemented!() }

    #[verifier::external_body]
    pub fn read_exact(&mut self, buf: &mut Vec<u8>) -> (r: Result<(), IoError>)
        ensures match r {
            Ok(_) => final(self).data@ == old(self).data@ && final(buf)@.len() == old(buf)@.len()
                && old(self).pos + old(buf)@.len() <= old(self).data@.len()
                && final(self).pos == old(self).pos + old(buf)@.len()
                && final(buf)@ =~= old(self).data@.subrange(old(self).pos as int, old(self).pos + old(buf)@.len()),
            Err(_) => final(self).data@ == old(self).data@ && final(buf)@.len() == old(buf)@.len() },
    { unimplemented!() }

    #[verifier::external_body]
    pub fn flush(&mut self) -> (r: Result<(), IoError>)
        ensures match r { Ok(_) => final(self).data@ == old(self).data@ && final(self).pos == old(self).pos, Err(_) => true },
    { unimplemented!() }
}

pub uninterp spec fn crc32c(s: Seq<u8>) -> u32;
pub uninterp spec fn be4(x: u32) -> Seq<u8>;
pub axiom fn be4_len(x: u32) ensures be4(x).len() == 4;

pub struct Crc32 { table: [u32; 256] }
impl Crc32 {
    #[verifier::external_body]
    pub fn calculate(&mut self, data: &[u8]) -> (r: u32)
        ensures r == crc32c(data@)
    { 0 }
}
#[verifier::external_body]
fn shim_u32_to_be_bytes(x: u32) -> (r: [u8; 4])
    ensures r@ == be4(x)
{ x.to_be_bytes() }

pub const PAGE_SIZE: u64 = 1024;
pub const CRC_SIZE: u64 = 4;
pub const PAGE_PAYLOAD_SIZE: usize = (PAGE_SIZE - CRC_SIZE) as usize;

// ---------------- page-format specification ----------------
pub open spec fn page(d: Seq<u8>, k: int) -> Seq<u8> { d.subrange(1024 * k, 1024 * k + 1024) }
pub open spec fn sealed_page(pg: Seq<u8>) -> bool { pg.len() == 1024 && pg.subrange(1020, 1024) == be4(crc32c(pg.subrange(0, 1020))) }
pub open spec fn all_sealed(d: Seq<u8>) -> bool { forall|k: int| 0 <= k < d.len() / 1024 ==> sealed_page(#[trigger] page(d, k)) }


pub const CHECKSUM_SIZE: u64 = 4;
pub const ALIGNMENT_SIZE: u64 = 4;
pub const MAX_PAGE_SIZE: u64 = 1024 * 1024;

pub struct PagedReader {
    pub page_size: u64,
    pub phy_file_size: u64,
    pub log_file_size: u64,
    pub pages: u64,
    pub reader: Dev,
    pub offset: u64,
    pub page_num: Option<u64>,
    pub page_buffer: Vec<u8>,
    pub crc: Crc32,
}

pub open spec fn pagen(d: Seq<u8>, ps: int, k: int) -> Seq<u8> { d.subrange(ps * k, ps * k + ps) }
pub open spec fn sealedn(pg: Seq<u8>, ps: int) -> bool { pg.len() == ps && pg.subrange(ps - 4, ps) == be4(crc32c(pg.subrange(0, ps - 4))) }

impl PagedReader {
    pub open spec fn wf(&self) -> bool {
        &&& 4 < self.page_size <= MAX_PAGE_SIZE
        &&& self.phy_file_size == self.reader.data@.len()
        &&& self.phy_file_size > 0
        &&& self.phy_file_size == self.pages * self.page_size
        &&& self.log_file_size == self.pages * (self.page_size - 4)
        &&& self.page_buffer@.len() == self.page_size
        &&& self.offset <= self.log_file_size + 4
        &&& (self.page_num matches Some(k) ==> k < self.pages
                && self.page_buffer@ == pagen(self.reader.data@, self.page_size as int, k as int)
                && sealedn(self.page_buffer@, self.page_size as int))
    }
    /// logical byte i of the file
    pub open spec fn lbyte(&self, i: int) -> u8 {
        self.reader.data@[(i / (self.page_size - 4)) * self.page_size + i % (self.page_size - 4)]
    }

    fn seek_physical(&mut self, offset: u64) -> (r: Result<u64, IoError>)
        requires old(self).wf(),
        ensures final(self).wf(), final(self).reader == old(self).reader, final(self).page_num == old(self).page_num,
            final(self).page_buffer == old(self).page_buffer,
            match r {
                Ok(l) => offset < old(self).phy_file_size && l == final(self).offset
                    && l == offset - (offset / old(self).page_size) * 4,
                Err(_) => offset >= old(self).phy_file_size && final(self).offset == old(self).offset },
    {
        if offset >= self.phy_file_size {
            return Err(IoError { kind: 3 });
        }

        let pages_before = offset / self.page_size;
        proof {
            let ps = self.page_size as int;
            let o = offset as int;
            let pb = pages_before as int;
            vstd::arithmetic::div_mod::lemma_fundamental_div_mod(o, ps);
            vstd::arithmetic::div_mod::lemma_mod_bound(o, ps);
            assert(ps * pb == pb * ps) by (nonlinear_arith);
            assert(pb * ps <= o < pb * ps + ps);
            assert(pb < self.pages) by (nonlinear_arith)
                requires pb * ps <= o, o < self.pages * ps, ps > 0, pb >= 0, self.pages >= 0;
            assert(pb * 4 <= pb * ps) by (nonlinear_arith) requires ps >= 4, pb >= 0;
            assert(o - pb * 4 <= self.pages * (ps - 4) + 4) by (nonlinear_arith)
                requires pb * ps <= o, o < pb * ps + ps, pb + 1 <= self.pages, ps > 4, pb >= 0;
        }
        self.offset = offset - pages_before * CHECKSUM_SIZE;
        Ok(self.offset)
    }

    fn read(&mut self, buf: &mut [u8]) -> (r: Result<usize, IoError>)
        requires old(self).wf(),
        ensures final(self).wf(), final(self).reader.data@ == old(self).reader.data@,
            final(self).page_size == old(self).page_size, final(self).pages == old(self).pages,
            final(buf)@.len() == old(buf)@.len(),
            match r {
                Ok(n) => ({
                    let pay = old(self).page_size - 4;
                    let page = old(self).offset as int / pay;
                    if page >= old(self).pages { n == 0 && final(self).offset == old(self).offset && final(buf)@ == old(buf)@ }
                    else {
                        &&& n == (if old(buf)@.len() <= pay - old(self).offset as int % pay { old(buf)@.len() as int } else { pay - old(self).offset as int % pay })
                        &&& final(self).offset == old(self).offset + n
                        &&& sealedn(pagen(old(self).reader.data@, old(self).page_size as int, page), old(self).page_size as int)
                        &&& forall|i: int| 0 <= i < n ==> final(buf)@[i] == old(self).lbyte(old(self).offset + i)
                        &&& forall|i: int| n <= i < old(buf)@.len() ==> final(buf)@[i] == old(buf)@[i]
                    }
                }),
                Err(_) => final(self).offset == old(self).offset,
            }
    {
        let page = self.offset / (self.page_size - CHECKSUM_SIZE);
        if page >= self.pages {
            return Ok(0);
        }
        if self.page_num != Some(page) {
            self.read_page(page)?;
        }
        let page_offset = self.offset % (self.page_size - CHECKSUM_SIZE);
        let page_readable = self.page_size - CHECKSUM_SIZE - page_offset;
        let read_size = usize::min(buf.len(), page_readable as usize);
        proof {
            let pay = (self.page_size - 4) as int;
            let o = self.offset as int;
            vstd::arithmetic::div_mod::lemma_fundamental_div_mod(o, pay);
            vstd::arithmetic::div_mod::lemma_mod_bound(o, pay);
            assert(pay * (o / pay) == (o / pay) * pay) by (nonlinear_arith);
            assert((page + 1) * pay <= self.pages * pay) by (nonlinear_arith) requires page + 1 <= self.pages, pay > 0;
            assert(page * self.page_size + self.page_size <= self.pages * self.page_size) by (nonlinear_arith)
                requires page + 1 <= self.pages, self.page_size >= 0;
            assert(self.page_size as int * (page as int) == page * self.page_size) by (nonlinear_arith);
            assert(page as int == o / pay);
            assert(page_offset as int == o % pay);
            assert((page + 1) * pay == page * pay + pay) by (nonlinear_arith);
            assert(pay * (o / pay) == page * pay) by (nonlinear_arith) requires page as int == o / pay;
            assert(read_size <= pay - o % pay);
            assert(o + read_size <= (page + 1) * pay);
            assert(self.pages * pay == self.log_file_size);
        }
        let ghost pb = self.page_buffer@;
        buf[..read_size].copy_from_slice(
            &self.page_buffer[page_offset as usize..page_offset as usize + read_size],
        );
        self.offset += read_size as u64;
        proof {
            let ps = self.page_size as int;
            let pay = ps - 4;
            let o = old(self).offset as int;
            assert(pb == pagen(self.reader.data@, ps, page as int));
            assert forall|i: int| 0 <= i < read_size implies buf@[i] == old(self).lbyte(o + i) by {
                vstd::arithmetic::div_mod::lemma_fundamental_div_mod(o + i, pay);
                vstd::arithmetic::div_mod::lemma_fundamental_div_mod_converse(o + i, pay, page as int, o % pay + i);
                assert(buf@[i] == pb[page_offset as int + i]);
                assert(pb[page_offset as int + i] == self.reader.data@[ps * (page as int) + page_offset as int + i]);
                assert(ps * (page as int) == (page as int) * ps) by (nonlinear_arith);
            }
        }
        Ok(read_size)
    }

    fn read_page(&mut self, page: u64) -> (r: Result<(), IoError>)
        requires old(self).wf(),
        ensures final(self).wf(), final(self).offset == old(self).offset, final(self).reader.data@ == old(self).reader.data@,
            final(self).page_size == old(self).page_size, final(self).pages == old(self).pages,
            match r { Ok(_) => page < old(self).pages && final(self).page_num == Some(page), Err(_) => true },
    {
        if page >= self.pages {
            let max = self.pages - 1;
            return Err(IoError { kind: 1 });
        }
        self.page_num = None; // FIX F15
        proof {
            assert(page * self.page_size + self.page_size <= self.pages * self.page_size) by (nonlinear_arith)
                requires page + 1 <= self.pages, self.page_size >= 0;
            assert(page * self.page_size >= 0) by (nonlinear_arith) requires page >= 0, self.page_size >= 0;
        }
        let offset = page * self.page_size;
        self.reader.seek(SeekFrom::Start(offset))?;
        self.reader.read_exact(&mut self.page_buffer)?;
        let data_size = self.page_size - CHECKSUM_SIZE;
        let expected_checksum = &self.page_buffer[data_size as usize..];

        let crc = self.crc.calculate(&self.page_buffer[0..data_size as usize]);
        let calculated_checksum = shim_u32_to_be_bytes(crc);

        if !slice_eq4(expected_checksum, &calculated_checksum) {
            self.page_num = None;
            return Err(IoError { kind: 2 });
        }

        proof {
            be4_len(crc);
            let ps = self.page_size as int;
            assert(self.page_buffer@ =~= pagen(self.reader.data@, ps, page as int)) by {
                assert(ps * (page as int) == (page as int) * (self.page_size as int)) by (nonlinear_arith) requires ps == self.page_size as int;
            }
            assert(self.page_buffer@.subrange(ps - 4, ps) =~= expected_checksum@);
        }
        self.page_num = Some(page);
        Ok(())
    }
}
#[verifier::external_body]
fn slice_eq4(a: &[u8], b: &[u8; 4]) -> (r: bool)
    ensures r == (a@ == b@)
{ a == b }
}
fn main() {}
