use vstd::prelude::*;
verus! {

spec fn bit8(x: u8, k: int) -> bool
    recommends 0 <= k < 8
{ (x >> (k as u8)) & 1u8 == 1u8 }

/// bit i (LSB first) of a byte sequence
spec fn bit_at(s: Seq<u8>, i: int) -> bool
    recommends 0 <= i < 8 * s.len()
{ bit8(s[i / 8], i % 8) }


proof fn lemma_or_bit(x: u8, k: usize, j: u8)
    requires k < 8, j < 8
    ensures bit8(x | (1u8 << k), j as int) == (bit8(x, j as int) || j == k),
            bit8(x | 0u8, j as int) == bit8(x, j as int),
            !bit8(0u8, j as int),
{
    assert(k < 8 && j < 8 ==> ((((x | (1u8 << k)) >> j) & 1u8 == 1u8) == (((x >> j) & 1u8 == 1u8) || j == k))) by (bit_vector);
    assert((x | 0u8) == x) by (bit_vector);
    assert(j < 8 ==> ((0u8 >> j) & 1u8) == 0u8) by (bit_vector);
}
proof fn lemma_mask_bit(d: u8, k: usize)
    requires k < 8
    ensures ((d & (1u8 << k)) != 0) == bit8(d, k as int)
{
    assert(k < 8 ==> (((d & (1u8 << k)) != 0) == ((d >> k) & 1u8 == 1u8))) by (bit_vector);
}


/// one iteration of the bit loop: `post` is `pre`, extended by one zero byte if position q needs it,
/// with bit q or-ed with `sb`; provided bit q and everything above it was clear in `pre`.
proof fn lemma_bit_step(pre: Seq<u8>, post: Seq<u8>, q: int, sb: bool)
    requires
        0 <= q, q < 8 * pre.len() + 8, pre.len() == (q + 7) / 8,
        forall|i: int| q <= i < 8 * pre.len() ==> !bit_at(pre, i),
        post =~= (if q / 8 >= pre.len() { pre.push(0u8) } else { pre })
            .update(q / 8, (if q / 8 >= pre.len() { 0u8 } else { pre[q / 8] }) | (if sb { 1u8 << ((q % 8) as usize) } else { 0u8 })),
    ensures
        post.len() == (q + 8) / 8,
        forall|i: int| 0 <= i < q ==> bit_at(post, i) == bit_at(pre, i),
        bit_at(post, q) == sb,
        forall|i: int| q < i < 8 * post.len() ==> !bit_at(post, i),
{
    let before = if q / 8 >= pre.len() { pre.push(0u8) } else { pre };
    let x = before[q / 8];
    let k: usize = (q % 8) as usize;
    assert forall|i: int| 0 <= i < 8 * before.len() implies
        #[trigger] bit_at(before, i) == (if i < 8 * pre.len() { bit_at(pre, i) } else { false }) by {
        if i < 8 * pre.len() { assert(before[i / 8] == pre[i / 8]); } else {
            assert(before[i / 8] == 0u8);
            lemma_or_bit(0u8, 0usize, (i % 8) as u8);
        }
    }
    assert forall|i: int| 0 <= i < 8 * post.len() implies
        #[trigger] bit_at(post, i) == (if i == q { sb } else { bit_at(before, i) }) by {
        if i / 8 == q / 8 {
            lemma_or_bit(x, k, (i % 8) as u8);
            assert((i == q) == ((i % 8) == k as int));
            assert(post[i / 8] == x | (if sb { 1u8 << k } else { 0u8 }));
            assert(!bit_at(before, q));
            if sb { } else { }
        } else { assert(post[i / 8] == before[i / 8]); }
    }
}

#[verifier::external_body]
fn vec_drain_prefix(v: &mut Vec<u8>, n: usize) -> (r: Vec<u8>)
    requires n <= old(v)@.len()
    ensures r@ == old(v)@.subrange(0, n as int), final(v)@ == old(v)@.subrange(n as int, old(v)@.len() as int)
{ v.drain(..n).collect() }
#[verifier::external_body]
fn vec_drain_all(v: &mut Vec<u8>) -> (r: Vec<u8>)
    ensures r@ == old(v)@, final(v)@.len() == 0
{ v.drain(..).collect() }

struct ByteStreamWriteBuffer {
    buffer: Vec<u8>,
    last_byte_bit: usize,
}

impl ByteStreamWriteBuffer {
    spec fn nbits(&self) -> int {
        if self.last_byte_bit == 0 { 8 * (self.buffer@.len() as int) } else { 8 * (self.buffer@.len() - 1) + self.last_byte_bit }
    }
    spec fn wf(&self) -> bool {
        &&& self.last_byte_bit < 8
        &&& (self.last_byte_bit != 0 ==> self.buffer@.len() > 0)
        &&& forall|i: int| self.nbits() <= i < 8 * self.buffer@.len() ==> !bit_at(self.buffer@, i)
    }
    /// abstract view: the bit string written so far
    spec fn bits(&self) -> Seq<bool> {
        Seq::new(self.nbits() as nat, |i: int| bit_at(self.buffer@, i))
    }

    fn new() -> (r: Self)
        ensures r.wf(), r.bits() =~= Seq::<bool>::empty()
    {
        Self {
            buffer: Vec::new(),
            last_byte_bit: 0,
        }
    }



    proof fn lemma_aligned(o: Self, n: Self, data: Seq<u8>, bits: usize)
        requires
            o.wf(), o.last_byte_bit == 0, bits <= 64, bits <= 8 * data.len(),
            forall|i: int| bits <= i < 8 * ((bits + 7) / 8) ==> !bit_at(data, i),
            n.buffer@ =~= o.buffer@ + data.subrange(0, ((bits + 7) / 8) as int),
            n.last_byte_bit == bits % 8,
        ensures
            n.wf(),
            n.bits() =~= o.bits() + Seq::new(bits as nat, |i: int| bit_at(data, i)),
    {
        let ob = o.buffer@;
        let nb = n.buffer@;
        assert(n.nbits() == 8 * ob.len() + bits);
        assert forall|i: int| 0 <= i < 8 * nb.len() implies
            #[trigger] bit_at(nb, i) == (if i < 8 * ob.len() { bit_at(ob, i) } else { bit_at(data, i - 8 * ob.len()) }) by {
            if i < 8 * ob.len() { assert(nb[i / 8] == ob[i / 8]); } else {
                assert(nb[i / 8] == data[i / 8 - ob.len()]);
                assert((i - 8 * ob.len()) / 8 == i / 8 - ob.len());
                assert((i - 8 * ob.len()) % 8 == i % 8);
            }
        }
    }

    proof fn lemma_unaligned(o: Self, n: Self, data: Seq<u8>, bits: usize)
        requires
            o.wf(), o.last_byte_bit != 0, bits <= 64,
            n.last_byte_bit == (o.last_byte_bit + bits) % 8,
            n.buffer@.len() == (o.nbits() + bits + 7) / 8,
            forall|i: int| o.nbits() + bits <= i < 8 * n.buffer@.len() ==> !bit_at(n.buffer@, i),
            forall|i: int| 0 <= i < o.nbits() ==> bit_at(n.buffer@, i) == bit_at(o.buffer@, i),
            forall|i: int| 0 <= i < bits ==> bit_at(n.buffer@, o.nbits() + i) == bit_at(data, i),
        ensures
            n.wf(),
            n.bits() =~= o.bits() + Seq::new(bits as nat, |i: int| bit_at(data, i)),
    {
        assert(n.nbits() == o.nbits() + bits);
    }

    fn add_bits(&mut self, data: &[u8], bits: usize)
        requires
            old(self).wf(),
            bits <= 8 * data@.len(),
            bits <= 64,
            old(self).buffer@.len() + 16 < usize::MAX,
            forall|i: int| bits <= i < 8 * ((bits + 7) / 8) ==> !bit_at(data@, i),
        ensures
            final(self).wf(),
            final(self).bits() =~= old(self).bits() + Seq::new(bits as nat, |i: int| bit_at(data@, i)),
    {
        if self.last_byte_bit == 0 {
            let to_append = (bits + 7) / 8; // Integer division with rounding up
            self.buffer.extend_from_slice(&data[..to_append]);
            self.last_byte_bit = bits % 8;
            proof { Self::lemma_aligned(*old(self), *self, data@, bits); }
        } else {
            let start_byte = self.buffer.len() - 1;
            let start_bit = self.last_byte_bit;
            let ghost p0: int = 8 * start_byte + start_bit;
            for b in 0..bits
                invariant
                    1 <= start_bit < 8,
                    bits <= 64, bits <= 8 * data@.len(),
                    p0 == 8 * start_byte + start_bit,
                    start_byte + 16 < usize::MAX,
                    start_byte == old(self).buffer@.len() - 1,
                    self.last_byte_bit == (start_bit + b) % 8,
                    self.buffer@.len() == (p0 + b + 7) / 8,
                    forall|i: int| p0 + b <= i < 8 * self.buffer@.len() ==> !bit_at(self.buffer@, i),
                    forall|i: int| 0 <= i < p0 ==> bit_at(self.buffer@, i) == bit_at(old(self).buffer@, i),
                    forall|i: int| 0 <= i < b ==> bit_at(self.buffer@, p0 + i) == bit_at(data@, i),
            {
                let ghost pre = self.buffer@;
                let source_byte = b / 8;
                let source_mask = 1 << (b % 8);
                let source_bit = (data[source_byte] & source_mask) != 0;
                let target_mask = if source_bit {
                    1 << self.last_byte_bit
                } else {
                    0
                };
                let target_byte = start_byte + ((start_bit + b) / 8);
                if target_byte >= self.buffer.len() {
                    self.buffer.push(0);
                }
                let ghost before = self.buffer@;
                self.buffer[target_byte] |= target_mask;
                self.last_byte_bit = (self.last_byte_bit + 1) % 8;
                proof {
                    lemma_mask_bit(data@[source_byte as int], (b % 8) as usize);
                    lemma_bit_step(pre, self.buffer@, p0 + b, source_bit);
                }
            }
            proof { Self::lemma_unaligned(*old(self), *self, data@, bits); }
        }
    }

    fn full_bytes(&self) -> (r: usize)
        requires self.wf()
        ensures r as int == self.nbits() / 8
    {
        let len = self.buffer.len();
        if self.last_byte_bit != 0 {
            len - 1
        } else {
            len
        }
    }

    fn all_bytes(&self) -> (r: usize)
        ensures r == self.buffer@.len()
    {
        self.buffer.len()
    }
}
}
fn main() {}
