use vstd::prelude::*;
use std::collections::VecDeque;
verus! {
pub struct IoError { pub kind: u8 }
pub enum Error { Invalid, Read, Write, Internal, NotImplemented }
pub type Result<T> = std::result::Result<T, Error>;
impl Error {
    pub fn invalid<T>(desc: &str) -> (r: Result<T>) ensures r is Err { Err(Error::Invalid) }
    pub fn internal<T>(desc: &str) -> (r: Result<T>) ensures r is Err { Err(Error::Internal) }
}
pub const WRONG_OFFSET: &'static str = "Wrong buffer offset detected";
pub trait Converter<T>: Sized {
    spec fn ok_spec(&self) -> bool;
    spec fn val_spec(&self) -> T;
    fn read_err(self, context: &str) -> (r: Result<T>)
        ensures (r is Ok) == self.ok_spec(), r is Ok ==> r->Ok_0 == self.val_spec();
    fn invalid_err(self, context: &str) -> (r: Result<T>)
        ensures (r is Ok) == self.ok_spec(), r is Ok ==> r->Ok_0 == self.val_spec();
    fn internal_err(self, context: &str) -> (r: Result<T>)
        ensures (r is Ok) == self.ok_spec(), r is Ok ==> r->Ok_0 == self.val_spec();
}
impl<T, E> Converter<T> for std::result::Result<T, E> {
    open spec fn ok_spec(&self) -> bool { self is Ok }
    open spec fn val_spec(&self) -> T { self->Ok_0 }
    fn read_err(self, context: &str) -> (r: Result<T>) { match self { Ok(v) => Ok(v), Err(_) => Err(Error::Read) } }
    fn invalid_err(self, context: &str) -> (r: Result<T>) { match self { Ok(v) => Ok(v), Err(_) => Err(Error::Invalid) } }
    fn internal_err(self, context: &str) -> (r: Result<T>) { match self { Ok(v) => Ok(v), Err(_) => Err(Error::Internal) } }
}
impl<T> Converter<T> for Option<T> {
    open spec fn ok_spec(&self) -> bool { self is Some }
    open spec fn val_spec(&self) -> T { self->Some_0 }
    fn read_err(self, context: &str) -> (r: Result<T>) { match self { Some(v) => Ok(v), None => Err(Error::Read) } }
    fn invalid_err(self, context: &str) -> (r: Result<T>) { match self { Some(v) => Ok(v), None => Err(Error::Invalid) } }
    fn internal_err(self, context: &str) -> (r: Result<T>) { match self { Some(v) => Ok(v), None => Err(Error::Internal) } }
}

// contract-only logical stream (PagedReader seen through its contract)
pub struct LStream { pub data: Ghost<Seq<u8>>, pub pos: Ghost<int> }
impl LStream {
    #[verifier::external_body]
    pub fn read_exact(&mut self, buf: &mut [u8]) -> (r: std::result::Result<(), IoError>)
        ensures final(self).data@ == old(self).data@, final(buf)@.len() == old(buf)@.len(),
            match r {
                Ok(_) => final(self).pos@ == old(self).pos@ + old(buf)@.len()
                    && old(self).pos@ + old(buf)@.len() <= old(self).data@.len()
                    && final(buf)@ =~= old(self).data@.subrange(old(self).pos@, old(self).pos@ + old(buf)@.len()),
                Err(_) => true },
    { unimplemented!() }
    #[verifier::external_body]
    pub fn align(&mut self) -> (r: std::result::Result<(), IoError>)
        ensures final(self).data@ == old(self).data@,
            match r { Ok(_) => final(self).pos@ == up4(old(self).pos@), Err(_) => true },
    { unimplemented!() }
}
pub open spec fn up4(p: int) -> int { if p % 4 == 0 { p } else { p + 4 - p % 4 } }
pub open spec fn le16(d: Seq<u8>, at: int) -> int { d[at] as int + 256 * (d[at + 1] as int) }
#[verifier::external_body]
fn shim_le_u16(b: &[u8], lo: usize, hi: usize) -> (r: Result<u16>)
    requires lo + 2 == hi, hi <= b@.len()
    ensures r is Ok, r->Ok_0 as int == le16(b@, lo as int)
{ Ok(u16::from_le_bytes([b[lo], b[lo+1]])) }

#[verifier::external_body]
fn shim_u16_from_le_arr(b: [u8; 2]) -> (r: u16) ensures r as int == le16(b@, 0) { u16::from_le_bytes(b) }
pub enum PacketHeader {
    Index(IndexPacketHeader),
    Data(DataPacketHeader),
    Ignored(IgnoredPacketHeader),
}

impl PacketHeader {
    #[verifier::loop_isolation(false)]
    pub fn read(reader: &mut LStream) -> (r: Result<Self>)
        requires old(reader).pos@ >= 0
        ensures final(reader).data@ == old(reader).data@,
            match r {
                Ok(PacketHeader::Index(h)) => final(reader).pos@ == old(reader).pos@ + 16 && h.packet_length as int == le16(old(reader).data@, old(reader).pos@ + 2) + 1 && old(reader).data@[old(reader).pos@] == 0u8,
                Ok(PacketHeader::Data(h)) => final(reader).pos@ == old(reader).pos@ + 6 && h.packet_length as int == le16(old(reader).data@, old(reader).pos@ + 2) + 1 && old(reader).data@[old(reader).pos@] == 1u8,
                Ok(PacketHeader::Ignored(h)) => final(reader).pos@ == old(reader).pos@ + 4 && h.packet_length as int == le16(old(reader).data@, old(reader).pos@ + 2) + 1 && old(reader).data@[old(reader).pos@] == 2u8,
                Err(_) => true },
    {
        // Read only first byte of header to indetify packet type
        let mut buffer = [0_u8; 1];
        reader
            .read_exact(&mut buffer)
            .read_err("Failed to read packet type ID")?;

        if buffer[0] == IndexPacketHeader::ID {
            Ok(PacketHeader::Index(IndexPacketHeader::read(reader)?))
        } else if buffer[0] == DataPacketHeader::ID {
            Ok(PacketHeader::Data(DataPacketHeader::read(reader)?))
        } else if buffer[0] == IgnoredPacketHeader::ID {
            Ok(PacketHeader::Ignored(IgnoredPacketHeader::read(reader)?))
        } else {
            Error::invalid("Found unknown packet ID when trying to read packet header")?
        }
    }
}

pub struct IndexPacketHeader {
    pub packet_length: u64,
}

impl IndexPacketHeader {
    pub const ID: u8 = 0;

    #[verifier::loop_isolation(false)]
    pub fn read(reader: &mut LStream) -> (r: Result<Self>)
        requires old(reader).pos@ >= 0
        ensures final(reader).data@ == old(reader).data@,
            match r { Ok(h) => final(reader).pos@ == old(reader).pos@ + 15 && h.packet_length as int == le16(old(reader).data@, old(reader).pos@ + 1) + 1, Err(_) => true },
    {
        let mut buffer = [0_u8; 15];
        reader
            .read_exact(&mut buffer)
            .read_err("Failed to read index packet header")?;

        // Check reserved values in second and last eight bytes of header
        if buffer[0] != 0 {
            Error::invalid("The reserved bytes inside an index packet must be zero")?
        }
        for value in buffer.iter().skip(7) {
            if *value != 0 {
                Error::invalid("The reserved bytes inside an index packet must be zero")?
            }
        }

        // Parse values
        let packet_length =
            shim_le_u16(&buffer, 1, 3)? as u64 + 1;

        // Currently unused header fields
        let _entry_count = shim_le_u16(&buffer, 3, 5)?;
        let _index_level = buffer[5];

        // Validate length
        if packet_length % 4 != 0 {
            Error::invalid("Index packet length is not aligned and a multiple of four")?
        }

        Ok(Self { packet_length })
    }
}

pub struct DataPacketHeader {
    pub comp_restart_flag: bool,
    pub packet_length: u64,
    pub bytestream_count: u16,
}

impl DataPacketHeader {
    pub const ID: u8 = 1;

    pub const SIZE: usize = 6;

    #[verifier::loop_isolation(false)]
    pub fn read(reader: &mut LStream) -> (r: Result<Self>)
        requires old(reader).pos@ >= 0
        ensures final(reader).data@ == old(reader).data@,
            match r { Ok(h) => final(reader).pos@ == old(reader).pos@ + 5 && h.packet_length as int == le16(old(reader).data@, old(reader).pos@ + 1) + 1, Err(_) => true },
    {
        let mut buffer = [0_u8; 5];
        reader
            .read_exact(&mut buffer)
            .read_err("Failed to read data packet header")?;

        // Parse values
        let comp_restart_flag = buffer[0] & 1 != 0;
        let packet_length =
            shim_le_u16(&buffer, 1, 3)? as u64 + 1;
        let bytestream_count =
            shim_le_u16(&buffer, 3, 5)?;

        // Validate values
        if packet_length % 4 != 0 {
            Error::invalid("Data packet length is not aligned and a multiple of four")?
        }
        if bytestream_count == 0 {
            Error::invalid("A byte stream count of 0 is not allowed")?
        }

        Ok(Self {
            comp_restart_flag,
            packet_length,
            bytestream_count,
        })
    }
}

pub struct IgnoredPacketHeader {
    pub packet_length: u64,
}
impl IgnoredPacketHeader {
    pub const ID: u8 = 2;
    #[verifier::external_body]
    #[verifier::loop_isolation(false)]
    pub fn read(reader: &mut LStream) -> (r: Result<Self>)
        requires old(reader).pos@ >= 0
        ensures final(reader).data@ == old(reader).data@,
            match r { Ok(h) => final(reader).pos@ == old(reader).pos@ + 3 && h.packet_length as int == le16(old(reader).data@, old(reader).pos@ + 1) + 1, Err(_) => true },
    { unimplemented!() }
}

pub enum RecordValue { Single(f32), Double(f64), ScaledInteger(i64), Integer(i64) }
impl Clone for RecordValue { #[verifier::external_body] fn clone(&self) -> Self { unimplemented!() } }
pub enum RecordDataType {
    Single { min: Option<f32>, max: Option<f32> },
    Double { min: Option<f64>, max: Option<f64> },
    ScaledInteger { min: i64, max: i64, scale: f64, offset: f64 },
    Integer { min: i64, max: i64 },
}
impl RecordDataType {
    pub open spec fn spec_bits(&self) -> int {
        match self {
            RecordDataType::Single { .. } => 32,
            RecordDataType::Double { .. } => 64,
            RecordDataType::ScaledInteger { min, max, .. } => spec_width(*min, *max),
            RecordDataType::Integer { min, max } => spec_width(*min, *max),
        }
    }
    #[verifier::external_body]
    pub fn bit_size(&self) -> (r: usize) ensures r as int == self.spec_bits() { unimplemented!() }
}
pub uninterp spec fn spec_width(min: i64, max: i64) -> int;
pub axiom fn axiom_width(min: i64, max: i64) ensures 0 <= spec_width(min, max) <= 64, (spec_width(min, max) == 0) == (max <= min);
pub struct Record { pub data_type: RecordDataType }
pub struct PointCloud { pub prototype: Vec<Record>, pub records: u64, pub file_offset: u64 }
pub struct ByteStreamReadBuffer { buffer: Vec<u8>, tmp: Vec<u8>, offset: usize }
impl ByteStreamReadBuffer {
    pub uninterp spec fn av(&self) -> nat;
    #[verifier::external_body] pub fn append(&mut self, data: &[u8])
        requires old(self).av() < 64 + 8 * 65536 ensures final(self).av() == old(self).av() + 8 * data@.len() { }
    #[verifier::external_body] pub fn available(&self) -> (r: usize) ensures r as nat == self.av() { 0 }
}
pub struct BitPack;
impl BitPack {
    #[verifier::external_body] pub fn unpack_doubles(stream: &mut ByteStreamReadBuffer, output: &mut VecDeque<RecordValue>) -> (r: Result<()>)
        ensures r is Ok, final(output)@.len() == old(output)@.len() + old(stream).av() / 64, final(stream).av() == old(stream).av() % 64 { Ok(()) }
    #[verifier::external_body] pub fn unpack_singles(stream: &mut ByteStreamReadBuffer, output: &mut VecDeque<RecordValue>) -> (r: Result<()>)
        ensures r is Ok, final(output)@.len() == old(output)@.len() + old(stream).av() / 32, final(stream).av() == old(stream).av() % 32 { Ok(()) }
    #[verifier::external_body] pub fn unpack_ints(stream: &mut ByteStreamReadBuffer, min: i64, max: i64, output: &mut VecDeque<RecordValue>) -> (r: Result<()>)
        requires min < max
        ensures r is Ok, final(output)@.len() == old(output)@.len() + old(stream).av() / (spec_width(min, max) as nat), final(stream).av() == old(stream).av() % (spec_width(min, max) as nat) { Ok(()) }
    #[verifier::external_body] pub fn unpack_scaled_ints(stream: &mut ByteStreamReadBuffer, min: i64, max: i64, output: &mut VecDeque<RecordValue>) -> (r: Result<()>)
        requires min < max
        ensures r is Ok, final(output)@.len() == old(output)@.len() + old(stream).av() / (spec_width(min, max) as nat), final(stream).av() == old(stream).av() % (spec_width(min, max) as nat) { Ok(()) }
}
pub type RawValues = Vec<RecordValue>;

struct QueueReader<'a> {
    pc: PointCloud,
    reader: &'a mut LStream,
    buffer: Vec<u8>,
    buffer_sizes: Vec<usize>,
    byte_streams: Vec<ByteStreamReadBuffer>,
    queues: Vec<VecDeque<RecordValue>>,
}

impl<'a> QueueReader<'a> {
    #[verifier::loop_isolation(false)]
    fn pop_point(&mut self, output: &mut RawValues) -> Result<()>
        requires old(self).wf()
    {
        output.clear();
        for i in 0..self.pc.prototype.len() {
            let value = self.queues[i]
                .pop_front()
                .internal_err("Failed to pop value for next point")?;
            output.push(value);
        }
        Ok(())
    }

    /// Reads the next packet from the compressed vector and decodes it into the queues.
    spec fn ranges_ordered(&self) -> bool {
        forall|i: int| 0 <= i < self.pc.prototype@.len() ==> (match #[trigger] self.pc.prototype@[i].data_type {
            RecordDataType::ScaledInteger { min, max, .. } => min <= max,
            RecordDataType::Integer { min, max } => min <= max,
            _ => true })
    }
    spec fn wf(&self) -> bool {
        &&& self.reader.pos@ >= 0
        &&& self.buffer_sizes@.len() == self.pc.prototype@.len()
        &&& self.byte_streams@.len() == self.pc.prototype@.len()
        &&& self.queues@.len() == self.pc.prototype@.len()
    }
    #[verifier::loop_isolation(false)]
    fn advance(&mut self) -> (r: Result<()>)
        requires old(self).wf()
        ensures final(self).reader.data@ == old(self).reader.data@,
            r is Ok ==> ({
                let d = old(self).reader.data@; let p = old(self).reader.pos@;
                // C03: a non-data packet is skipped by exactly its declared length
                (d[p] == 0u8 || d[p] == 2u8) ==> final(self).reader.pos@ == up4(p + le16(d, p + 2) + 1)
            }),
    {
        let packet_header = PacketHeader::read(self.reader)?;
        match packet_header {
            PacketHeader::Index(header) => {
                // Just skip over index packets
                let mut buffer = vec![0; header.packet_length as usize];
                self.reader
                    .read_exact(&mut buffer)
                    .read_err("Failed to read data of index packet")?
            }
            PacketHeader::Ignored(header) => {
                // Just skip over ignored packets
                let mut buffer = vec![0; header.packet_length as usize];
                self.reader
                    .read_exact(&mut buffer)
                    .read_err("Failed to read data of ignored packet")?
            }
            PacketHeader::Data(header) => {
                if header.bytestream_count as usize != self.byte_streams.len() {
                    Error::invalid("Bytestream count does not match prototype size")?
                }

                // Read byte stream sizes
                for i in 0..self.buffer_sizes.len()
                    invariant
                        self.reader.data@ == old(self).reader.data@,
                        self.buffer_sizes@.len() == self.pc.prototype@.len(),
                        self.byte_streams@.len() == self.pc.prototype@.len(),
                        self.queues@.len() == self.pc.prototype@.len(),
                        old(self).reader.data@[old(self).reader.pos@] == 1u8,
                {
                    let mut buf = [0_u8; 2];
                    self.reader
                        .read_exact(&mut buf)
                        .read_err("Failed to read data packet buffer sizes")?;
                    let len = shim_u16_from_le_arr(buf) as usize;
                    self.buffer_sizes[i] = len;
                }

                // Read byte streams into memory
                for i in 0..self.buffer_sizes.len()
                    invariant
                        self.reader.data@ == old(self).reader.data@,
                        self.buffer_sizes@.len() == self.pc.prototype@.len(),
                        self.byte_streams@.len() == self.pc.prototype@.len(),
                        self.queues@.len() == self.pc.prototype@.len(),
                        old(self).reader.data@[old(self).reader.pos@] == 1u8,
                {
                    let bs = &self.buffer_sizes[i];
                    self.buffer.resize(*bs, 0_u8);
                    self.reader
                        .read_exact(&mut self.buffer)
                        .read_err("Failed to read data packet buffers")?;
                    self.byte_streams[i].append(&self.buffer);
                }

                let mut min_queue_size = usize::MAX;
                for i in 0..self.byte_streams.len()
                    invariant
                        self.reader.data@ == old(self).reader.data@,
                        self.buffer_sizes@.len() == self.pc.prototype@.len(),
                        self.byte_streams@.len() == self.pc.prototype@.len(),
                        self.queues@.len() == self.pc.prototype@.len(),
                        old(self).reader.data@[old(self).reader.pos@] == 1u8,
                {
                    let bs = &self.byte_streams[i];
                    let bit_size = self.pc.prototype[i].data_type.bit_size();
                    // We can only check records with a non-zero bit size
                    if bit_size != 0 {
                        let bs_items = bs.available() / bit_size;
                        let queue_items = self.queues[i].len();
                        let items = bs_items + queue_items;
                        if items < min_queue_size {
                            min_queue_size = items;
                        }
                    }
                }

                self.parse_byte_streams(min_queue_size)?;
            }
        };

        self.reader
            .align()
            .read_err("Failed to align reader on next 4-byte offset after reading packet")
    }

    /// Extracts raw values from byte streams into queues.
    fn parse_byte_streams(&mut self, min_queue_size: usize) -> (r: Result<()>)
        requires old(self).wf(), old(self).ranges_ordered(),
        ensures final(self).wf(), r is Ok,
            final(self).reader.data@ == old(self).reader.data@, final(self).reader.pos@ == old(self).reader.pos@,
            final(self).pc == old(self).pc,
            forall|i: int| 0 <= i < old(self).pc.prototype@.len() ==> ({
                let w = old(self).pc.prototype@[i].data_type.spec_bits();
                if w > 0 {
                    #[trigger] final(self).queues@[i]@.len() == old(self).queues@[i]@.len() + old(self).byte_streams@[i].av() / (w as nat)
                    && final(self).byte_streams@[i].av() == old(self).byte_streams@[i].av() % (w as nat)
                } else {
                    final(self).queues@[i]@.len() == (if old(self).queues@[i]@.len() >= min_queue_size { old(self).queues@[i]@.len() } else { min_queue_size as nat })
                }
            }),
    {
        for i in 0..self.pc.prototype.len()
            invariant
                self.wf(), self.ranges_ordered(), self.pc == old(self).pc,
                self.reader.data@ == old(self).reader.data@, self.reader.pos@ == old(self).reader.pos@,
                forall|j: int| i <= j < self.pc.prototype@.len() ==> self.queues@[j] == old(self).queues@[j] && self.byte_streams@[j] == old(self).byte_streams@[j],
                forall|j: int| 0 <= j < i ==> ({
                    let w = old(self).pc.prototype@[j].data_type.spec_bits();
                    if w > 0 {
                        #[trigger] self.queues@[j]@.len() == old(self).queues@[j]@.len() + old(self).byte_streams@[j].av() / (w as nat)
                        && self.byte_streams@[j].av() == old(self).byte_streams@[j].av() % (w as nat)
                    } else {
                        self.queues@[j]@.len() == (if old(self).queues@[j]@.len() >= min_queue_size { old(self).queues@[j]@.len() } else { min_queue_size as nat })
                    }
                }),
        {
            let r = &self.pc.prototype[i];
            proof { match r.data_type { RecordDataType::ScaledInteger { min, max, .. } => axiom_width(min, max), RecordDataType::Integer { min, max } => axiom_width(min, max), _ => {} } }
            match r.data_type {
                RecordDataType::Single { .. } => {
                    BitPack::unpack_singles(&mut self.byte_streams[i], &mut self.queues[i])?
                }
                RecordDataType::Double { .. } => {
                    BitPack::unpack_doubles(&mut self.byte_streams[i], &mut self.queues[i])?
                }
                RecordDataType::ScaledInteger { min, max, .. } => {
                    if r.data_type.bit_size() == 0 {
                        let ghost at_loop = *self;
                        while self.queues[i].len() < min_queue_size
                            invariant
                                self.wf(), self.pc == old(self).pc, 0 <= i < self.pc.prototype@.len(),
                                self.reader.data@ == old(self).reader.data@, self.reader.pos@ == old(self).reader.pos@,
                                self.queues@[i as int]@.len() >= old(self).queues@[i as int]@.len(),
                                self.queues@[i as int]@.len() <= (if old(self).queues@[i as int]@.len() >= min_queue_size { old(self).queues@[i as int]@.len() } else { min_queue_size as nat }),
                                forall|j: int| 0 <= j < self.pc.prototype@.len() && j != i ==> self.queues@[j] == at_loop.queues@[j],
                                self.byte_streams@ == at_loop.byte_streams@,
                            decreases min_queue_size - self.queues@[i as int]@.len()
                        {
                            self.queues[i].push_back(RecordValue::ScaledInteger(min));
                        }
                    } else {
                        BitPack::unpack_scaled_ints(
                            &mut self.byte_streams[i],
                            min,
                            max,
                            &mut self.queues[i],
                        )?
                    }
                }
                RecordDataType::Integer { min, max } => {
                    if r.data_type.bit_size() == 0 {
                        // See comment above for scaled integers!
                        let ghost at_loop = *self;
                        while self.queues[i].len() < min_queue_size
                            invariant
                                self.wf(), self.pc == old(self).pc, 0 <= i < self.pc.prototype@.len(),
                                self.reader.data@ == old(self).reader.data@, self.reader.pos@ == old(self).reader.pos@,
                                self.queues@[i as int]@.len() >= old(self).queues@[i as int]@.len(),
                                self.queues@[i as int]@.len() <= (if old(self).queues@[i as int]@.len() >= min_queue_size { old(self).queues@[i as int]@.len() } else { min_queue_size as nat }),
                                forall|j: int| 0 <= j < self.pc.prototype@.len() && j != i ==> self.queues@[j] == at_loop.queues@[j],
                                self.byte_streams@ == at_loop.byte_streams@,
                            decreases min_queue_size - self.queues@[i as int]@.len()
                        {
                            self.queues[i].push_back(RecordValue::Integer(min));
                        }
                    } else {
                        BitPack::unpack_ints(
                            &mut self.byte_streams[i],
                            min,
                            max,
                            &mut self.queues[i],
                        )?
                    }
                }
            };
        }

        Ok(())
    }
}
}
fn main() {}
