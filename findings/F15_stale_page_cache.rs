// Native reproduction of F15 (C07/C16/C17): append to src/paged_reader.rs `mod tests` of the pinned commit and run
//   cargo test --offline f15_stale_cache
// A device error in the middle of read_exact leaves page_num = Some(old) over a clobbered buffer; the next
// read of the old page is served from garbage without verification. Fails before the fix, passes after.
    struct Flaky { inner: std::io::Cursor<Vec<u8>>, fail_reads_at: Option<u64> }
    impl Read for Flaky {
        fn read(&mut self, buf: &mut [u8]) -> Result<usize> {
            if let Some(p) = self.fail_reads_at {
                if self.inner.position() >= p {
                    // transfer a few bytes, then report an I/O error on the next call
                    if self.inner.position() == p { let n = buf.len().min(100); return self.inner.read(&mut buf[..n]); }
                    return Err(Error::new(ErrorKind::Other, "injected device error"));
                }
            }
            self.inner.read(buf)
        }
    }
    impl Seek for Flaky { fn seek(&mut self, s: SeekFrom) -> Result<u64> { self.inner.seek(s) } }

    #[test]
    fn f15_stale_cache() {
        let data = std::fs::read("testdata/bunnyDouble.e57").unwrap();
        let dev = Flaky { inner: std::io::Cursor::new(data.clone()), fail_reads_at: None };
        let mut reader = PagedReader::new(dev, PAGE_SIZE).unwrap();
        let mut first = [0u8; 16];
        reader.seek_physical(0).unwrap();
        reader.read_exact(&mut first).unwrap();            // page 0 cached
        assert_eq!(&first[..], &data[..16]);
        reader.reader.fail_reads_at = Some(1024);           // page 1 fails after 100 bytes
        reader.seek_physical(1024).unwrap();
        let mut tmp = [0u8; 16];
        assert!(reader.read_exact(&mut tmp).is_err());      // error surfaces: fine
        reader.reader.fail_reads_at = None;
        reader.seek_physical(0).unwrap();
        let mut again = [0u8; 16];
        reader.read_exact(&mut again).unwrap();
        assert_eq!(again, first, "page 0 served from a clobbered cache after an earlier failure");
    }
