// Native reproductions of the blob findings (C06/C08/C02). Append to `src/blob.rs` of the tree BEFORE the fixes inside a
// `#[cfg(test)] mod finding_tests { use super::*; ... }` and run `cargo test --offline finding_`.
#[cfg(test)]
mod finding_tests {
    use super::*;
    use std::io::Cursor;

    fn file_with_blob(payload: &[u8]) -> (Vec<u8>, Blob) {
        let mut dev = Cursor::new(Vec::new());
        let blob = {
            let mut w = PagedWriter::new(&mut dev).unwrap();
            let b = Blob::write(&mut w, &mut Cursor::new(payload.to_vec())).unwrap();
            w.flush().unwrap();
            b
        };
        (dev.into_inner(), blob)
    }

    // F11: the section length in the blob header must count header + payload + padding (as libE57Format writes it)
    #[test]
    fn finding_f11_section_length_convention() {
        let (bytes, blob) = file_with_blob(&[1, 2, 3, 4, 5]);
        let mut r = PagedReader::new(Cursor::new(bytes), 1024).unwrap();
        r.seek_physical(blob.offset).unwrap();
        let h = BlobSectionHeader::from_reader(&mut r).unwrap();
        assert_eq!(h.section_length, 24, "header(16) + 5 bytes + 3 padding");
    }

    // F14: reading a blob that ends before `length` bytes were delivered must not silently return fewer bytes
    #[test]
    fn finding_f14_short_blob_is_an_error() {
        let mut dev = Cursor::new(Vec::new());
        let off = {
            let mut w = PagedWriter::new(&mut dev).unwrap();
            let off = w.physical_position().unwrap();
            // header and descriptor (both untrusted file content) agree on 5000 bytes, the file holds 100
            BlobSectionHeader { section_length: 5016 }.to_writer(&mut w).unwrap();
            w.write_all(&[7u8; 100]).unwrap();
            w.flush().unwrap();
            off
        };
        let mut r = PagedReader::new(Cursor::new(dev.into_inner()), 1024).unwrap();
        let mut out = Vec::new();
        let res = Blob::new(off, 5000).read(&mut r, &mut out);
        assert!(res.is_err(), "got {:?} with {} bytes for a 5000 byte blob", res, out.len());
    }

    // F8: a crafted section length must not overflow `section_length + 16`
    #[test]
    fn finding_f8_section_length_overflow() {
        let mut dev = Cursor::new(Vec::new());
        let off = {
            let mut w = PagedWriter::new(&mut dev).unwrap();
            let off = w.physical_position().unwrap();
            BlobSectionHeader { section_length: u64::MAX - 3 }.to_writer(&mut w).unwrap();
            w.write_all(&[0u8; 32]).unwrap();
            w.flush().unwrap();
            off
        };
        let mut r = PagedReader::new(Cursor::new(dev.into_inner()), 1024).unwrap();
        let mut out = Vec::new();
        let _ = Blob::new(off, 8).read(&mut r, &mut out); // must return, not panic
    }
}
