use e57::*;
use std::io::Cursor;

fn crc32c(data: &[u8]) -> u32 {
    let mut s: u32 = !0;
    for &b in data { s ^= b as u32; for _ in 0..8 { s = if s & 1 == 1 { (s >> 1) ^ 0x82F6_3B78 } else { s >> 1 }; } }
    !s
}
fn phys(l: usize) -> usize { (l / 1020) * 1024 + l % 1020 }
fn paginate(mut logical: Vec<u8>) -> Vec<u8> {
    while logical.len() % 1020 != 0 { logical.push(0); }
    let mut out = Vec::new();
    for page in logical.chunks(1020) { out.extend_from_slice(page); out.extend_from_slice(&crc32c(page).to_be_bytes()); }
    out
}
fn data_packet(x: u8, y: u8, z: u8) -> Vec<u8> {
    let mut p = vec![1u8, 0, 15, 0, 3, 0, 1, 0, 1, 0, 1, 0, x, y, z, 0];
    assert_eq!(p.len(), 16); p[2] = 15; p
}
fn build(middle: &[u8], second_split: bool) -> Vec<u8> {
    let mut l = vec![0u8; 48];
    let mut sec = vec![0u8; 32];
    let mut packets = Vec::new();
    packets.extend(data_packet(10, 20, 30));
    packets.extend_from_slice(middle);
    if second_split {
        // point 2 straddles two packets: x,y in one packet, z in the next
        packets.extend(vec![1u8, 0, 15, 0, 3, 0, 1, 0, 1, 0, 0, 0, 11, 21, 0, 0]);
        packets.extend(vec![1u8, 0, 15, 0, 3, 0, 0, 0, 0, 0, 1, 0, 31, 0, 0, 0]);
    } else {
        packets.extend(data_packet(11, 21, 31));
    }
    sec[0] = 1;
    sec[8..16].copy_from_slice(&((32 + packets.len()) as u64).to_le_bytes());
    sec[16..24].copy_from_slice(&(phys(80) as u64).to_le_bytes());
    l.extend(sec); l.extend(packets);
    let xml_off = l.len();
    let xml = format!(r#"<?xml version="1.0" encoding="UTF-8"?>
<e57Root type="Structure" xmlns="http://www.astm.org/COMMIT/E57/2010-e57-v1.0">
<formatName type="String"><![CDATA[ASTM E57 3D Imaging Data File]]></formatName>
<guid type="String"><![CDATA[g]]></guid>
<versionMajor type="Integer">1</versionMajor>
<versionMinor type="Integer">0</versionMinor>
<data3D type="Vector" allowHeterogeneousChildren="1">
<vectorChild type="Structure">
<guid type="String"><![CDATA[p]]></guid>
<points type="CompressedVector" fileOffset="{}" recordCount="2">
<prototype type="Structure">
<cartesianX type="Integer" minimum="0" maximum="255">0</cartesianX>
<cartesianY type="Integer" minimum="0" maximum="255">0</cartesianY>
<cartesianZ type="Integer" minimum="0" maximum="255">0</cartesianZ>
</prototype>
</points>
</vectorChild>
</data3D>
<images2D type="Vector" allowHeterogeneousChildren="1">
</images2D>
</e57Root>
"#, phys(48));
    l.extend_from_slice(xml.as_bytes());
    let total_pages = (l.len() + 1019) / 1020;
    l[0..8].copy_from_slice(b"ASTM-E57");
    l[8..12].copy_from_slice(&1u32.to_le_bytes());
    l[16..24].copy_from_slice(&((total_pages * 1024) as u64).to_le_bytes());
    l[24..32].copy_from_slice(&(phys(xml_off) as u64).to_le_bytes());
    l[32..40].copy_from_slice(&(xml.len() as u64).to_le_bytes());
    l[40..48].copy_from_slice(&1024u64.to_le_bytes());
    paginate(l)
}
fn dump(name: &str, file: Vec<u8>) {
    let mut r = E57Reader::new(Cursor::new(file)).unwrap();
    let pcs = r.pointclouds();
    print!("{name} raw: ");
    for p in r.pointcloud_raw(&pcs[0]).unwrap() { match p { Ok(v) => print!("{:?} ", v), Err(e) => { print!("ERR({e}) "); break; } } }
    println!();
    print!("{name} simple: ");
    for p in r.pointcloud_simple(&pcs[0]).unwrap() { match p { Ok(v) => print!("{:?} ", v.cartesian), Err(e) => { print!("ERR({e}) "); break; } } }
    println!();
}
#[test]
fn f5_f13() {
    dump("plain", build(&[], false));
    dump("ignored-packet", build(&[2, 0, 7, 0, 0xAA, 0xAA, 0xAA, 0xAA], false));
    let mut idx = vec![0u8; 16]; idx[2] = 15;
    dump("index-packet", build(&idx, false));
    dump("straddling", build(&[], true));
}
