use e57::*;
use std::io::Cursor;

fn proto_int(min: i64, max: i64) -> Vec<Record> {
    vec![
        Record { name: RecordName::CartesianX, data_type: RecordDataType::Integer { min, max } },
        Record { name: RecordName::CartesianY, data_type: RecordDataType::Integer { min, max } },
        Record { name: RecordName::CartesianZ, data_type: RecordDataType::Integer { min, max } },
    ]
}

#[test]
fn d1_out_of_range_integer() {
    let mut buf = Cursor::new(Vec::new());
    {
        let mut w = E57Writer::new(&mut buf, "g").unwrap();
        let mut pc = w.add_pointcloud("p", proto_int(0, 2047)).unwrap();
        let r = pc.add_point(vec![RecordValue::Integer(4095), RecordValue::Integer(0), RecordValue::Integer(0)]);
        println!("add_point out-of-range -> {:?}", r.is_ok());
        pc.add_point(vec![RecordValue::Integer(0), RecordValue::Integer(0), RecordValue::Integer(0)]).unwrap();
        pc.finalize().unwrap();
        w.finalize().unwrap();
    }
    buf.set_position(0);
    let mut r = E57Reader::new(buf).unwrap();
    let pcs = r.pointclouds();
    for p in r.pointcloud_raw(&pcs[0]).unwrap() { println!("{:?}", p.unwrap()); }
}

#[test]
fn d2_all_zero_width() {
    let mut buf = Cursor::new(Vec::new());
    let mut w = E57Writer::new(&mut buf, "g").unwrap();
    let r = std::panic::catch_unwind(std::panic::AssertUnwindSafe(|| { let _ = w.add_pointcloud("p", proto_int(5, 5)); }));
    println!("all-zero-width prototype panicked: {}", r.is_err());
}

#[test]
fn d3_full_range() {
    let mut buf = Cursor::new(Vec::new());
    let mut w = E57Writer::new(&mut buf, "g").unwrap();
    let r = std::panic::catch_unwind(std::panic::AssertUnwindSafe(|| {
        let mut pc = w.add_pointcloud("p", proto_int(i64::MIN, i64::MAX)).unwrap();
        pc.add_point(vec![RecordValue::Integer(1), RecordValue::Integer(0), RecordValue::Integer(-1)]).unwrap();
        pc.finalize().unwrap();
    }));
    println!("full-range value panicked: {}", r.is_err());
}
