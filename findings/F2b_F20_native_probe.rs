// Native reproductions of F2b and F20 (drop into tests/ of the tree BEFORE the fix commits e5e9f3b / 1f3471b, i.e. at 5c22086).
//   cargo test --offline --test F2b_F20_native_probe -- --test-threads 1 --nocapture
// F2b  get_max_packet_points: (a) more than 21676 records => "attempt to subtract with overflow" (panic) in PointCloudWriter::new;
//      (b) a point bigger than a data packet (6000 double records) => 0 points per packet => PointCloudWriter::finalize never returns.
// F20  validate_prototype looked only at the FIRST record of a name: [X, Y, Z, RowIndex: Integer, RowIndex: ScaledInteger] is accepted,
//      every add_point then fails with Error::Internal AFTER the Cartesian bounds were updated: a rejected point widens the stored bounds.
// Verus on the pre-fix bodies (unit pcw, contracts as committed with the fixes; hint-free run):
//   pcw/get_max_packet_points: possible arithmetic underflow/overflow
//        ((u16_max - headers_size - max_incomplete_bytes - SAFETY_MARGIN) * 8) / point_size_bits.max(1)      [two sites: the subtraction chain]
//   pcw/PointCloudWriter::validate_prototype: postcondition not satisfied  [(r is Ok) == documented_rules(prototype@)]   (the no_dup conjunct)
use e57::*;
use std::io::Cursor;

fn proto(n: usize) -> Vec<Record> {
    let mut p = vec![Record::CARTESIAN_X_F64, Record::CARTESIAN_Y_F64, Record::CARTESIAN_Z_F64];
    for i in 0..n {
        p.push(Record { name: RecordName::Unknown { namespace: "ext".into(), name: format!("a{i}") }, data_type: RecordDataType::Double { min: None, max: None } });
    }
    p
}
fn run(n: usize) {
    let mut cur = Cursor::new(Vec::new());
    let mut w = E57Writer::new(&mut cur, "guid").unwrap();
    w.register_extension(Extension::new("ext", "http://x")).unwrap();
    let p = proto(n);
    let mut pw = match w.add_pointcloud("pc", p.clone()) { Ok(pw) => pw, Err(e) => { println!("n={n}: add_pointcloud rejected: {e}"); return; } };
    let vals: Vec<RecordValue> = p.iter().map(|_| RecordValue::Double(1.0)).collect();
    for _ in 0..3 { pw.add_point(vals.clone()).unwrap(); }
    let (tx, rx) = std::sync::mpsc::channel();
    std::thread::spawn(move || { if rx.recv_timeout(std::time::Duration::from_secs(10)).is_err() { println!("n={n}: finalize did not return within 10 s"); std::process::exit(3); } });
    let r = pw.finalize();
    tx.send(()).unwrap();
    println!("n={n}: finalize -> {:?}", r.is_ok());
}
#[test] fn f2b_small_is_fine() { run(100); }
#[test] fn f2b_underflow_panics_before_fix() { run(21700); }
#[test] fn f2b_zero_points_per_packet_hangs_before_fix() { run(6000); }

#[test]
fn f20_duplicate_row_index_rejected_point_widens_bounds() {
    let mut cur = Cursor::new(Vec::new());
    let mut w = E57Writer::new(&mut cur, "guid").unwrap();
    let proto = vec![
        Record::CARTESIAN_X_F64, Record::CARTESIAN_Y_F64, Record::CARTESIAN_Z_F64,
        Record { name: RecordName::RowIndex, data_type: RecordDataType::Integer { min: 0, max: 10 } },
        Record { name: RecordName::RowIndex, data_type: RecordDataType::ScaledInteger { min: 0, max: 10, scale: 1.0, offset: 0.0 } },
    ];
    let mut pw = match w.add_pointcloud("pc", proto) { Ok(p) => p, Err(e) => { println!("prototype rejected: {e}"); return; } };
    let r = pw.add_point(vec![RecordValue::Double(100.0), RecordValue::Double(200.0), RecordValue::Double(300.0), RecordValue::Integer(1), RecordValue::ScaledInteger(2)]);
    assert!(r.is_err());
    pw.finalize().unwrap();
    w.finalize().unwrap();
    drop(w);
    let rd = E57Reader::new(Cursor::new(cur.into_inner())).unwrap();
    let pc = rd.pointclouds()[0].clone();
    let b = pc.cartesian_bounds.unwrap();
    assert!(pc.records == 0 && b.x_min.is_none(), "a rejected point widened the stored bounds: {:?}", b);
}
