// UNIT rd — C03/C08/C09/C17/C01 (reader above the page layer): packet and section header parsers, QueueReader, raw iterator
// real code: src/packet.rs, src/cv_section.rs, src/queue_reader.rs, src/pc_reader_raw.rs on top of the extracted
// PagedReader (page_r) and bit-stream decoder (bits)
use vstd::prelude::*;
use std::collections::VecDeque;
verus! {
//@nopub
//@include ioerr.rs
//@include error.rs
//@include le.rs
//@include bits.rs
//@include dev.rs
//@include bits_body.rs
//@include page_r_body.rs
//@include rd_body.rs
} // verus!
fn main() {}
