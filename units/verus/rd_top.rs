// UNIT rd_top — C07 (validate_crc <=> all pages sealed), C08/C09 (no panic, bounded allocation, termination), C17, C16
// real code: src/e57_reader.rs {validate_crc, raw_xml, get_u64, extract_xml} on top of the extracted PagedReader
use vstd::prelude::*;
verus! {
//@nopub
//@include ioerr.rs
//@include error.rs
//@include le.rs
//@include dev.rs
//@include page_r_body.rs

//@include rd_top_body.rs
} // verus!
fn main() {}
