// UNIT bits — C12 (and the stream part of C01/C03/C10/C08/C09)
// real code: src/bs_write.rs, src/bs_read.rs, src/bitpack.rs, src/record.rs (packing functions)
use vstd::prelude::*;
use std::collections::VecDeque;
verus! {
//@nopub
//@include ioerr.rs
//@include error.rs
//@include le.rs
//@include bits.rs
//@include bits_body.rs
} // verus!
fn main() {}
