// UNIT page_r — C11 (reader side), C07 (no byte leaves an unverified page; cache coherence), C17, C16, C08/C09 (page layer)
// real code: src/paged_reader.rs  (default configuration: cargo feature crc32c off)
use vstd::prelude::*;
verus! {
//@nopub
//@include ioerr.rs
//@include error.rs
//@include le.rs
//@include dev.rs
//@include page_r_body.rs
} // verus!
fn main() {}
