// UNIT rd15 — C15, reader side: a device image whose header still carries the placeholder XML length (zero) is rejected
// real code: src/e57_reader.rs E57Reader::new on top of the extracted Header::read, PagedReader::new, extract_xml
use vstd::prelude::*;
verus! {
//@nopub
//@grw format!\((?:[^()]|\([^()]*\))*\) ==> ""
//@include ioerr.rs
//@include error.rs
//@include le.rs
//@include dev.rs
//@include page_w_body.rs
//@include page_r_body.rs
//@include hdr_items.rs
//@include fmt_body.rs
//@include rd_top_body.rs

/// everything E57Reader::new does after it has the XML bytes: UTF-8 check, roxmltree parse, descriptor extraction.
/// ASSUMED (dependency roxmltree, listed in the evidence): a document of length zero has no root element and is rejected.
struct ParsedFile { tag: u64 }
#[verifier::external_body]
fn shim_parse_xml(xml_raw: Vec<u8>) -> (r: Result<ParsedFile>)
    ensures xml_raw@.len() == 0 ==> r is Err
{ unimplemented!() }
struct E57ReaderS { reader: PagedReader, header: Header, parsed: ParsedFile }

proof fn lemma_le64_all_zero(x: u64)
    requires forall|i: int| 0 <= i < 8 ==> #[trigger] le_bytes64(x)[i] == 0u8
    ensures x == 0
{
    assert(le_bytes64(x)[0] == 0u8); assert(le_bytes64(x)[1] == 0u8); assert(le_bytes64(x)[2] == 0u8); assert(le_bytes64(x)[3] == 0u8);
    assert(le_bytes64(x)[4] == 0u8); assert(le_bytes64(x)[5] == 0u8); assert(le_bytes64(x)[6] == 0u8); assert(le_bytes64(x)[7] == 0u8);
    assert(((x >> 0u64) as u8 == 0u8 && (x >> 8u64) as u8 == 0u8 && (x >> 16u64) as u8 == 0u8 && (x >> 24u64) as u8 == 0u8
         && (x >> 32u64) as u8 == 0u8 && (x >> 40u64) as u8 == 0u8 && (x >> 48u64) as u8 == 0u8 && (x >> 56u64) as u8 == 0u8) ==> x == 0u64) by (bit_vector);
}
/// C15: what every device image before the final header write looks like (writer side: `quiet`): too short for a header, or XML length zero
spec fn inert(d: Seq<u8>) -> bool { d.len() < 48 || forall|i: int| 32 <= i < 40 ==> d[i] == 0u8 }

impl E57ReaderS {
//@fn src/e57_reader.rs E57Reader new serves=C15 ret=r
//@rw mut reader: T ==> mut reader: Dev
//@rw let xml = String::from_utf8\(xml_raw\).*?let extensions = Extension::vec_from_document\(&document\); ==> let parsed = shim_parse_xml(xml_raw)?;
//@rw Ok\(Self \{.*?\}\) ==> Ok(Self { reader, header, parsed })
//@rw Self::extract_xml ==> E57Reader::extract_xml
//@sig
        requires reader.pos == 0,
        // C15: an image from before the top-level finalize (placeholder header) is never accepted
        ensures /*[C15]*/ inert(reader.data@) ==> r is Err,
//@body_start
        let ghost d0 = reader.data@;
//@call extract_xml 0 before
        proof {
            if inert(d0) {
                assert(header.bytes().subrange(32, 40) =~= le_bytes64(header.xml_length));
                assert forall|i: int| 0 <= i < 8 implies #[trigger] le_bytes64(header.xml_length)[i] == 0u8 by {
                    assert(header.bytes()[32 + i] == le_bytes64(header.xml_length)[i]);
                }
                lemma_le64_all_zero(header.xml_length);
            }
        }
//@endfn
}
} // verus!
fn main() {}
