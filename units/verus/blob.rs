// UNIT blob — C06 (blob section = header ++ bytes ++ pad; descriptor; read returns exactly `length` bytes or an error), C02, C08, C16, C17
// real code: src/blob.rs on top of the extracted PagedWriter (page_w) and PagedReader (page_r)
use vstd::prelude::*;
verus! {
//@nopub
//@include ioerr.rs
//@include error.rs
//@include le.rs
//@include dev.rs
//@include page_w_body.rs
//@include page_r_body.rs
//@include blob_body.rs
} // verus!
fn main() {}
