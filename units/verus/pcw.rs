// UNIT pcw — C10 (add_point rejects what it cannot store), C14 (bounds fold), C01 (buffering / packet framing)
// real code: src/pc_writer.rs on top of the extracted bit packer (bits) and PagedWriter (page_w)
use vstd::prelude::*;
use std::collections::VecDeque;
verus! {
//@nopub
//@grw format!\((?:[^()]|\([^()]*\))*\) ==> ""
//@include ioerr.rs
//@include error.rs
//@include le.rs
//@include bits.rs
//@include dev.rs
//@include bits_body.rs
//@include page_w_body.rs
//@include hdr_items.rs
//@include fmt_body.rs
//@include recval.rs
//@include pcw_body.rs
} // verus!
fn main() {}
