// ---- image_writer.rs: the image representations are thin wrappers over Blob::write; what matters for C06 is the WIRING:
// the descriptor stored for the image data is the one Blob::write returned for the image source, the mask descriptor the one
// returned for the mask source, in that order on the stream, and finalize publishes exactly the assembled image ----
#[derive(Clone)]
struct Opaque { tag: u64 }
//@item src/images.rs enum ImageFormat
//@enditem
//@item src/images.rs struct ImageBlob
//@enditem
//@item src/images.rs struct VisualReferenceImageProperties
//@enditem
//@item src/images.rs struct VisualReferenceImage
//@enditem
//@item src/images.rs struct PinholeImageProperties
//@enditem
//@item src/images.rs struct PinholeImage
//@enditem
//@item src/images.rs struct SphericalImageProperties
//@enditem
//@item src/images.rs struct SphericalImage
//@enditem
//@item src/images.rs struct CylindricalImageProperties
//@enditem
//@item src/images.rs struct CylindricalImage
//@enditem
//@item src/images.rs enum Projection
//@enditem
//@item src/images.rs struct Image
//@rw \b(String|Transform|DateTime)\b ==> Opaque
//@enditem
//@item src/image_writer.rs struct ImageWriter
//@rw <'a, T: Read \+ Write \+ Seek> ==> <'a>
//@rw PagedWriter<T> ==> PagedWriter
//@enditem
/// assumed: derive(Clone) of Image is structural
#[verifier::external_body]
fn shim_clone_image(i: &Image) -> (r: Image) ensures r == *i { unimplemented!() }

/// the section Blob::write puts on the stream for a payload
spec fn blob_section(payload: Seq<u8>) -> Seq<u8> {
    let len = payload.len() as int;
    spec_blob_header(spec_blob_section_length(len) as u64) + payload + zeros(up4(16 + len) - 16 - len)
}
/// image data first, then (if given) the mask; descriptors = (physical start, payload length) of each
spec fn wired(w0: PagedWriter, w1: PagedWriter, img: Seq<u8>, mask: Option<Seq<u8>>, data: Blob, m: Option<Blob>) -> bool {
    &&& data.offset == phys(w0.cursor()) && data.length == img.len()
    &&& match mask {
        None => m is None && appended(w0, w1, blob_section(img)),
        Some(mp) => m is Some && m->Some_0.offset == phys(w0.cursor() + blob_section(img).len()) && m->Some_0.length == mp.len()
            && appended(w0, w1, blob_section(img) + blob_section(mp)),
    }
}

/// transitivity of `appended` for every pair of consecutive writes (so that the proofs below need not name the intermediate writer state)
proof fn lemma_appended_trans_all()
    ensures forall|a: PagedWriter, b: PagedWriter, c: PagedWriter, x: Seq<u8>, y: Seq<u8>|
        #[trigger] appended(a, b, x) && #[trigger] appended(b, c, y) && a.cursor() >= 0 ==> appended(a, c, x + y)
{
    assert forall|a: PagedWriter, b: PagedWriter, c: PagedWriter, x: Seq<u8>, y: Seq<u8>|
        #[trigger] appended(a, b, x) && #[trigger] appended(b, c, y) && a.cursor() >= 0 implies appended(a, c, x + y) by {
        lemma_appended_trans(a, b, c, x, y);
    }
}

impl<'a> ImageWriter<'a> {
//@fn src/image_writer.rs ImageWriter add_visual_reference serves=C06,C16 ret=r
//@rw image: &mut dyn Read ==> image: &mut Source
//@rw mask: Option<&mut dyn Read> ==> mask: Option<&mut Source>
//@sig
        requires old(self).writer.wf(), old(self).writer.cursor() % 4 == 0, old(image).wf(), mask is Some ==> (*mask->Some_0).wf(),
        ensures
            /*[C06]*/ r is Ok ==> final(self).image.visual_reference is Some && ({
                let v = final(self).image.visual_reference->Some_0;
                &&& v.blob.format == format && v.properties == properties
                &&& wired(*old(self).writer, *final(self).writer, old(image).remaining(),
                        (match mask { Some(ms) => Some((*ms).remaining()), None => None }), v.blob.data, v.mask)
            }),
            r is Ok ==> final(self).image.projection == old(self).image.projection && final(self).images@ == old(self).images@,
            /*[C16]*/ r is Ok ==> final(self).writer.wf() && final(self).writer.no_new_fault(&*old(self).writer) && final(self).writer.cursor() % 4 == 0,
//@body_start
        proof { lemma_cursor_bound(*self.writer); lemma_appended_trans_all(); }
//@endfn

//@fn src/image_writer.rs ImageWriter add_pinhole serves=C06,C16 ret=r
//@rw image: &mut dyn Read ==> image: &mut Source
//@rw mask: Option<&mut dyn Read> ==> mask: Option<&mut Source>
//@sig
        requires old(self).writer.wf(), old(self).writer.cursor() % 4 == 0, old(image).wf(), mask is Some ==> (*mask->Some_0).wf(),
        ensures
            // one projection per image: a second one is refused before anything is written
            /*[C06]*/ old(self).image.projection is Some ==> r is Err && *final(self).writer == *old(self).writer,
            /*[C06]*/ r is Ok ==> final(self).image.projection is Some && final(self).image.projection->Some_0 is Pinhole && ({
                let v = final(self).image.projection->Some_0->Pinhole_0;
                &&& v.blob.format == format && v.properties == properties
                &&& wired(*old(self).writer, *final(self).writer, old(image).remaining(),
                        (match mask { Some(ms) => Some((*ms).remaining()), None => None }), v.blob.data, v.mask)
            }),
            r is Ok ==> final(self).image.visual_reference == old(self).image.visual_reference && final(self).images@ == old(self).images@,
            /*[C16]*/ r is Ok ==> final(self).writer.wf() && final(self).writer.no_new_fault(&*old(self).writer) && final(self).writer.cursor() % 4 == 0,
//@body_start
        proof { lemma_cursor_bound(*self.writer); lemma_appended_trans_all(); }
//@endfn

//@fn src/image_writer.rs ImageWriter add_spherical serves=C06,C16 ret=r
//@rw image: &mut dyn Read ==> image: &mut Source
//@rw mask: Option<&mut dyn Read> ==> mask: Option<&mut Source>
//@sig
        requires old(self).writer.wf(), old(self).writer.cursor() % 4 == 0, old(image).wf(), mask is Some ==> (*mask->Some_0).wf(),
        ensures
            // one projection per image: a second one is refused before anything is written
            /*[C06]*/ old(self).image.projection is Some ==> r is Err && *final(self).writer == *old(self).writer,
            /*[C06]*/ r is Ok ==> final(self).image.projection is Some && final(self).image.projection->Some_0 is Spherical && ({
                let v = final(self).image.projection->Some_0->Spherical_0;
                &&& v.blob.format == format && v.properties == properties
                &&& wired(*old(self).writer, *final(self).writer, old(image).remaining(),
                        (match mask { Some(ms) => Some((*ms).remaining()), None => None }), v.blob.data, v.mask)
            }),
            r is Ok ==> final(self).image.visual_reference == old(self).image.visual_reference && final(self).images@ == old(self).images@,
            /*[C16]*/ r is Ok ==> final(self).writer.wf() && final(self).writer.no_new_fault(&*old(self).writer) && final(self).writer.cursor() % 4 == 0,
//@body_start
        proof { lemma_cursor_bound(*self.writer); lemma_appended_trans_all(); }
//@endfn

//@fn src/image_writer.rs ImageWriter add_cylindrical serves=C06,C16 ret=r
//@rw image_data: &mut dyn Read ==> image_data: &mut Source
//@rw mask_data: Option<&mut dyn Read> ==> mask_data: Option<&mut Source>
//@sig
        requires old(self).writer.wf(), old(self).writer.cursor() % 4 == 0, old(image_data).wf(), mask_data is Some ==> (*mask_data->Some_0).wf(),
        ensures
            // one projection per image: a second one is refused before anything is written
            /*[C06]*/ old(self).image.projection is Some ==> r is Err && *final(self).writer == *old(self).writer,
            /*[C06]*/ r is Ok ==> final(self).image.projection is Some && final(self).image.projection->Some_0 is Cylindrical && ({
                let v = final(self).image.projection->Some_0->Cylindrical_0;
                &&& v.blob.format == format && v.properties == properties
                &&& wired(*old(self).writer, *final(self).writer, old(image_data).remaining(),
                        (match mask_data { Some(ms) => Some((*ms).remaining()), None => None }), v.blob.data, v.mask)
            }),
            r is Ok ==> final(self).image.visual_reference == old(self).image.visual_reference && final(self).images@ == old(self).images@,
            /*[C16]*/ r is Ok ==> final(self).writer.wf() && final(self).writer.no_new_fault(&*old(self).writer) && final(self).writer.cursor() % 4 == 0,
//@body_start
        proof { lemma_cursor_bound(*self.writer); lemma_appended_trans_all(); }
//@endfn

//@fn src/image_writer.rs ImageWriter finalize serves=C06 ret=r
//@rw self\.image\.clone\(\) ==> shim_clone_image(&self.image)
//@sig
        ensures
            // publishes exactly the assembled image (with the descriptors wired above), once, and only if it has a representation
            /*[C06]*/ (r is Ok) == (old(self).image.visual_reference is Some || old(self).image.projection is Some),
            /*[C06]*/ r is Ok ==> final(self).images@ == old(self).images@.push(old(self).image),
            r is Err ==> final(self).images@ == old(self).images@,
            final(self).image == old(self).image, *final(self).writer == *old(self).writer,
//@endfn
}
