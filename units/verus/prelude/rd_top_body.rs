//@item src/e57_reader.rs const MAX_XML_SIZE
//@enditem

struct E57Reader;

/// every page of a device image with page size ps is sealed
spec fn all_sealedn(d: Seq<u8>, ps: int) -> bool {
    forall|k: int| 0 <= k < d.len() as int / ps ==> sealedn(#[trigger] pagen(d, ps, k), ps)
}

impl E57Reader {
//@fn src/e57_reader.rs E57Reader get_u64 serves=C08,C09,C16,C17 ret=r
//@rw reader: &mut T ==> reader: &mut Dev
//@rw std::io::SeekFrom ==> SeekFrom
//@sig
        ensures final(reader).data@ == old(reader).data@,
            match r {
                // the little-endian u64 at the absolute offset: independent of the previous position
                Ok(v) => offset + 8 <= old(reader).data@.len() && le_bytes64(v) == old(reader).data@.subrange(offset as int, offset + 8)
                    && final(reader).failed@ == old(reader).failed@,
                Err(_) => final(reader).failed@ || offset + 8 > old(reader).data@.len() },
//@endfn

//@fn src/e57_reader.rs E57Reader extract_xml serves=C07,C08,C09,C16,C17 ret=r
//@rw PagedReader<T> ==> PagedReader
//@sig
        requires old(reader).wf(),
        ensures final(reader).wf(), final(reader).reader.data@ == old(reader).reader.data@,
            final(reader).page_size == old(reader).page_size,
            match r {
                Ok(xml) => xml@.len() == length && length <= MAX_XML_SIZE
                    && final(reader).no_new_fault(old(reader))
                    // result = logical bytes at logical(offset): a function of device bytes and arguments only (C17)
                    && ({ let l = offset as int - (offset as int / old(reader).page_size as int) * 4;
                          &&& forall|i: int| 0 <= i < length ==> xml@[i] == old(reader).lbyte(l + i)
                          // every byte comes from a page with a valid checksum (C07)
                          &&& forall|i: int| 0 <= i < length ==> #[trigger] old(reader).page_ok(l + i) }),
                // C09: refused before allocating when longer than MAX_XML_SIZE
                Err(_) => true },
//@call read_exact 0 before
        let ghost sk = *reader;
//@tail
        proof {
            assert(sk.reader.data@ == old(reader).reader.data@ && sk.page_size == old(reader).page_size);
            assert forall|i: int| 0 <= i < length implies xml@[i] == old(reader).lbyte(sk.offset + i) by { assert(xml@[i] == sk.lbyte(sk.offset + i)); }
            assert forall|i: int| 0 <= i < length implies #[trigger] old(reader).page_ok(sk.offset + i) by { assert(sk.page_ok(sk.offset + i)); }
        }
//@endfn

//@fn src/e57_reader.rs E57Reader raw_xml serves=C07,C08,C09,C16 ret=r
//@rw mut reader: T ==> mut reader: Dev
//@sig
        ensures match r { Ok(xml) => xml@.len() <= MAX_XML_SIZE, Err(_) => true },
//@endfn

//@fn src/e57_reader.rs E57Reader validate_crc serves=C07,C08,C09,C16 ret=r
//@rw mut reader: T ==> mut reader: Dev
//@sig
        ensures match r {
            // C07: success implies EVERY page of the device carries a valid checksum (page size taken from header bytes 40..48)
            Ok(ps) => ps > 4 && reader.data@.len() >= 48 && le_bytes64(ps) == reader.data@.subrange(40, 48)
                && all_sealedn(reader.data@, ps as int),
            Err(_) => true },
//@loop 0 before hdr=while paged_reader
        let ghost d = paged_reader.reader.data@;
        let ghost pay = (page_size - 4) as int;
        let ghost k: int = 0;
//@loop 0 head
            invariant
                paged_reader.wf(), paged_reader.reader.data@ == d, paged_reader.page_size == page_size, d == reader.data@,
                pay == page_size - 4, buffer@.len() == page_size,
                0 <= k <= paged_reader.pages, paged_reader.offset == k * pay, paged_reader.offset as int / pay == k, page == k,
                forall|j: int| 0 <= j < k ==> sealedn(#[trigger] pagen(d, page_size as int, j), page_size as int),
            ensures
                paged_reader.wf(), paged_reader.reader.data@ == d, paged_reader.page_size == page_size,
                k == paged_reader.pages,
                forall|j: int| 0 <= j < k ==> sealedn(#[trigger] pagen(d, page_size as int, j), page_size as int),
            decreases paged_reader.pages - k
//@loop 0 body_end
            proof {
                // the read just verified page k and consumed exactly its payload
                vstd::arithmetic::div_mod::lemma_fundamental_div_mod_converse(k * pay, pay, k, 0);
                assert((k + 1) * pay == k * pay + pay) by (nonlinear_arith);
                vstd::arithmetic::div_mod::lemma_fundamental_div_mod_converse((k + 1) * pay, pay, k + 1, 0);
                k = k + 1;
            }
//@tail
        proof {
            let ps = page_size as int;
            vstd::arithmetic::div_mod::lemma_fundamental_div_mod_converse(d.len() as int, ps, paged_reader.pages as int, 0);
        }
//@endfn

    // canary
//@fn src/e57_reader.rs E57Reader get_u64 rename=get_u64__canary canary ret=r
//@rw reader: &mut T ==> reader: &mut Dev
//@rw std::io::SeekFrom ==> SeekFrom
//@sig
        ensures r is Err,
//@endfn
}

