// ---- little-endian helpers: specs + shims with the assumed std semantics of {to,from}_le_bytes ----
pub open spec fn le_bytes16(x: u16) -> Seq<u8> { Seq::new(2, |i: int| (x >> ((8 * i) as u16)) as u8) }
pub open spec fn le_bytes32(x: u32) -> Seq<u8> { Seq::new(4, |i: int| (x >> ((8 * i) as u32)) as u8) }
pub open spec fn le_bytes64(x: u64) -> Seq<u8> { Seq::new(8, |i: int| (x >> ((8 * i) as u64)) as u8) }
#[verifier::external_body]
pub fn shim_u16_to_le_bytes(x: u16) -> (r: [u8; 2]) ensures r@ == le_bytes16(x) { x.to_le_bytes() }
#[verifier::external_body]
pub fn shim_u32_to_le_bytes(x: u32) -> (r: [u8; 4]) ensures r@ == le_bytes32(x) { x.to_le_bytes() }
#[verifier::external_body]
pub fn shim_u64_to_le_bytes(x: u64) -> (r: [u8; 8]) ensures r@ == le_bytes64(x) { x.to_le_bytes() }
/// from_le_bytes inverts to_le_bytes (and is injective)
#[verifier::external_body]
pub fn shim_u16_from_le_bytes(b: [u8; 2]) -> (r: u16)
    ensures le_bytes16(r) == b@, r as int == b@[0] as int + 256 * (b@[1] as int), forall|x: u16| le_bytes16(x) == b@ ==> x == r
{ u16::from_le_bytes(b) }
#[verifier::external_body]
pub fn shim_u64_from_le_bytes(b: [u8; 8]) -> (r: u64)
    ensures le_bytes64(r) == b@, forall|x: u64| le_bytes64(x) == b@ ==> x == r
{ u64::from_le_bytes(b) }
/// the idiom `uN::from_le_bytes(buf[lo..hi].try_into().internal_err(WRONG_OFFSET)?)` (rewrite 8); never fails for hi - lo == N/8
#[verifier::external_body]
pub fn shim_le_u16(b: &[u8], lo: usize, hi: usize) -> (r: Result<u16>)
    requires lo + 2 == hi, hi <= b@.len()
    ensures r is Ok, le_bytes16(r->Ok_0) == b@.subrange(lo as int, hi as int),
        r->Ok_0 as int == b@[lo as int] as int + 256 * (b@[lo + 1] as int),
        forall|x: u16| le_bytes16(x) == b@.subrange(lo as int, hi as int) ==> x == r->Ok_0
{ unimplemented!() }
#[verifier::external_body]
pub fn shim_le_u32(b: &[u8], lo: usize, hi: usize) -> (r: Result<u32>)
    requires lo + 4 == hi, hi <= b@.len()
    ensures r is Ok, le_bytes32(r->Ok_0) == b@.subrange(lo as int, hi as int),
        forall|x: u32| le_bytes32(x) == b@.subrange(lo as int, hi as int) ==> x == r->Ok_0
{ unimplemented!() }
#[verifier::external_body]
pub fn shim_le_u64(b: &[u8], lo: usize, hi: usize) -> (r: Result<u64>)
    requires lo + 8 == hi, hi <= b@.len()
    ensures r is Ok, le_bytes64(r->Ok_0) == b@.subrange(lo as int, hi as int),
        forall|x: u64| le_bytes64(x) == b@.subrange(lo as int, hi as int) ==> x == r->Ok_0
{ unimplemented!() }
