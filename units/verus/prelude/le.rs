// ---- little-endian helpers: specs + shims with the assumed std semantics of {to,from}_le_bytes ----
pub open spec fn le_bytes16(x: u16) -> Seq<u8> { Seq::new(2, |i: int| (x >> ((8 * i) as u16)) as u8) }
pub open spec fn le_bytes32(x: u32) -> Seq<u8> { Seq::new(4, |i: int| (x >> ((8 * i) as u32)) as u8) }
pub open spec fn le_bytes64(x: u64) -> Seq<u8> { Seq::new(8, |i: int| (x >> ((8 * i) as u64)) as u8) }
#[verifier::external_body]
pub fn shim_u16_to_le_bytes(x: u16) -> (r: [u8; 2]) ensures r@ == le_bytes16(x) { x.to_le_bytes() }
#[verifier::external_body]
pub fn shim_u32_to_le_bytes(x: u32) -> (r: [u8; 4]) ensures r@ == le_bytes32(x) { x.to_le_bytes() }
#[verifier::external_body]
pub fn shim_u64_to_le_bytes(x: u64) -> (r: [u8; 8]) ensures r@ == le_bytes64(x) { x.to_le_bytes() }
/// from_le_bytes inverts to_le_bytes (and is injective)
#[verifier::external_body]
pub fn shim_u16_from_le_bytes(b: [u8; 2]) -> (r: u16)
    ensures le_bytes16(r) == b@, r as int == b@[0] as int + 256 * (b@[1] as int), forall|x: u16| le_bytes16(x) == b@ ==> x == r
{ u16::from_le_bytes(b) }
#[verifier::external_body]
pub fn shim_u64_from_le_bytes(b: [u8; 8]) -> (r: u64)
    ensures le_bytes64(r) == b@, forall|x: u64| le_bytes64(x) == b@ ==> x == r
{ u64::from_le_bytes(b) }
/// the idiom `uN::from_le_bytes(buf[lo..hi].try_into().internal_err(WRONG_OFFSET)?)` (rewrite 8); never fails for hi - lo == N/8
#[verifier::external_body]
pub fn shim_le_u16(b: &[u8], lo: usize, hi: usize) -> (r: Result<u16>)
    requires lo + 2 == hi, hi <= b@.len()
    ensures r is Ok, le_bytes16(r->Ok_0) == b@.subrange(lo as int, hi as int),
        r->Ok_0 as int == b@[lo as int] as int + 256 * (b@[lo + 1] as int),
        forall|x: u16| le_bytes16(x) == b@.subrange(lo as int, hi as int) ==> x == r->Ok_0
{ unimplemented!() }
#[verifier::external_body]
pub fn shim_le_u32(b: &[u8], lo: usize, hi: usize) -> (r: Result<u32>)
    requires lo + 4 == hi, hi <= b@.len()
    ensures r is Ok, le_bytes32(r->Ok_0) == b@.subrange(lo as int, hi as int),
        forall|x: u32| le_bytes32(x) == b@.subrange(lo as int, hi as int) ==> x == r->Ok_0
{ unimplemented!() }
#[verifier::external_body]
pub fn shim_le_u64(b: &[u8], lo: usize, hi: usize) -> (r: Result<u64>)
    requires lo + 8 == hi, hi <= b@.len()
    ensures r is Ok, le_bytes64(r->Ok_0) == b@.subrange(lo as int, hi as int),
        forall|x: u64| le_bytes64(x) == b@.subrange(lo as int, hi as int) ==> x == r->Ok_0
{ unimplemented!() }

// floats: byte images are uninterpreted; assumed: from_le_bytes inverts to_le_bytes bit for bit
pub uninterp spec fn f32_le(x: f32) -> Seq<u8>;
pub uninterp spec fn f64_le(x: f64) -> Seq<u8>;
pub uninterp spec fn f32_from_le(b: Seq<u8>) -> f32;
pub uninterp spec fn f64_from_le(b: Seq<u8>) -> f64;
#[verifier::external_body]
pub proof fn axiom_float_le_roundtrip()
    ensures forall|x: f32| #[trigger] f32_from_le(f32_le(x)) == x, forall|x: f64| #[trigger] f64_from_le(f64_le(x)) == x,
        forall|x: f32| (#[trigger] f32_le(x)).len() == 4, forall|x: f64| (#[trigger] f64_le(x)).len() == 8,
{}
#[verifier::external_body]
pub fn shim_f32_from_le_bytes(b: [u8; 4]) -> (r: f32) ensures r == f32_from_le(b@) { f32::from_le_bytes(b) }
#[verifier::external_body]
pub fn shim_f64_from_le_bytes(b: [u8; 8]) -> (r: f64) ensures r == f64_from_le(b@) { f64::from_le_bytes(b) }
pub open spec fn le128(b: Seq<u8>) -> u128 {
    (b[0] as u128) | (b[1] as u128) << 8 | (b[2] as u128) << 16 | (b[3] as u128) << 24
    | (b[4] as u128) << 32 | (b[5] as u128) << 40 | (b[6] as u128) << 48 | (b[7] as u128) << 56
    | (b[8] as u128) << 64 | (b[9] as u128) << 72 | (b[10] as u128) << 80 | (b[11] as u128) << 88
    | (b[12] as u128) << 96 | (b[13] as u128) << 104 | (b[14] as u128) << 112 | (b[15] as u128) << 120
}
#[verifier::external_body]
pub fn shim_u128_from_le_bytes(b: [u8; 16]) -> (r: u128) ensures r == le128(b@) { u128::from_le_bytes(b) }
#[verifier::external_body]
pub fn shim_u32_from_le_bytes(b: [u8; 4]) -> (r: u32) ensures le_bytes32(r) == b@, forall|x: u32| le_bytes32(x) == b@ ==> x == r { u32::from_le_bytes(b) }
/// `x.to_le_bytes()` for any of the types the crate serialises (method-call form, receiver type resolved by rustc)
pub trait LeShim: Sized {
    type Out;
    spec fn out_view(o: Self::Out) -> Seq<u8>;
    spec fn le_spec(self) -> Seq<u8>;
    fn to_le_bytes_shim(self) -> (r: Self::Out) ensures Self::out_view(r) == self.le_spec();
}
impl LeShim for u16 { type Out = [u8; 2]; open spec fn out_view(o: [u8; 2]) -> Seq<u8> { o@ } open spec fn le_spec(self) -> Seq<u8> { le_bytes16(self) }
    #[verifier::external_body] fn to_le_bytes_shim(self) -> (r: [u8; 2]) { self.to_le_bytes() } }
impl LeShim for u32 { type Out = [u8; 4]; open spec fn out_view(o: [u8; 4]) -> Seq<u8> { o@ } open spec fn le_spec(self) -> Seq<u8> { le_bytes32(self) }
    #[verifier::external_body] fn to_le_bytes_shim(self) -> (r: [u8; 4]) { self.to_le_bytes() } }
impl LeShim for u64 { type Out = [u8; 8]; open spec fn out_view(o: [u8; 8]) -> Seq<u8> { o@ } open spec fn le_spec(self) -> Seq<u8> { le_bytes64(self) }
    #[verifier::external_body] fn to_le_bytes_shim(self) -> (r: [u8; 8]) { self.to_le_bytes() } }
impl LeShim for f32 { type Out = [u8; 4]; open spec fn out_view(o: [u8; 4]) -> Seq<u8> { o@ } open spec fn le_spec(self) -> Seq<u8> { f32_le(self) }
    #[verifier::external_body] fn to_le_bytes_shim(self) -> (r: [u8; 4]) { self.to_le_bytes() } }
impl LeShim for f64 { type Out = [u8; 8]; open spec fn out_view(o: [u8; 8]) -> Seq<u8> { o@ } open spec fn le_spec(self) -> Seq<u8> { f64_le(self) }
    #[verifier::external_body] fn to_le_bytes_shim(self) -> (r: [u8; 8]) { self.to_le_bytes() } }

/// `vec![0_u8; n]` of the reader code, with the C09 allocation bound as precondition: one call may allocate a zeroed buffer only for a
/// size that is bounded by a constant of the format (largest one in the reader: MAX_XML_SIZE = 10 MiB), never for a number taken
/// unchecked from the file
#[verifier::external_body]
pub fn shim_vec_u8_zeros(n: usize) -> (r: Vec<u8>)
    requires n <= 0xA0_0000
    ensures r@.len() == n, forall|i: int| 0 <= i < n ==> r@[i] == 0u8
{ vec![0; n] }

