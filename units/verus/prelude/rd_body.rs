// ---- reader side above the page layer: packet/section header parsers, QueueReader, raw iterator ----
// `reader: &mut dyn Read` parameters are instantiated with the only reader the crate passes there,
// the extracted PagedReader (rewrite 3); read_exact is the restated+verified default method.

#[derive(Clone)]
struct Opaque {}

spec fn up4(p: int) -> int { if p % 4 == 0 { p } else { p + 4 - p % 4 } }

impl PagedReader {
    /// little-endian u16 of the logical stream at logical offset `at`
    spec fn l16(&self, at: int) -> int { self.lbyte(at) as int + 256 * (self.lbyte(at + 1) as int) }
}

// ---------------------------------------------------------------------------------------------
// packet.rs
// ---------------------------------------------------------------------------------------------
//@item src/packet.rs enum PacketHeader
//@enditem
//@item src/packet.rs struct IndexPacketHeader
//@enditem
//@item src/packet.rs struct DataPacketHeader
//@enditem
//@item src/packet.rs struct IgnoredPacketHeader
//@enditem

impl PacketHeader {
//@fn src/packet.rs PacketHeader read serves=C03,C08,C09,C17,C02 ret=r
//@rw reader: &mut dyn Read ==> reader: &mut PagedReader
//@sig
        requires old(reader).wf(),
        ensures final(reader).wf(), final(reader).same_file(old(reader)),
            match r {
                // first byte = packet kind; the length field (bytes 2..4, LE) + 1 is the whole packet length
                Ok(PacketHeader::Index(h)) => final(reader).offset == old(reader).offset + 16
                    && h.packet_length as int == old(reader).l16(old(reader).offset + 2) + 1 && old(reader).lbyte(old(reader).offset as int) == 0u8
                    && h.packet_length % 4 == 0,
                Ok(PacketHeader::Data(h)) => final(reader).offset == old(reader).offset + 6
                    && h.packet_length as int == old(reader).l16(old(reader).offset + 2) + 1 && old(reader).lbyte(old(reader).offset as int) == 1u8
                    && h.bytestream_count as int == old(reader).l16(old(reader).offset + 4) && h.bytestream_count > 0
                    && h.packet_length % 4 == 0,
                Ok(PacketHeader::Ignored(h)) => final(reader).offset == old(reader).offset + 4
                    && h.packet_length as int == old(reader).l16(old(reader).offset + 2) + 1 && old(reader).lbyte(old(reader).offset as int) == 2u8
                    && h.packet_length % 4 == 0,
                Err(_) => true },
//@endfn
}

impl IndexPacketHeader {
//@consts src/packet.rs IndexPacketHeader
//@fn src/packet.rs IndexPacketHeader read serves=C03,C08,C09 ret=r
//@rw reader: &mut dyn Read ==> reader: &mut PagedReader
//@rw for value in buffer\.iter\(\)\.skip\(7\) \{ ==> for vi in 7..buffer.len() { let value = &buffer[vi];
//@sig
        requires old(reader).wf(),
        ensures final(reader).wf(), final(reader).same_file(old(reader)),
            match r { Ok(h) => final(reader).offset == old(reader).offset + 15
                        && h.packet_length as int == old(reader).l16(old(reader).offset + 1) + 1 && h.packet_length % 4 == 0,
                      Err(_) => true },
//@loop 0 head
            invariant buffer@.len() == 15, reader.wf(), reader.same_file(old(reader)), reader.offset == old(reader).offset + 15,
                forall|i: int| 0 <= i < 15 ==> buffer@[i] == old(reader).lbyte(old(reader).offset + i),
//@endfn
}

impl DataPacketHeader {
//@consts src/packet.rs DataPacketHeader
//@fn src/packet.rs DataPacketHeader read serves=C03,C08,C09 ret=r
//@rw reader: &mut dyn Read ==> reader: &mut PagedReader
//@sig
        requires old(reader).wf(),
        ensures final(reader).wf(), final(reader).same_file(old(reader)),
            match r { Ok(h) => final(reader).offset == old(reader).offset + 5
                        && h.packet_length as int == old(reader).l16(old(reader).offset + 1) + 1 && h.packet_length % 4 == 0
                        && h.bytestream_count as int == old(reader).l16(old(reader).offset + 3) && h.bytestream_count > 0,
                      Err(_) => true },
//@endfn
}

impl IgnoredPacketHeader {
//@consts src/packet.rs IgnoredPacketHeader
//@fn src/packet.rs IgnoredPacketHeader read serves=C03,C08,C09 ret=r
//@rw reader: &mut dyn Read ==> reader: &mut PagedReader
//@sig
        requires old(reader).wf(),
        ensures final(reader).wf(), final(reader).same_file(old(reader)),
            match r { Ok(h) => final(reader).offset == old(reader).offset + 3
                        && h.packet_length as int == old(reader).l16(old(reader).offset + 1) + 1 && h.packet_length % 4 == 0,
                      Err(_) => true },
//@endfn
}

// ---------------------------------------------------------------------------------------------
// cv_section.rs
// ---------------------------------------------------------------------------------------------
//@item src/cv_section.rs struct CompressedVectorSectionHeader
//@enditem
impl CompressedVectorSectionHeader {
//@consts src/cv_section.rs CompressedVectorSectionHeader
//@fn src/cv_section.rs CompressedVectorSectionHeader read serves=C03,C08,C09,C17 ret=r
//@rw reader: &mut dyn Read ==> reader: &mut PagedReader
//@sig
        requires old(reader).wf(),
        ensures final(reader).wf(), final(reader).same_file(old(reader)),
            match r { Ok(h) => final(reader).offset == old(reader).offset + 32
                        && old(reader).lbyte(old(reader).offset as int) == 1u8 && h.section_length % 4 == 0
                        && le_bytes64(h.data_offset) == Seq::new(8, |i: int| old(reader).lbyte(old(reader).offset + 16 + i)),
                      Err(_) => true },
//@endfn
}

// ---------------------------------------------------------------------------------------------
// record.rs / pointcloud.rs types as far as the reader needs them
// ---------------------------------------------------------------------------------------------
//@item src/record.rs struct Record
//@rw name: RecordName ==> name: Opaque
//@enditem
//@item src/pointcloud.rs struct PointCloud
//@rw : (Option<)?(String|Transform|DateTime|CartesianBounds|SphericalBounds|IndexBounds|ColorLimits|IntensityLimits|Vec<String>|f64)>?, ==> : Opaque,
//@enditem
impl Clone for PointCloud {
    /// assumed: derive(Clone) is structural
    #[verifier::external_body]
    fn clone(&self) -> (r: Self) ensures r == *self { unimplemented!() }
}
type RawValues = Vec<RecordValue>;

#[verifier::external_body]
fn shim_vec_bsr(n: usize) -> (r: Vec<ByteStreamReadBuffer>)
    ensures r@.len() == n, forall|i: int| 0 <= i < n ==> (#[trigger] r@[i]).wf() && r@[i].rest().len() == 0 && r@[i].buffer@.len() == 0
{ unimplemented!() }
#[verifier::external_body]
fn shim_vec_queues(n: usize) -> (r: Vec<VecDeque<RecordValue>>)
    ensures r@.len() == n, forall|i: int| 0 <= i < n ==> (#[trigger] r@[i])@.len() == 0
{ unimplemented!() }
#[verifier::external_body]
fn shim_vec_usize_zeros(n: usize) -> (r: Vec<usize>)
    ensures r@.len() == n, forall|i: int| 0 <= i < n ==> r@[i] == 0
{ vec![0; n] }
#[verifier::external_body]
fn shim_resize_u8(v: &mut Vec<u8>, n: usize)
    ensures final(v)@.len() == n
{ v.resize(n, 0_u8) }

// ---------------------------------------------------------------------------------------------
// queue_reader.rs
// ---------------------------------------------------------------------------------------------
//@item src/queue_reader.rs struct QueueReader
//@rw <'a, T: Read \+ Seek> ==> <'a>
//@rw &'a mut PagedReader<T> ==> &'a mut PagedReader
//@enditem

/// type invariant of PointCloud (established by RecordDataType::from_node, XML side): integer ranges are ordered
spec fn proto_ok(p: Seq<Record>) -> bool {
    forall|i: int| 0 <= i < p.len() ==> match (#[trigger] p[i]).data_type {
        RecordDataType::ScaledInteger { min, max, .. } => min <= max,
        RecordDataType::Integer { min, max } => min <= max,
        _ => true,
    }
}
/// at least one record occupies bits (otherwise packets carry no information about the number of points)
spec fn has_sized(p: Seq<Record>) -> bool { exists|i: int| 0 <= i < p.len() && (#[trigger] p[i]).data_type.spec_bit_size() > 0 }

impl<'a> QueueReader<'a> {
    spec fn n(&self) -> int { self.pc.prototype@.len() as int }
    /// points completely decoded and not yet handed out
    spec fn avail(&self) -> int
        recommends self.n() > 0
    { min_len(self.queues@, self.n()) }
}
spec fn min_len(q: Seq<VecDeque<RecordValue>>, n: int) -> int
    decreases n
{ if n <= 0 { usize::MAX as int } else { let m = min_len(q, n - 1); if q[n - 1]@.len() < m { q[n - 1]@.len() as int } else { m } } }

// ---- advance / parse_byte_streams -------------------------------------------------------------
/// files are smaller than 512 PiB (keeps 8*offset inside usize; an assumption about the environment)
spec const MAX_FILE: int = 0x0800_0000_0000_0000;
/// every record is zero-width (min == max everywhere) and there is at least one: data packets then
/// carry no information about the number of points (finding F4)
spec fn all_zero_width(p: Seq<Record>) -> bool { p.len() > 0 && !has_sized(p) }
/// state-independent trigger for per-stream quantifiers
spec fn idx(i: int) -> bool { true }
/// sum of the first j byte-stream sizes announced in the data packet starting at logical offset `start`
spec fn sum_sizes(rd: &PagedReader, start: int, j: int) -> int
    decreases j
{ if j <= 0 { 0 } else { sum_sizes(rd, start, j - 1) + rd.l16(start + 6 + 2 * (j - 1)) } }

proof fn lemma_sum_sizes_nonneg(rd: &PagedReader, start: int, j: int)
    ensures sum_sizes(rd, start, j) >= 0
    decreases j
{ if j > 0 { lemma_sum_sizes_nonneg(rd, start, j - 1); } }

impl<'a> QueueReader<'a> {
    /// C09 potential: what sits in memory for stream i is paid for by input bytes already consumed
    spec fn paid(&self, i: int) -> bool {
        let bs = self.byte_streams@[i]; let q = self.queues@[i]@;
        &&& bs.buffer@.len() <= self.reader.offset
        &&& q.len() <= 8 * self.reader.offset
        &&& (self.pc.prototype@[i].data_type.spec_bit_size() > 0 ==> q.len() + bs.rest().len() <= 8 * self.reader.offset)
    }
    spec fn wf2(&self) -> bool {
        &&& self.reader.wf()
        &&& self.reader.log_file_size <= MAX_FILE
        &&& proto_ok(self.pc.prototype@)
        &&& self.buffer_sizes@.len() == self.n() && self.byte_streams@.len() == self.n() && self.queues@.len() == self.n()
        &&& forall|i: int| 0 <= i < self.n() ==> (#[trigger] self.byte_streams@[i]).wf()
        &&& forall|i: int| #[trigger] idx(i) && 0 <= i < self.n() ==> self.paid(i)
    }
}

impl<'a> QueueReader<'a> {
//@fn src/queue_reader.rs QueueReader new serves=C03,C08,C09,C17 ret=r
//@rw reader: &'a mut PagedReader<T> ==> reader: &'a mut PagedReader
//@rw vec!\[0; pc\.prototype\.len\(\)\] ==> shim_vec_usize_zeros(pc.prototype.len())
//@rw vec!\[ByteStreamReadBuffer::new\(\); pc\.prototype\.len\(\)\] ==> shim_vec_bsr(pc.prototype.len())
//@rw vec!\[VecDeque::new\(\); pc\.prototype\.len\(\)\] ==> shim_vec_queues(pc.prototype.len())
//@sig
        requires old(reader).wf(), proto_ok(pc.prototype@), old(reader).log_file_size <= MAX_FILE,
        ensures
            match r {
                // C17: fresh queues, absolute seeks only — nothing depends on the previous cursor or cache
                Ok(q) => q.wf2() && q.pc == *pc && q.reader.same_file(old(reader))
                    && (forall|i: int| 0 <= i < q.n() ==> (#[trigger] q.queues@[i])@.len() == 0 && (#[trigger] q.byte_streams@[i]).rest().len() == 0),
                Err(_) => final(reader).wf() && final(reader).same_file(old(reader)) },
//@endfn

//@fn src/queue_reader.rs QueueReader available serves=C03,C08,C09 ret=r
//@sig
        requires self.queues@.len() == self.n(),
        ensures self.n() == 0 ==> r == 0, self.n() > 0 ==> r == self.avail(),
            forall|i: int| 0 <= i < self.n() ==> r <= (#[trigger] self.queues@[i])@.len() || self.n() == 0,
//@rw for q in &self\.queues ==> for q in it: &self.queues
//@loop 0 head
            invariant self.queues@.len() == self.n(), av == min_len(self.queues@, it.index@ as int),
                forall|i: int| 0 <= i < it.index@ ==> av <= (#[trigger] self.queues@[i])@.len(),
//@endfn

//@fn src/queue_reader.rs QueueReader pop_point serves=C03,C08,C09,C01 ret=r
//@sig
        requires old(self).wf2(),
        ensures final(self).wf2(), final(self).reader == old(self).reader, final(self).pc == old(self).pc,
            final(self).byte_streams == old(self).byte_streams,
            match r {
                // one value from the front of each queue, in prototype order
                Ok(_) => final(output)@.len() == old(self).n()
                    && (forall|i: int| 0 <= i < old(self).n() ==> (#[trigger] old(self).queues@[i])@.len() > 0
                        && final(output)@[i] == old(self).queues@[i]@[0]
                        && final(self).queues@[i]@ =~= old(self).queues@[i]@.subrange(1, old(self).queues@[i]@.len() as int)),
                Err(e) => e is Internal && exists|i: int| 0 <= i < old(self).n() && (#[trigger] old(self).queues@[i])@.len() == 0 },
//@loop 0 head
            invariant
                self.wf2(), self.reader == old(self).reader, self.pc == old(self).pc, self.byte_streams == old(self).byte_streams,
                self.queues@.len() == old(self).queues@.len(),
                output@.len() == i,
                forall|j: int| 0 <= j < i ==> (#[trigger] old(self).queues@[j])@.len() > 0 && output@[j] == old(self).queues@[j]@[0]
                    && self.queues@[j]@ =~= old(self).queues@[j]@.subrange(1, old(self).queues@[j]@.len() as int),
                forall|j: int| i <= j < self.n() ==> self.queues@[j] == old(self).queues@[j],
//@endfn
}

impl<'a> QueueReader<'a> {
//@fn src/queue_reader.rs QueueReader advance serves=C03,C08,C09,C17,C01 ret=r
//@rw vec!\[0; ([^;]*)\];\n ==> shim_vec_u8_zeros(\1);\n
//@rw for \(i, bs\) in self\.buffer_sizes\.iter\(\)\.enumerate\(\) \{ ==> for i in 0..self.buffer_sizes.len() { let bs = &self.buffer_sizes[i];
//@rw self\.buffer\.resize\(\*bs, 0_u8\) ==> shim_resize_u8(&mut self.buffer, *bs)
//@rw for \(i, bs\) in self\.byte_streams\.iter\(\)\.enumerate\(\) \{ ==> for i in 0..self.byte_streams.len() { let bs = &self.byte_streams[i];
//@rw for i in 0\.\.self\.buffer_sizes\.len\(\) ==> for i in it: 0..self.buffer_sizes.len()
//@rw for i in 0\.\.self\.byte_streams\.len\(\) ==> for i in it: 0..self.byte_streams.len()
//@sig
        requires old(self).wf2(),
            // excluding precondition of known finding F4 (all records zero-width): see advance__F4 below
            !all_zero_width(old(self).pc.prototype@),
        ensures
            final(self).reader.wf(), final(self).reader.same_file(&*old(self).reader), final(self).pc == old(self).pc,
            match r {
                Ok(_) => ({
                    let start = old(self).reader.offset as int;
                    let rd = &*old(self).reader;
                    let kind = rd.lbyte(start);
                    &&& final(self).wf2()
                    // progress: every successful call consumes input (termination of the iterators, C09)
                    &&& final(self).reader.offset > old(self).reader.offset
                    // C03: index and ignored packets are skipped by exactly their declared length
                    &&& ((kind == 0u8 || kind == 2u8) ==> final(self).reader.offset == up4(start + rd.l16(start + 2) + 1)
                            && final(self).queues == old(self).queues && final(self).byte_streams == old(self).byte_streams)
                    // data packet: header, n sizes, then the streams, then alignment
                    &&& (kind == 1u8 ==> final(self).reader.offset == up4(start + 6 + 2 * old(self).n() + sum_sizes(rd, start, old(self).n())))
                    &&& forall|i: int| 0 <= i < old(self).n() ==> (#[trigger] final(self).queues@[i])@.len() >= old(self).queues@[i]@.len()
                }),
                Err(_) => true },
//@body_start
        let ghost start = self.reader.offset as int;
        let ghost n = self.n();
//@loop 0 head
                    invariant
                        start == old(self).reader.offset, n == old(self).n(), n == self.n(), it.snapshot@.end == n,
                        self.reader.wf(), self.reader.same_file(&*old(self).reader), self.pc == old(self).pc,
                        self.reader.offset == start + 6 + 2 * i,
                        self.byte_streams == old(self).byte_streams, self.queues == old(self).queues,
                        self.buffer_sizes@.len() == n,
                        forall|j: int| 0 <= j < i ==> #[trigger] self.buffer_sizes@[j] == old(self).reader.l16(start + 6 + 2 * j),
//@loop 1 before
                proof {
                    assert forall|j: int| #[trigger] idx(j) && 0 <= j < n implies self.paid(j) by { assert(old(self).paid(j)); }
                }
//@loop 1 head
                    invariant
                        start == old(self).reader.offset, n == old(self).n(), n == self.n(), it.snapshot@.end == n,
                        self.reader.wf(), self.reader.same_file(&*old(self).reader), self.pc == old(self).pc,
                        self.reader.log_file_size <= MAX_FILE,
                        self.reader.offset == start + 6 + 2 * n + sum_sizes(&*old(self).reader, start, i as int),
                        self.queues == old(self).queues,
                        self.buffer_sizes@.len() == n, self.byte_streams@.len() == n, self.queues@.len() == n,
                        forall|j: int| 0 <= j < n ==> #[trigger] self.buffer_sizes@[j] == old(self).reader.l16(start + 6 + 2 * j),
                        forall|j: int| 0 <= j < n ==> (#[trigger] self.byte_streams@[j]).wf(),
                        forall|j: int| #[trigger] idx(j) && 0 <= j < n ==> self.paid(j),
//@loop 1 body_start
                    let ghost pre = *self;
                    proof { assert(idx(i as int)); assert(self.paid(i as int)); }
//@loop 1 body_end
                    proof {
                        assert forall|j: int| #[trigger] idx(j) && 0 <= j < n implies self.paid(j) by {
                            assert(pre.paid(j));
                            if j != i { assert(self.byte_streams@[j] == pre.byte_streams@[j]); }
                        }
                    }
//@loop 2 before
                let ghost pre2 = *self;
//@loop 2 head
                    invariant
                        *self == pre2, n == self.n(), it.snapshot@.end == n,
                        self.reader.wf(), self.reader.log_file_size <= MAX_FILE,
                        self.byte_streams@.len() == n, self.queues@.len() == n,
                        forall|j: int| 0 <= j < n ==> (#[trigger] self.byte_streams@[j]).wf(),
                        forall|j: int| #[trigger] idx(j) && 0 <= j < n ==> self.paid(j),
                        min_queue_size == usize::MAX || min_queue_size <= 8 * self.reader.offset,
                        forall|j: int| 0 <= j < i && j < n && self.pc.prototype@[j].data_type.spec_bit_size() > 0 ==> min_queue_size <= 8 * self.reader.offset,
//@stmt 0 before let items = bs_items \+ queue_items
                        proof {
                            let a = bs.rest().len() as int; let d = bit_size as int;
                            assert(a / d <= a) by (nonlinear_arith) requires a >= 0, d >= 1;
                            assert(idx(i as int));
                            assert(self.paid(i as int));
                        }
//@call parse_byte_streams 0 before
                proof {
                    lemma_sum_sizes_nonneg(&*old(self).reader, start, n);
                    assert(has_sized(self.pc.prototype@));
                    let j = choose|j: int| 0 <= j < self.pc.prototype@.len() && (#[trigger] self.pc.prototype@[j]).data_type.spec_bit_size() > 0;
                    assert(min_queue_size <= 8 * self.reader.offset);
                }
//@endfn

    // known finding F4: without the excluding precondition (all records zero-width) the same function fails
    // the precondition of parse_byte_streams: min_queue_size stays usize::MAX and the zero-width fill never stops
//@dupfn QueueReader::advance rename=advance__F4 serves=C09 known ;; !all_zero_width\(old\(self\)\.pc\.prototype@\), ==> <empty> ;; assert\(has_sized\(self\.pc\.prototype@\)\); ==> <empty>

//@fn src/queue_reader.rs QueueReader parse_byte_streams serves=C03,C08,C09 ret=r
//@rw for \(i, r\) in self\.pc\.prototype\.iter\(\)\.enumerate\(\) \{ ==> for i in 0..self.pc.prototype.len() { let r = &self.pc.prototype[i];
//@sig
        requires old(self).wf2(), min_queue_size <= 8 * old(self).reader.offset,
        ensures final(self).wf2(), r is Ok,
            *final(self).reader == *old(self).reader, final(self).pc == old(self).pc, final(self).buffer_sizes == old(self).buffer_sizes,
            forall|i: int| 0 <= i < old(self).n() ==> (#[trigger] final(self).queues@[i])@.len() >= old(self).queues@[i]@.len(),
//@loop 0 head
            invariant
                self.wf2(), *self.reader == *old(self).reader, self.pc == old(self).pc, self.buffer_sizes == old(self).buffer_sizes,
                min_queue_size <= 8 * self.reader.offset, old(self).queues@.len() == self.n(),
                forall|j: int| 0 <= j < self.n() ==> (#[trigger] self.queues@[j])@.len() >= old(self).queues@[j]@.len(),
//@loop 0 body_start
            proof {
                match self.pc.prototype@[i as int].data_type {
                    RecordDataType::ScaledInteger { min, max, .. } => lemma_width(min, max),
                    RecordDataType::Integer { min, max } => lemma_width(min, max),
                    _ => {}
                }
                assert(idx(i as int)); assert(self.paid(i as int));
            }
            let ghost pre = *self;
//@loop 0 body_end
            proof {
                let w = pre.pc.prototype@[i as int].data_type.spec_bit_size();
                if w > 0 {
                    let len = pre.byte_streams@[i as int].rest().len() as int;
                    let k = len / w;
                    vstd::arithmetic::div_mod::lemma_fundamental_div_mod(len, w);
                    vstd::arithmetic::div_mod::lemma_mod_bound(len, w);
                    assert(w * k == k * w) by (nonlinear_arith);
                    assert(k <= k * w) by (nonlinear_arith) requires w >= 1, k >= 0;
                    assert(self.byte_streams@[i as int].rest().len() == len - k * w);
                }
                lemma_paid_step(pre, *self, i as int);
                assert forall|j: int| 0 <= j < self.n() implies (#[trigger] self.queues@[j])@.len() >= old(self).queues@[j]@.len() by {
                    assert(pre.queues@[j]@.len() >= old(self).queues@[j]@.len());
                    if j != i { assert(self.queues@[j] == pre.queues@[j]); }
                }
            }
//@loop 1 head
                            invariant
                                self.reader == pre.reader, self.pc == pre.pc, self.buffer_sizes == pre.buffer_sizes, self.byte_streams == pre.byte_streams,
                                self.queues@.len() == pre.queues@.len(), i < self.queues@.len(),
                                forall|j: int| 0 <= j < self.queues@.len() && j != i ==> self.queues@[j] == pre.queues@[j],
                                self.queues@[i as int]@.len() >= pre.queues@[i as int]@.len(),
                                self.queues@[i as int]@.len() <= min_queue_size || self.queues@[i as int]@.len() == pre.queues@[i as int]@.len(),
                            decreases min_queue_size - self.queues@[i as int]@.len(),
//@loop 2 head
                            invariant
                                self.reader == pre.reader, self.pc == pre.pc, self.buffer_sizes == pre.buffer_sizes, self.byte_streams == pre.byte_streams,
                                self.queues@.len() == pre.queues@.len(), i < self.queues@.len(),
                                forall|j: int| 0 <= j < self.queues@.len() && j != i ==> self.queues@[j] == pre.queues@[j],
                                self.queues@[i as int]@.len() >= pre.queues@[i as int]@.len(),
                                self.queues@[i as int]@.len() <= min_queue_size || self.queues@[i as int]@.len() == pre.queues@[i as int]@.len(),
                            decreases min_queue_size - self.queues@[i as int]@.len(),
//@endfn
}

/// one record handled by parse_byte_streams: only stream/queue i changed, and in a way that keeps it paid
proof fn lemma_paid_step(pre: QueueReader, post: QueueReader, i: int)
    requires pre.wf2(), 0 <= i < pre.n(),
        post.reader == pre.reader, post.pc == pre.pc, post.buffer_sizes == pre.buffer_sizes,
        post.byte_streams@.len() == pre.byte_streams@.len(), post.queues@.len() == pre.queues@.len(),
        forall|j: int| 0 <= j < pre.n() && j != i ==> post.byte_streams@[j] == pre.byte_streams@[j] && post.queues@[j] == pre.queues@[j],
        post.byte_streams@[i].wf(), post.byte_streams@[i].buffer@ == pre.byte_streams@[i].buffer@,
        post.queues@[i]@.len() <= 8 * pre.reader.offset,
        pre.pc.prototype@[i].data_type.spec_bit_size() > 0 ==>
            post.queues@[i]@.len() + post.byte_streams@[i].rest().len() <= pre.queues@[i]@.len() + pre.byte_streams@[i].rest().len(),
    ensures post.wf2()
{
    assert forall|j: int| #[trigger] idx(j) && 0 <= j < post.n() implies post.paid(j) by {
        if j != i { assert(pre.paid(j)); } else { assert(pre.paid(i)); }
    }
}

// ---------------------------------------------------------------------------------------------
// pc_reader_raw.rs
// ---------------------------------------------------------------------------------------------
//@item src/pc_reader_raw.rs struct PointCloudReaderRaw
//@rw <'a, T: Read \+ Seek> ==> <'a>
//@rw QueueReader<'a, T> ==> QueueReader<'a>
//@enditem

impl<'a> PointCloudReaderRaw<'a> {
    spec fn wf(&self) -> bool {
        &&& self.queue_reader.wf2()
        &&& !all_zero_width(self.queue_reader.pc.prototype@)
    }

//@fn src/pc_reader_raw.rs PointCloudReaderRaw new serves=C03,C08,C09,C17,C01 ret=r
//@rw reader: &'a mut PagedReader<T> ==> reader: &'a mut PagedReader
//@sig
        requires old(reader).wf(), proto_ok(pc.prototype@), old(reader).log_file_size <= MAX_FILE, !all_zero_width(pc.prototype@),
        ensures match r {
            Ok(it) => it.wf() && it.read == 0 && it.records == pc.records && it.queue_reader.pc == *pc
                && it.queue_reader.reader.same_file(old(reader)),
            Err(_) => final(reader).wf() && final(reader).same_file(old(reader)) },
//@endfn

//@fn src/pc_reader_raw.rs PointCloudReaderRaw next trait=Iterator serves=C03,C08,C09,C01 ret=r
//@rw Option<Self::Item> ==> Option<Result<RawValues>>
//@sig
        requires old(self).wf(),
        ensures final(self).records == old(self).records,
            // the page reader stays well-formed on every exit; the iterator itself is specified up to its first Err (C09)
            final(self).queue_reader.reader.wf(),
            final(self).queue_reader.reader.same_file(&*old(self).queue_reader.reader),
            !(r matches Some(Err(_))) ==> final(self).wf(),
            match r {
                // C09: never more points than the declared record count
                None => old(self).read >= old(self).records && final(self).read == old(self).read,
                // one complete point (one value per prototype record), counted
                Some(Ok(p)) => old(self).read < old(self).records && final(self).read == old(self).read + 1
                    && p@.len() == old(self).queue_reader.n(),
                Some(Err(_)) => final(self).read == old(self).read,
            },
//@loop 0 head
            invariant
                self.wf(), self.records == old(self).records, self.read == old(self).read, self.prototype_len == old(self).prototype_len,
                self.queue_reader.pc == old(self).queue_reader.pc,
                self.queue_reader.reader.same_file(&*old(self).queue_reader.reader),
            // C09: every refill consumes input; the cursor is bounded by the logical file size
            decreases self.queue_reader.reader.log_file_size + 8 - self.queue_reader.reader.offset,
//@endfn

//@fn src/pc_reader_raw.rs PointCloudReaderRaw size_hint trait=Iterator serves=C08,C09 ret=r
//@sig
        requires self.read <= self.records,
//@endfn
}
