// ---- device model (DESIGN §4.3): the one environment assumption -------------------------------
// std::io::{Read, Write, Seek} on a Cursor<Vec<u8>> / regular file, plus fault injection: every
// operation may fail (and then sets the ghost flag `failed`), `read` may be short in any way.
pub enum SeekFrom { Start(u64), End(i64), Current(i64) }
pub struct Dev { pub data: Vec<u8>, pub pos: u64, pub failed: Ghost<bool>,
    /// C15 history variables: `dirty` = number of device writes so far that carried a non-zero byte for device bytes 32..40
    /// (the XML-length field of the file header); `snap` = the device image just before the first such write
    pub dirty: Ghost<nat>, pub snap: Ghost<Seq<u8>> }
/// byte that a write of `buf` at `pos` puts at device offset i (0 if the write does not cover it)
pub open spec fn wr_byte(pos: int, buf: Seq<u8>, i: int) -> u8 { if pos <= i < pos + buf.len() { buf[i - pos] } else { 0u8 } }
/// the write carries a non-zero byte for the XML-length field (device bytes 32..40)
pub open spec fn hdr_touch(pos: int, buf: Seq<u8>) -> bool {
    wr_byte(pos, buf, 32) != 0 || wr_byte(pos, buf, 33) != 0 || wr_byte(pos, buf, 34) != 0 || wr_byte(pos, buf, 35) != 0
    || wr_byte(pos, buf, 36) != 0 || wr_byte(pos, buf, 37) != 0 || wr_byte(pos, buf, 38) != 0 || wr_byte(pos, buf, 39) != 0
}

impl Dev {
    #[verifier::external_body]
    pub fn seek(&mut self, s: SeekFrom) -> (r: std::result::Result<u64, IoError>)
        requires s is Start || (s is End && s->End_0 == 0),
        ensures final(self).data@ == old(self).data@, final(self).dirty@ == old(self).dirty@, final(self).snap@ == old(self).snap@,
            match r {
                Ok(p) => final(self).pos == p && final(self).failed@ == old(self).failed@
                    && (s is Start ==> p == s->Start_0) && (s is End ==> p == old(self).data@.len())
                    // environment: device sizes fit off_t
                    && (s is End ==> p <= 0x7fff_ffff_ffff_ffff),
                Err(_) => final(self).failed@ },
    { unimplemented!() }

    #[verifier::external_body]
    pub fn stream_position(&mut self) -> (r: std::result::Result<u64, IoError>)
        ensures final(self).data@ == old(self).data@, final(self).dirty@ == old(self).dirty@, final(self).snap@ == old(self).snap@,
            match r { Ok(p) => final(self).pos == old(self).pos && p == old(self).pos && final(self).failed@ == old(self).failed@,
                      Err(_) => final(self).failed@ },
    { unimplemented!() }

    /// std `write_all` on the device: all bytes at pos (overwrite / extend, no holes), or Err after an
    /// unspecified prefix was written (torn write)
    #[verifier::external_body]
    pub fn write_all(&mut self, buf: &[u8]) -> (r: std::result::Result<(), IoError>)
        requires old(self).pos <= old(self).data@.len(),
        ensures
            // C15 history: every write (complete or torn) that carries a non-zero byte for device bytes 32..40 is counted
            final(self).dirty@ == old(self).dirty@ + (if hdr_touch(old(self).pos as int, buf@) { 1nat } else { 0nat }),
            final(self).snap@ == (if old(self).dirty@ == 0 && hdr_touch(old(self).pos as int, buf@) { old(self).data@ } else { old(self).snap@ }),
            match r {
            Ok(_) => final(self).pos == old(self).pos + buf@.len() && final(self).failed@ == old(self).failed@
                // environment: a device never grows beyond off_t (the write fails with EFBIG instead)
                && final(self).data@.len() <= 0x7fff_ffff_ffff_ffff
                && final(self).data@ =~= old(self).data@.subrange(0, old(self).pos as int) + buf@
                    + (if old(self).pos + buf@.len() <= old(self).data@.len() { old(self).data@.subrange(old(self).pos + buf@.len(), old(self).data@.len() as int) } else { Seq::<u8>::empty() }),
            Err(_) => final(self).failed@
                // torn write: some prefix of buf has reached the device, everything else is as before
                && exists|n: int| 0 <= n <= buf@.len() && #[trigger] torn(old(self).data@, old(self).pos as int, buf@, n, final(self).data@) },
    { unimplemented!() }

    /// any short-read schedule: 1 <= n <= min(len, remaining), 0 exactly at the end (or empty buffer)
    #[verifier::external_body]
    pub fn read(&mut self, buf: &mut [u8]) -> (r: std::result::Result<usize, IoError>)
        ensures final(self).data@ == old(self).data@, final(buf)@.len() == old(buf)@.len(), final(self).dirty@ == old(self).dirty@, final(self).snap@ == old(self).snap@,
            match r {
                Ok(n) => n <= old(buf)@.len() && old(self).pos + n <= (if old(self).pos <= old(self).data@.len() { old(self).data@.len() as int } else { old(self).pos as int })
                    && final(self).pos == old(self).pos + n && final(self).failed@ == old(self).failed@
                    && (n == 0 <==> (old(buf)@.len() == 0 || old(self).pos >= old(self).data@.len()))
                    && final(buf)@ =~= old(self).data@.subrange(old(self).pos as int, old(self).pos + n) + old(buf)@.subrange(n as int, old(buf)@.len() as int),
                Err(_) => final(self).failed@ },
    { unimplemented!() }

    /// std `read_exact`: fills the buffer or fails (also at end of data); a failed call may have
    /// clobbered any part of the buffer
    #[verifier::external_body]
    pub fn read_exact(&mut self, buf: &mut [u8]) -> (r: std::result::Result<(), IoError>)
        ensures final(self).data@ == old(self).data@, final(buf)@.len() == old(buf)@.len(), final(self).dirty@ == old(self).dirty@, final(self).snap@ == old(self).snap@,
            match r {
                Ok(_) => old(self).pos + old(buf)@.len() <= old(self).data@.len()
                    && final(self).pos == old(self).pos + old(buf)@.len() && final(self).failed@ == old(self).failed@
                    && final(buf)@ =~= old(self).data@.subrange(old(self).pos as int, old(self).pos + old(buf)@.len()),
                // error: either the device failed, or the data ended early (UnexpectedEof)
                Err(_) => final(self).failed@ || old(self).pos + old(buf)@.len() > old(self).data@.len() },
    { unimplemented!() }

    #[verifier::external_body]
    pub fn flush(&mut self) -> (r: std::result::Result<(), IoError>)
        ensures final(self).data@ == old(self).data@, final(self).pos == old(self).pos, final(self).dirty@ == old(self).dirty@, final(self).snap@ == old(self).snap@,
            match r { Ok(_) => final(self).failed@ == old(self).failed@, Err(_) => final(self).failed@ },
    { unimplemented!() }
}
/// device content after a torn write of the first n bytes of buf at pos
pub open spec fn torn(d0: Seq<u8>, pos: int, buf: Seq<u8>, n: int, d1: Seq<u8>) -> bool {
    &&& d1.len() == (if pos + n <= d0.len() { d0.len() as int } else { pos + n })
    &&& forall|i: int| 0 <= i < d1.len() ==> #[trigger] d1[i] == (if pos <= i < pos + n { buf[i - pos] } else { d0[i] })
}

pub assume_specification<T: Clone> [<[T]>::fill] (s: &mut [T], v: T)
    ensures final(s)@.len() == old(s)@.len(), forall|i: int| 0 <= i < final(s)@.len() ==> final(s)@[i] == v;

// ---- page format (DESIGN §4.2) -----------------------------------------------------------------
pub uninterp spec fn crc32c(s: Seq<u8>) -> u32;
pub uninterp spec fn be4(x: u32) -> Seq<u8>;
#[verifier::external_body]
pub proof fn be4_len(x: u32) ensures be4(x).len() == 4 {}
pub open spec fn page(d: Seq<u8>, k: int) -> Seq<u8> { d.subrange(1024 * k, 1024 * k + 1024) }
/// bytes 1020..1024 of a page are the big-endian bytes of the checksum of bytes 0..1020
pub open spec fn sealed_page(pg: Seq<u8>) -> bool { pg.len() == 1024 && pg.subrange(1020, 1024) == be4(crc32c(pg.subrange(0, 1020))) }
pub open spec fn all_sealed(d: Seq<u8>) -> bool { forall|k: int| 0 <= k < d.len() / 1024 ==> sealed_page(#[trigger] page(d, k)) }
/// physical offset of logical offset l: skip 4 checksum bytes per 1020 payload bytes
#[verifier::opaque]
pub open spec fn phys(l: int) -> int { (l / 1020) * 1024 + l % 1020 }
/// logical offset of a physical offset outside checksum bytes
#[verifier::opaque]
pub open spec fn unphys(p: int) -> int { 1020 * (p / 1024) + p % 1024 }
/// the logical byte stream stored on a device image: first 1020 bytes of every 1024-byte page
pub open spec fn logical(d: Seq<u8>) -> Seq<u8> {
    Seq::new((1020 * (d.len() / 1024)) as nat, |i: int| d[phys(i)])
}

/// the checksum implementation seen through its contract (the CRC unit relates it to CRC-32C)
pub struct Crc32 { pub table: [u32; 256] }
impl Crc32 {
    #[verifier::external_body]
    pub fn new() -> (r: Self) { unimplemented!() }
    #[verifier::external_body]
    pub fn calculate(&mut self, data: &[u8]) -> (r: u32)
        ensures r == crc32c(data@)
    { unimplemented!() }
}
#[verifier::external_body]
pub fn shim_u32_to_be_bytes(x: u32) -> (r: [u8; 4])
    ensures r@ == be4(x)
{ x.to_be_bytes() }
#[verifier::external_body]
pub fn shim_u32_from_be_bytes(b: [u8; 4]) -> (r: u32)
    ensures be4(r) == b@, forall|x: u32| be4(x) == b@ ==> x == r
{ u32::from_be_bytes(b) }
