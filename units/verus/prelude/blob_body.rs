// ---- blob.rs on top of the extracted PagedWriter / PagedReader ---------------------------------
// `reader: &mut dyn Read` (source of Blob::write) and `writer: &mut dyn Write` (sink of Blob::read) are the
// caller's streams: ghost-sequence models with the std::io::{Read, Write} contracts (rewrite 12).
struct Source { data: Vec<u8>, pos: usize, failed: Ghost<bool> }
impl Source {
    spec fn remaining(&self) -> Seq<u8> { self.data@.subrange(self.pos as int, self.data@.len() as int) }
    spec fn wf(&self) -> bool { self.pos <= self.data@.len() }
    /// std::io::Read::read: any short count, 0 exactly at the end (or for an empty buffer), or an error
    #[verifier::external_body]
    fn read(&mut self, buf: &mut [u8]) -> (r: std::result::Result<usize, IoError>)
        requires old(self).wf()
        ensures final(self).wf(), final(self).data@ == old(self).data@, final(buf)@.len() == old(buf)@.len(),
            match r {
                Ok(n) => n <= old(buf)@.len() && final(self).pos == old(self).pos + n && old(self).pos + n <= old(self).data@.len()
                    && (n == 0 <==> (old(buf)@.len() == 0 || old(self).pos == old(self).data@.len()))
                    && final(buf)@.subrange(0, n as int) =~= old(self).data@.subrange(old(self).pos as int, old(self).pos + n)
                    && final(self).failed@ == old(self).failed@,
                Err(_) => final(self).failed@ },
    { unimplemented!() }
}
struct Sink { data: Vec<u8>, failed: Ghost<bool> }
impl Sink {
    /// std::io::Write::write_all: everything appended, or an error (after an unspecified prefix)
    #[verifier::external_body]
    fn write_all(&mut self, buf: &[u8]) -> (r: std::result::Result<(), IoError>)
        ensures match r {
            Ok(_) => final(self).data@ =~= old(self).data@ + buf@ && final(self).failed@ == old(self).failed@,
            Err(_) => final(self).failed@ },
    { unimplemented!() }
}

// ---- format specification (E57 standard; confirmed on files written by libE57Format and las2e57 in testdata) ----
/// blob section header: 16 bytes, byte 0 = section id 0, bytes 1..8 reserved zero, bytes 8..16 = section length (LE)
spec fn spec_blob_header(section_length: u64) -> Seq<u8> {
    Seq::new(16, |i: int| if i < 8 { 0u8 } else { le_bytes64(section_length)[i - 8] })
}
#[verifier::opaque]
spec fn up4(p: int) -> int { if p % 4 == 0 { p } else { p + 4 - p % 4 } }
/// arithmetic of the blob section: padded length as computed by the code, and the padding written by align
proof fn lemma_blob_lengths(c0: int, len: int, cfin: int)
    requires c0 >= 0, c0 % 4 == 0, len >= 0, cfin % 4 == 0, cfin >= c0 + 16 + len, cfin - (c0 + 16 + len) < 4
    ensures cfin - (c0 + 16 + len) == up4(16 + len) - 16 - len,
        (16 + len) + (4 - (16 + len) % 4) % 4 == up4(16 + len), up4(16 + len) >= 16 + len, up4(16 + len) <= 16 + len + 3
{ reveal(up4); }
/// the section length counts the header, the payload and the padding to the next 4-byte boundary
spec fn spec_blob_section_length(payload: int) -> int { up4(16 + payload) }
spec fn zeros(n: int) -> Seq<u8> { Seq::new(n as nat, |i: int| 0u8) }

proof fn lemma_div_split(a: int, b: int)
    requires a >= 0, b >= 0
    ensures a / 1020 + (a % 1020 + b) / 1020 == (a + b) / 1020
{
    vstd::arithmetic::div_mod::lemma_fundamental_div_mod(a, 1020);
    vstd::arithmetic::div_mod::lemma_fundamental_div_mod(a % 1020 + b, 1020);
    vstd::arithmetic::div_mod::lemma_fundamental_div_mod_converse(a + b, 1020, a / 1020 + (a % 1020 + b) / 1020, (a % 1020 + b) % 1020);
}
/// std::io::copy(reader, writer), re-stated: read chunks until the source is exhausted, write_all each chunk.
/// Verified against the Source model and the extracted PagedWriter::write (through the restated write_all).
fn copy_into_writer(reader: &mut Source, writer: &mut PagedWriter) -> (r: std::result::Result<u64, IoError>)
    requires old(reader).wf(), old(writer).wf(),
    ensures final(reader).data@ == old(reader).data@,
        match r {
            Ok(n) => final(writer).wf() && n == old(reader).remaining().len() && final(reader).pos == old(reader).data@.len()
                && appended(*old(writer), *final(writer), old(reader).remaining())
                && final(writer).dl() >= old(writer).dl()
                && final(writer).no_new_fault(old(writer)) && final(reader).failed@ == old(reader).failed@,
            Err(_) => final(writer).writer.failed@ || final(reader).failed@ || true },
        /*[C15]*/ PagedWriter::c15_far(old(writer), final(writer), r is Ok),
{
    let mut buf = [0u8; 8192];
    let mut total: u64 = 0;
    let ghost w0 = *writer;
    let ghost all = reader.remaining();
    let ghost p0 = reader.pos as int;
    proof { lemma_appended_refl(*writer); assert(all.subrange(0, 0) =~= Seq::<u8>::empty()); }
    loop
        invariant
            reader.wf(), writer.wf(), reader.data@ == old(reader).data@, w0 == *old(writer), all == old(reader).remaining(),
            p0 == old(reader).pos, reader.pos == p0 + total, total <= all.len(),
            appended(w0, *writer, all.subrange(0, total as int)), w0.cursor() >= 0,
            writer.no_new_fault(&w0), reader.failed@ == old(reader).failed@,
            writer.dl() >= w0.dl(),
            (w0.quiet() && w0.cursor() >= 40) ==> writer.quiet(),
        ensures false
        decreases all.len() - total
    {
        proof { if writer.quiet() { lemma_quiet_clean(*writer); } }
        let n = match reader.read(&mut buf) { Ok(n) => n, Err(e) => return Err(e) };
        if n == 0 {
            proof { assert(all.subrange(0, total as int) =~= all); }
            return Ok(total);
        }
        let ghost wb = *writer;
        match writer.write_all(vstd::slice::slice_subrange(&buf, 0, n)) { Ok(_) => {}, Err(e) => return Err(e) };
        proof {
            let chunk = buf@.subrange(0, n as int);
            assert(chunk =~= all.subrange(total as int, total + n));
            lemma_appended_trans(w0, wb, *writer, all.subrange(0, total as int), chunk);
            assert(all.subrange(0, total as int) + chunk =~= all.subrange(0, total + n));
        }
        total = total + n as u64;
    }
}

//@item src/blob.rs struct Blob
//@enditem
//@item src/blob.rs struct BlobSectionHeader
//@enditem

impl BlobSectionHeader {
//@consts src/blob.rs BlobSectionHeader
//@fn src/blob.rs BlobSectionHeader from_array serves=C06,C08 ret=r
//@sig
        ensures match r {
            Ok(h) => buffer@[0] == 0u8 && le_bytes64(h.section_length) == buffer@.subrange(8, 16),
            Err(_) => buffer@[0] != 0u8 },
//@endfn

//@fn src/blob.rs BlobSectionHeader from_reader serves=C06,C08,C17 ret=r
//@rw <T: Read \+ Seek> ==> <empty>
//@rw PagedReader<T> ==> PagedReader
//@sig
        requires old(reader).wf(),
        ensures final(reader).wf(), final(reader).same_file(old(reader)),
            match r {
                Ok(h) => final(reader).offset == old(reader).offset + 16 && old(reader).lbyte(old(reader).offset as int) == 0u8
                    && (forall|i: int| 0 <= i < 8 ==> le_bytes64(h.section_length)[i] == old(reader).lbyte(old(reader).offset + 8 + i))
                    && (forall|i: int| 0 <= i < 16 ==> #[trigger] old(reader).page_ok(old(reader).offset + i)),
                Err(_) => true },
//@endfn

//@fn src/blob.rs BlobSectionHeader to_writer serves=C06,C02,C16,C15 ret=r
//@rw <T: Read \+ Write \+ Seek> ==> <empty>
//@rw PagedWriter<T> ==> PagedWriter
//@sig
        requires old(writer).wf(),
        ensures match r {
            // emits exactly the 16 header bytes of the format at the cursor
            Ok(_) => final(writer).wf() && appended(*old(writer), *final(writer), spec_blob_header(self.section_length))
                && final(writer).no_new_fault(old(writer)),
            Err(_) => true },
            /*[C15]*/ PagedWriter::c15_far(old(writer), final(writer), r is Ok),
//@tail
        proof { assert(bytes@ =~= spec_blob_header(self.section_length)); }
//@endfn
}

/// `reader.take(limit)` + `std::io::copy(&mut limited, writer)`, re-stated over the extracted PagedReader::read:
/// copies until `limit` bytes were transferred or the reader reports end of stream (Ok(0)).
fn copy_take(reader: &mut PagedReader, limit: u64, writer: &mut Sink) -> (r: std::result::Result<u64, IoError>)
    requires old(reader).wf(),
    ensures final(reader).wf(), final(reader).same_file(old(reader)),
        match r {
            Ok(n) => n <= limit && final(reader).offset == old(reader).offset + n
                // exactly the logical bytes at the cursor, in order, each from a page with a valid checksum
                && final(writer).data@.len() == old(writer).data@.len() + n
                && (forall|i: int| 0 <= i < old(writer).data@.len() ==> final(writer).data@[i] == old(writer).data@[i])
                && (forall|i: int| 0 <= i < n ==> final(writer).data@[old(writer).data@.len() + i] == #[trigger] old(reader).lbyte(old(reader).offset + i))
                && (forall|i: int| 0 <= i < n ==> #[trigger] old(reader).page_ok(old(reader).offset + i))
                // fewer than `limit` bytes only at the end of the logical stream
                && (n < limit ==> old(reader).offset + n >= old(reader).log_file_size)
                && final(reader).no_new_fault(old(reader)) && final(writer).failed@ == old(writer).failed@,
            Err(_) => true },
{
    let mut buf = [0u8; 8192];
    let mut total: u64 = 0;
    let ghost r0 = *reader;
    let ghost w0 = writer.data@;
    loop
        invariant
            reader.wf(), reader.same_file(&r0), r0 == *old(reader), r0.wf(), w0 == old(writer).data@,
            total <= limit, reader.offset == r0.offset + total,
            writer.data@.len() == w0.len() + total,
            forall|i: int| 0 <= i < w0.len() ==> writer.data@[i] == w0[i],
            forall|i: int| 0 <= i < total ==> writer.data@[w0.len() + i] == #[trigger] r0.lbyte(r0.offset + i),
            forall|i: int| 0 <= i < total ==> #[trigger] r0.page_ok(r0.offset + i),
            reader.no_new_fault(&r0), writer.failed@ == old(writer).failed@,
        ensures false
        decreases limit - total
    {
        if total == limit { return Ok(total); }
        let want: usize = if limit - total < 8192 { (limit - total) as usize } else { 8192 };
        let ghost rb = *reader;
        let n = match reader.read(&mut buf[..want]) { Ok(n) => n, Err(e) => return Err(e) };
        if n == 0 {
            proof {
                let pay = (r0.page_size - 4) as int;
                let cur = rb.offset as int;
                vstd::arithmetic::div_mod::lemma_fundamental_div_mod(cur, pay);
                assert(pay * (cur / pay) >= pay * r0.pages) by (nonlinear_arith) requires cur / pay >= r0.pages, pay > 0;
                assert(pay * r0.pages == r0.pages * pay) by (nonlinear_arith);
                vstd::arithmetic::div_mod::lemma_mod_bound(cur, pay);
            }
            return Ok(total);
        }
        let ghost wb = writer.data@;
        match writer.write_all(vstd::slice::slice_subrange(&buf, 0, n)) { Ok(_) => {}, Err(e) => return Err(e) };
        proof {
            let pay = (r0.page_size - 4) as int;
            let cur = rb.offset as int;
            let pg = cur / pay;
            vstd::arithmetic::div_mod::lemma_fundamental_div_mod(cur, pay);
            vstd::arithmetic::div_mod::lemma_mod_bound(cur, pay);
            assert(pay * pg == pg * pay) by (nonlinear_arith);
            assert forall|i: int| 0 <= i < n implies #[trigger] r0.page_ok(cur + i) by {
                vstd::arithmetic::div_mod::lemma_fundamental_div_mod_converse(cur + i, pay, pg, cur % pay + i);
            }
            assert forall|i: int| 0 <= i < total + n implies writer.data@[w0.len() + i] == #[trigger] r0.lbyte(r0.offset + i) by {
                if i >= total { assert(writer.data@[w0.len() + i] == buf@[i - total]); assert(buf@[i - total] == rb.lbyte(cur + (i - total))); }
                else { assert(writer.data@[w0.len() + i] == wb[w0.len() + i]); }
            }
            assert forall|i: int| 0 <= i < total + n implies #[trigger] r0.page_ok(r0.offset + i) by {
                if i >= total { assert(r0.page_ok(cur + (i - total))); }
            }
        }
        total = total + n as u64;
    }
}

impl Blob {
//@fn src/blob.rs Blob write serves=C06,C02,C16,C15 ret=r
//@rw <T: Read \+ Write \+ Seek> ==> <empty>
//@rw PagedWriter<T> ==> PagedWriter
//@rw reader: &mut dyn Read ==> reader: &mut Source
//@rw std::io::copy\(reader, writer\) ==> copy_into_writer(reader, writer)
//@sig
        requires old(writer).wf(), old(reader).wf(),
            // sections start 4-byte aligned (every writer of a section aligns afterwards)
            old(writer).cursor() % 4 == 0,
        ensures match r {
            Ok(b) => ({
                let payload = old(reader).remaining();
                let len = payload.len() as int;
                &&& final(writer).wf()
                // descriptor = (physical start of the section, payload length)
                &&& b.offset == phys(old(writer).cursor()) && b.length == len
                // on the logical stream: header(16) ++ bytes ++ zero pad; the header's length field counts header, payload and padding
                &&& appended(*old(writer), *final(writer),
                        spec_blob_header(spec_blob_section_length(len) as u64) + payload + zeros(up4(16 + len) - 16 - len))
                &&& final(writer).cursor() % 4 == 0
                &&& final(writer).no_new_fault(old(writer))
            }),
            Err(_) => true },
            /*[C15]*/ PagedWriter::c15_far(old(writer), final(writer), r is Ok),
//@body_start
        let ghost s0 = *writer;
        proof { lemma_cursor_bound(s0); if s0.quiet() { lemma_quiet_clean(s0); } }
        let ghost payload = reader.remaining();
//@call to_writer 0 after
        let ghost s1 = *writer;
//@call copy_into_writer 0 after
        let ghost s2 = *writer;
//@call physical_seek 0 after
        let ghost s3 = *writer;
        proof { lemma_phys_roundtrip(s0.cursor()); }
//@call to_writer 1 after
        let ghost s4 = *writer;
//@call physical_seek 1 after
        let ghost s5 = *writer;
        proof { lemma_phys_roundtrip(s2.cursor()); }
//@tail
        proof {
            let hdr0 = spec_blob_header(0);
            let hdr = spec_blob_header(section_header.section_length);
            lemma_appended_trans(s0, s1, s2, hdr0, payload);
            lemma_patch_prefix(s0, s2, s3, s4, s5, hdr0, payload, hdr);
            let pad = Seq::new((writer.cursor() - s5.cursor()) as nat, |i: int| 0u8);
            lemma_appended_trans(s0, s5, *writer, hdr + payload, pad);
            lemma_blob_lengths(s0.cursor(), payload.len() as int, writer.cursor());
            assert(pad =~= zeros(up4(16 + payload.len() as int) - 16 - payload.len()));
        }
//@endfn

//@fn src/blob.rs Blob read serves=C06,C07,C08,C09,C17 ret=r
//@rw <T: Read \+ Seek> ==> <empty>
//@rw PagedReader<T> ==> PagedReader
//@rw writer: &mut dyn Write ==> writer: &mut Sink
//@rw let mut limited = reader\.take\(self\.length\); ==> <empty>
//@rw \bcopy\(&mut limited, writer\) ==> copy_take(reader, self.length, writer)
//@sig
        requires old(reader).wf(),
        ensures final(reader).wf(), final(reader).same_file(old(reader)),
            match r {
                // C06: exactly `length` bytes — never silently fewer, more or other bytes than the descriptor says
                Ok(n) => ({
                    let l = self.offset as int - (self.offset as int / old(reader).page_size as int) * 4;
                    &&& n == self.length
                    &&& final(writer).data@.len() == old(writer).data@.len() + self.length
                    &&& forall|i: int| 0 <= i < old(writer).data@.len() ==> final(writer).data@[i] == old(writer).data@[i]
                    // the payload bytes behind the 16-byte section header at the descriptor's offset (C17: function of device bytes + descriptor)
                    &&& forall|i: int| 0 <= i < self.length ==> final(writer).data@[old(writer).data@.len() + i] == #[trigger] old(reader).lbyte(l + 16 + i)
                    &&& forall|i: int| 0 <= i < self.length ==> #[trigger] old(reader).page_ok(l + 16 + i)
                }),
                Err(_) => true },
//@call from_reader 0 after
        let ghost rh = *reader;
//@tail
        proof {
            let l = self.offset as int - (self.offset as int / old(reader).page_size as int) * 4;
            assert(rh.offset == l + 16);
            assert forall|i: int| 0 <= i < self.length implies writer.data@[old(writer).data@.len() + i] == #[trigger] old(reader).lbyte(l + 16 + i) by {
                assert(rh.lbyte(rh.offset + i) == old(reader).lbyte(l + 16 + i));
            }
            assert forall|i: int| 0 <= i < self.length implies #[trigger] old(reader).page_ok(l + 16 + i) by {
                assert(rh.page_ok(rh.offset + i));
            }
        }
//@endfn
}
