// ---- payload-free model of crate::error (rewrite 10): same variants, same Ok/Err mapping ----
pub enum Error { Invalid, Read, Write, Internal, NotImplemented }
pub type Result<T> = std::result::Result<T, Error>;
impl Error {
    pub fn invalid<T>(desc: &str) -> (r: Result<T>) ensures r is Err, r->Err_0 is Invalid { Err(Error::Invalid) }
    pub fn internal<T>(desc: &str) -> (r: Result<T>) ensures r is Err, r->Err_0 is Internal { Err(Error::Internal) }
    pub fn not_implemented<T>(desc: &str) -> (r: Result<T>) ensures r is Err, r->Err_0 is NotImplemented { Err(Error::NotImplemented) }
}
pub const WRONG_OFFSET: &'static str = "Wrong buffer offset detected";
pub trait Converter<T>: Sized {
    spec fn ok_spec(&self) -> bool;
    spec fn val_spec(&self) -> T;
    fn read_err(self, context: &str) -> (r: Result<T>)
        ensures (r is Ok) == self.ok_spec(), r is Ok ==> r->Ok_0 == self.val_spec(), r is Err ==> r->Err_0 is Read;
    fn invalid_err(self, context: &str) -> (r: Result<T>)
        ensures (r is Ok) == self.ok_spec(), r is Ok ==> r->Ok_0 == self.val_spec(), r is Err ==> r->Err_0 is Invalid;
    fn internal_err(self, context: &str) -> (r: Result<T>)
        ensures (r is Ok) == self.ok_spec(), r is Ok ==> r->Ok_0 == self.val_spec(), r is Err ==> r->Err_0 is Internal;
    fn write_err(self, context: &str) -> (r: Result<T>)
        ensures (r is Ok) == self.ok_spec(), r is Ok ==> r->Ok_0 == self.val_spec(), r is Err ==> r->Err_0 is Write;
}
impl<T, E> Converter<T> for std::result::Result<T, E> {
    open spec fn ok_spec(&self) -> bool { self is Ok }
    open spec fn val_spec(&self) -> T { self->Ok_0 }
    fn read_err(self, context: &str) -> (r: Result<T>) { match self { Ok(v) => Ok(v), Err(_) => Err(Error::Read) } }
    fn invalid_err(self, context: &str) -> (r: Result<T>) { match self { Ok(v) => Ok(v), Err(_) => Err(Error::Invalid) } }
    fn internal_err(self, context: &str) -> (r: Result<T>) { match self { Ok(v) => Ok(v), Err(_) => Err(Error::Internal) } }
    fn write_err(self, context: &str) -> (r: Result<T>) { match self { Ok(v) => Ok(v), Err(_) => Err(Error::Write) } }
}
impl<T> Converter<T> for Option<T> {
    open spec fn ok_spec(&self) -> bool { self is Some }
    open spec fn val_spec(&self) -> T { self->Some_0 }
    fn read_err(self, context: &str) -> (r: Result<T>) { match self { Some(v) => Ok(v), None => Err(Error::Read) } }
    fn invalid_err(self, context: &str) -> (r: Result<T>) { match self { Some(v) => Ok(v), None => Err(Error::Invalid) } }
    fn internal_err(self, context: &str) -> (r: Result<T>) { match self { Some(v) => Ok(v), None => Err(Error::Internal) } }
    fn write_err(self, context: &str) -> (r: Result<T>) { match self { Some(v) => Ok(v), None => Err(Error::Write) } }
}
