// ---- CRC-32C (Castagnoli), written from the definition (reflected bitwise division), not from the table code ----
/// one bit of the reflected division: shift right, xor the reversed polynomial 0x82F63B78 when a one falls out
pub open spec fn crc_bit(v: u32) -> u32 { if v & 1 == 0 { v >> 1 } else { (v >> 1) ^ 0x82F6_3B78u32 } }
pub open spec fn crc_bits(v: u32, k: nat) -> u32 decreases k { if k == 0 { v } else { crc_bit(crc_bits(v, (k - 1) as nat)) } }
/// shift register after the bytes of s (each byte xor-ed into the low end, then eight bit steps), starting from all ones
pub open spec fn crc_state(s: Seq<u8>) -> u32 decreases s.len() {
    if s.len() == 0 { 0xFFFF_FFFFu32 } else { crc_bits(crc_state(s.drop_last()) ^ (s.last() as u32), 8) }
}
/// CRC-32C of a byte string: final complement of the register
pub open spec fn crc32c_def(s: Seq<u8>) -> u32 { !crc_state(s) }
