// ---- RecordValue conversions: to_f64 contract-only (float arithmetic; proved on the real function by the Kani unit wr_k), to_i64 verified here ----
/// the real value of a record (scaled integers after scale and offset): to_f64's result
uninterp spec fn real_f64(v: RecordValue, dt: RecordDataType) -> f64;
spec fn int_of(v: RecordValue) -> i64 { match v { RecordValue::Integer(i) => i, _ => 0 } }
impl RecordValue {
    #[verifier::external_body]
    fn to_f64(&self, dt: &RecordDataType) -> (r: Result<f64>)
        ensures (r is Err) == (self is ScaledInteger && !(dt is ScaledInteger)), r is Ok ==> r->Ok_0 == real_f64(*self, *dt), r is Err ==> r->Err_0 is Internal
    { unimplemented!() }
//@fn src/record.rs RecordValue to_i64 serves=C14,C10 ret=r
//@sig
        ensures (r is Ok) == (self is Integer && dt is Integer), r is Ok ==> r->Ok_0 == int_of(*self), r is Err ==> r->Err_0 is Internal
//@endfn
}
