// ---- contract-only RecordValue conversions (proved on the real functions by the Kani unit wr_k) ----
/// the real value of a record (scaled integers after scale and offset): to_f64's result
uninterp spec fn real_f64(v: RecordValue, dt: RecordDataType) -> f64;
spec fn int_of(v: RecordValue) -> i64 { match v { RecordValue::Integer(i) => i, _ => 0 } }
impl RecordValue {
    #[verifier::external_body]
    fn to_f64(&self, dt: &RecordDataType) -> (r: Result<f64>)
        ensures (r is Err) == (self is ScaledInteger && !(dt is ScaledInteger)), r is Ok ==> r->Ok_0 == real_f64(*self, *dt), r is Err ==> r->Err_0 is Internal
    { unimplemented!() }
    #[verifier::external_body]
    fn to_i64(&self, dt: &RecordDataType) -> (r: Result<i64>)
        ensures (r is Ok) == (self is Integer && dt is Integer), r is Ok ==> r->Ok_0 == int_of(*self), r is Err ==> r->Err_0 is Internal
    { unimplemented!() }
}
