// ---- pc_reader_simple.rs: decoding table (pop_point) and iterator (next) ------------------------
//@item src/point.rs enum CartesianCoordinate
//@enditem
//@item src/point.rs enum SphericalCoordinate
//@enditem
//@item src/point.rs struct Color
//@enditem
//@item src/point.rs struct Point
//@enditem
//@item src/transform.rs struct Translation
//@enditem
//@item src/pc_reader_simple.rs struct Range
//@enditem
//@item src/pc_reader_simple.rs struct Indices
//@enditem
//@item src/pc_reader_simple.rs struct PointCloudReaderSimple
//@rw <'a, T: Read \+ Seek> ==> <'a>
//@rw QueueReader<'a, T> ==> QueueReader<'a>
//@enditem

/// Range::normalize / normalize_value: contract-only here (C13, Kani unit norm_k proves the real functions)
uninterp spec fn norm_spec(enabled: bool, value: f64, range: Option<Range>) -> f32;
// post-processing functions: contract-only here (C05 Kani unit simple_k proves structure and formulas on the real functions)
uninterp spec fn spec_to_cartesian(p: Point) -> Point;
uninterp spec fn spec_to_spherical(p: Point) -> Point;
uninterp spec fn spec_intensity_to_color(p: Point) -> Point;
uninterp spec fn spec_transform(p: Point, rotation: [f64; 9], translation: Translation) -> Point;
#[verifier::external_body] fn convert_to_cartesian(p: &mut Point) ensures *final(p) == spec_to_cartesian(*old(p)) { unimplemented!() }
#[verifier::external_body] fn convert_to_spherical(p: &mut Point) ensures *final(p) == spec_to_spherical(*old(p)) { unimplemented!() }
#[verifier::external_body] fn convert_intensity(p: &mut Point) ensures *final(p) == spec_intensity_to_color(*old(p)) { unimplemented!() }
#[verifier::external_body] fn transform_point(p: &mut Point, rotation: &[f64; 9], translation: &Translation)
    ensures *final(p) == spec_transform(*old(p), *rotation, *translation) { unimplemented!() }
/// Vec::reserve / VecDeque::reserve with the C09 allocation bound as precondition: one iterator step may only reserve room for
/// the points it has actually decoded from the input (`cap`), never an amount taken from an untrusted count in the file
#[verifier::external_body]
fn shim_reserve_vec(additional: usize, cap: usize, v: &mut Vec<Point>)
    requires additional <= cap
    ensures final(v)@ == old(v)@
{ unimplemented!() }
#[verifier::external_body]
fn shim_reserve_deque(additional: usize, cap: usize, v: &mut VecDeque<Point>)
    requires additional <= cap
    ensures final(v)@ == old(v)@
{ unimplemented!() }
#[verifier::external_body]
fn shim_move_all(buffer: &mut Vec<Point>, points: &mut VecDeque<Point>)
    ensures final(buffer)@.len() == 0, final(points)@ =~= old(points)@ + old(buffer)@
{ unimplemented!() }

// ---- the documented view of a raw point (C05), written from the property statement ----------------
/// invalid-state value: the attribute if stored, else 0 when the group exists, else `absent`
spec fn state_of(inv: Option<usize>, group: bool, absent: i64, vals: Seq<RecordValue>) -> i64 {
    match inv { Some(i) => int_of(vals[i as int]), None => if group { 0 } else { absent } }
}
spec fn real_at(vals: Seq<RecordValue>, proto: Seq<Record>, i: usize) -> f64 { real_f64(vals[i as int], proto[i as int].data_type) }
spec fn view_cartesian(ix: Indices, vals: Seq<RecordValue>, proto: Seq<Record>) -> CartesianCoordinate {
    let st = state_of(ix.cartesian_invalid, ix.cartesian is Some, 2, vals);
    match ix.cartesian {
        Some(t) => if st == 0 { CartesianCoordinate::Valid { x: real_at(vals, proto, t.0), y: real_at(vals, proto, t.1), z: real_at(vals, proto, t.2) } }
                   else if st == 1 { CartesianCoordinate::Direction { x: real_at(vals, proto, t.0), y: real_at(vals, proto, t.1), z: real_at(vals, proto, t.2) } }
                   else { CartesianCoordinate::Invalid },
        None => CartesianCoordinate::Invalid,
    }
}
spec fn view_spherical(ix: Indices, vals: Seq<RecordValue>, proto: Seq<Record>) -> SphericalCoordinate {
    let st = state_of(ix.spherical_invalid, ix.spherical is Some, 2, vals);
    match ix.spherical {
        Some(t) => if st == 0 { SphericalCoordinate::Valid { range: real_at(vals, proto, t.0), azimuth: real_at(vals, proto, t.1), elevation: real_at(vals, proto, t.2) } }
                   else if st == 1 { SphericalCoordinate::Direction { azimuth: real_at(vals, proto, t.1), elevation: real_at(vals, proto, t.2) } }
                   else { SphericalCoordinate::Invalid },
        None => SphericalCoordinate::Invalid,
    }
}
impl<'a> PointCloudReaderSimple<'a> {
    spec fn view_color(&self, vals: Seq<RecordValue>) -> Option<Color> {
        let proto = self.pc.prototype@; let ix = self.indices;
        let st = state_of(ix.color_invalid, ix.color is Some, 1, vals);
        match ix.color {
            // each channel normalised with ITS OWN range and the colour switch
            Some(t) => if st == 0 { Some(Color { red: norm_spec(self.nc, real_at(vals, proto, t.0), self.red_range),
                                                 green: norm_spec(self.nc, real_at(vals, proto, t.1), self.green_range),
                                                 blue: norm_spec(self.nc, real_at(vals, proto, t.2), self.blue_range) }) } else { None },
            None => None,
        }
    }
    spec fn view_intensity(&self, vals: Seq<RecordValue>) -> Option<f32> {
        let proto = self.pc.prototype@; let ix = self.indices;
        let st = state_of(ix.intensity_invalid, ix.intensity is Some, 1, vals);
        match ix.intensity { Some(i) => if st == 0 { Some(norm_spec(self.ni, real_at(vals, proto, i), self.intensity_range)) } else { None }, None => None }
    }
    /// the documented function of the raw values and the metadata
    spec fn view_point(&self, vals: Seq<RecordValue>) -> Point {
        let proto = self.pc.prototype@; let ix = self.indices;
        Point {
            cartesian: view_cartesian(ix, vals, proto), spherical: view_spherical(ix, vals, proto),
            color: self.view_color(vals), intensity: self.view_intensity(vals),
            row: match ix.row { Some(i) => int_of(vals[i as int]), None => -1i64 },
            column: match ix.column { Some(i) => int_of(vals[i as int]), None => -1i64 },
        }
    }
    /// every stored invalid-state value lies in its documented set
    spec fn states_ok(&self, vals: Seq<RecordValue>) -> bool {
        let ix = self.indices;
        &&& (ix.cartesian is Some ==> 0 <= state_of(ix.cartesian_invalid, true, 2, vals) <= 2)
        &&& (ix.spherical is Some ==> 0 <= state_of(ix.spherical_invalid, true, 2, vals) <= 2)
        &&& (ix.color is Some ==> 0 <= state_of(ix.color_invalid, true, 1, vals) <= 1)
        &&& (ix.intensity is Some ==> 0 <= state_of(ix.intensity_invalid, true, 1, vals) <= 1)
    }
    spec fn idx_ok(o: Option<usize>, n: int) -> bool { o matches Some(i) ==> i < n }
    spec fn idx3_ok(o: Option<(usize, usize, usize)>, n: int) -> bool { o matches Some(t) ==> t.0 < n && t.1 < n && t.2 < n }
    /// prepare_indices returns positions inside the prototype (Iterator::position; not under contract: closures/iterator adapters)
    spec fn indices_ok(&self) -> bool {
        let n = self.pc.prototype@.len() as int; let ix = self.indices;
        &&& Self::idx3_ok(ix.cartesian, n) && Self::idx3_ok(ix.spherical, n) && Self::idx3_ok(ix.color, n)
        &&& Self::idx_ok(ix.cartesian_invalid, n) && Self::idx_ok(ix.spherical_invalid, n) && Self::idx_ok(ix.color_invalid, n)
        &&& Self::idx_ok(ix.intensity, n) && Self::idx_ok(ix.intensity_invalid, n) && Self::idx_ok(ix.row, n) && Self::idx_ok(ix.column, n)
    }
    /// C05: the documented post-processing of one decoded point: every option switch applies its own conversion, to every point,
    /// in the documented order (spherical -> Cartesian, Cartesian -> spherical, intensity -> colour, pose)
    spec fn post(&self, p: Point) -> Point {
        let a = if self.s2c { spec_to_cartesian(p) } else { p };
        let b = if self.c2s { spec_to_spherical(a) } else { a };
        let c = if self.i2c { spec_intensity_to_color(b) } else { b };
        if self.transform { spec_transform(c, self.rotation, self.translation) } else { c }
    }
    /// what a refill step hands out (r) and keeps (rest) for the decoded points `raw`
    spec fn delivered(&self, raw: Seq<Point>, r: Option<Result<Point>>, rest: Seq<Point>) -> bool {
        &&& r == Some(Ok::<Point, Error>(self.post(raw[0])))
        &&& rest.len() == raw.len() - 1
        &&& forall|j: int| 0 <= j < rest.len() ==> rest[j] == self.post(#[trigger] raw[j + 1])
    }
    spec fn same_opts(&self, o: &Self) -> bool {
        self.s2c == o.s2c && self.c2s == o.c2s && self.i2c == o.i2c && self.transform == o.transform && self.rotation == o.rotation && self.translation == o.translation
    }
    spec fn wf(&self) -> bool {
        &&& self.queue_reader.wf2() && !all_zero_width(self.queue_reader.pc.prototype@)
        &&& self.pc == self.queue_reader.pc
        &&& self.indices_ok()
        &&& self.buffer@.len() == 0
    }
    /// the raw values at the front of the queues (what the raw iterator would yield next)
    spec fn front(&self) -> Seq<RecordValue> { Seq::new(self.queue_reader.n() as nat, |i: int| self.queue_reader.queues@[i]@[0]) }

    #[verifier::external_body]
    fn normalize_value(&self, enabled: bool, value: f64, range: &Option<Range>) -> (r: f32)
        ensures r == norm_spec(enabled, value, *range)
    { unimplemented!() }

//@fn src/pc_reader_simple.rs PointCloudReaderSimple pop_point serves=C05,C08 ret=r
//@sig
        requires old(self).queue_reader.wf2(), old(self).pc == old(self).queue_reader.pc, old(self).indices_ok(),
        ensures final(self).queue_reader.wf2(), final(self).pc == old(self).pc, final(self).indices == old(self).indices,
            final(self).queue_reader.pc == old(self).queue_reader.pc, final(self).queue_reader.reader == old(self).queue_reader.reader,
            final(self).buffer == old(self).buffer, final(self).points == old(self).points, final(self).read == old(self).read, final(self).same_opts(old(self)),
            match r {
                // the documented view of the raw values at the front of the queues
                Ok(p) => p == old(self).view_point(old(self).front()) && old(self).states_ok(old(self).front())
                    && (forall|i: int| 0 <= i < old(self).queue_reader.n() ==> (#[trigger] final(self).queue_reader.queues@[i])@.len() + 1 == old(self).queue_reader.queues@[i]@.len()),
                // fails only where the raw values are incomplete (Internal, as the raw iterator), an attribute needed as integer is not one,
                // or a stored invalid-state value lies outside its documented set (Invalid)
                Err(e) => (e is Invalid ==> !old(self).states_ok(old(self).front())) },
//@call pop_point 0 after
        proof {
            assert(self.values@ =~= old(self).front());
        }
//@endfn

//@fn src/pc_reader_simple.rs PointCloudReaderSimple size_hint trait=Iterator serves=C05,C09,C08 ret=r
//@sig
        requires self.read <= self.pc.records,
        // the remaining number of declared points (a number taken from the file's XML: never a bound for allocations)
        ensures r.0 == (self.pc.records - self.read) as usize, r.1 == Some((self.pc.records - self.read) as usize),
//@endfn

//@fn src/pc_reader_simple.rs PointCloudReaderSimple next trait=Iterator serves=C05,C09,C08 ret=r
//@rw Option<Self::Item> ==> Option<Result<Point>>
//@rw self\.buffer\.reserve\((.*?)\); ==> shim_reserve_vec(\1, available, &mut self.buffer);
//@rw self\.points\.reserve\((.*?)\); ==> shim_reserve_deque(\1, available, &mut self.points);
//@rw for _ in 0\.\.available ==> for _k in it: 0..available
//@rw for p in self\.buffer\.iter_mut\(\) \{\s*(\w+)\(p((?:, [^)]*)?)\);\s*\} ==> for bi in it: 0..self.buffer.len() { \1(&mut self.buffer[bi]\2); }
//@rw for p in self\.buffer\.drain\(\.\.\) \{\s*self\.points\.push_back\(p\);\s*\} ==> shim_move_all(&mut self.buffer, &mut self.points);
//@sig
        requires old(self).wf(),
        ensures final(self).pc == old(self).pc, final(self).same_opts(old(self)),
            !(r matches Some(Err(_))) ==> final(self).wf(),
            match r {
                // C05/C09: never more points than the declared record count
                None => old(self).read >= old(self).pc.records && final(self).read == old(self).read,
                Some(Ok(_)) => old(self).read < old(self).pc.records && final(self).read == old(self).read + 1,
                Some(Err(_)) => final(self).read == old(self).read,
            },
            // C05: points already decoded are handed out in order, unchanged
            (old(self).read < old(self).pc.records && old(self).points@.len() > 0) ==>
                r == Some(Ok::<Point, Error>(old(self).points@[0])) && final(self).points@ =~= old(self).points@.subrange(1, old(self).points@.len() as int),
            // C05: a refill decodes k >= 1 points `raw` (each one the result of pop_point, i.e. the documented view of the raw values), applies the
            // documented post-processing to EVERY one of them, hands out the first and keeps the others in order
            (old(self).read < old(self).pc.records && old(self).points@.len() == 0 && r matches Some(Ok(_))) ==>
                exists|raw: Seq<Point>| raw.len() >= 1 && #[trigger] old(self).delivered(raw, r, final(self).points@),
//@loop 0 head hdr=while self\.queue_reader\.available\(\) < 1
            invariant
                self.queue_reader.wf2(), !all_zero_width(self.queue_reader.pc.prototype@), self.pc == self.queue_reader.pc, self.pc == old(self).pc,
                self.indices == old(self).indices, self.indices_ok(), self.buffer@.len() == 0, self.points@ == old(self).points@, self.read == old(self).read,
                self.read < self.pc.records, self.same_opts(old(self)), old(self).points@.len() == 0,
            // every refill consumes input; the cursor is bounded by the logical file size (C09)
            decreases self.queue_reader.reader.log_file_size + 8 - self.queue_reader.reader.offset,
//@loop 1 before
        let ghost mut popped: Seq<Point> = Seq::empty();
//@loop 1 head hdr=for _k in it: 0\.\.available
            invariant
                self.queue_reader.wf2(), !all_zero_width(self.queue_reader.pc.prototype@), self.pc == self.queue_reader.pc, self.pc == old(self).pc,
                self.indices == old(self).indices, self.indices_ok(), self.points@ == old(self).points@, self.read == old(self).read,
                self.read < self.pc.records, available >= 1, self.same_opts(old(self)), old(self).points@.len() == 0,
                self.buffer@.len() == it.index@,
                // the buffer holds exactly what pop_point returned, in order
                self.buffer@ =~= popped,
//@loop 1 body_end
            proof { popped = popped.push(p); }
//@loop 1 after
        let ghost mid = *self;
//@loop 2 head
                invariant it.snapshot@.end == self.buffer@.len(), self.buffer@.len() == mid.buffer@.len(), self.queue_reader == mid.queue_reader,
                    self.pc == mid.pc, self.indices == mid.indices, self.points@ == mid.points@, self.read == mid.read, self.same_opts(&mid),
                    forall|j: int| 0 <= j < it.index@ ==> self.buffer@[j] == spec_to_cartesian(mid.buffer@[j]),
                    forall|j: int| it.index@ <= j < self.buffer@.len() ==> self.buffer@[j] == mid.buffer@[j],
//@loop 3 before
            let ghost mid2 = *self;
//@loop 3 head
                invariant it.snapshot@.end == self.buffer@.len(), self.buffer@.len() == mid.buffer@.len(), self.queue_reader == mid.queue_reader,
                    self.pc == mid.pc, self.indices == mid.indices, self.points@ == mid.points@, self.read == mid.read, self.same_opts(&mid),
                    forall|j: int| 0 <= j < it.index@ ==> self.buffer@[j] == spec_to_spherical(mid2.buffer@[j]),
                    forall|j: int| it.index@ <= j < self.buffer@.len() ==> self.buffer@[j] == mid2.buffer@[j],
//@loop 4 before
            let ghost mid3 = *self;
//@loop 4 head
                invariant it.snapshot@.end == self.buffer@.len(), self.buffer@.len() == mid.buffer@.len(), self.queue_reader == mid.queue_reader,
                    self.pc == mid.pc, self.indices == mid.indices, self.points@ == mid.points@, self.read == mid.read, self.same_opts(&mid),
                    forall|j: int| 0 <= j < it.index@ ==> self.buffer@[j] == spec_intensity_to_color(mid3.buffer@[j]),
                    forall|j: int| it.index@ <= j < self.buffer@.len() ==> self.buffer@[j] == mid3.buffer@[j],
//@loop 5 before
            let ghost mid4 = *self;
//@loop 5 head
                invariant it.snapshot@.end == self.buffer@.len(), self.buffer@.len() == mid.buffer@.len(), self.queue_reader == mid.queue_reader,
                    self.pc == mid.pc, self.indices == mid.indices, self.points@ == mid.points@, self.read == mid.read, self.same_opts(&mid),
                    forall|j: int| 0 <= j < it.index@ ==> self.buffer@[j] == spec_transform(mid4.buffer@[j], mid.rotation, mid.translation),
                    forall|j: int| it.index@ <= j < self.buffer@.len() ==> self.buffer@[j] == mid4.buffer@[j],
//@stmt 0 before if self\.c2s
        let ghost b1 = self.buffer@;
        proof { assert /*[C05]*/ forall|j: int| 0 <= j < popped.len() implies b1[j] == (if mid.s2c { spec_to_cartesian(#[trigger] popped[j]) } else { popped[j] }) by {} }
//@stmt 0 before if self\.i2c
        let ghost b2 = self.buffer@;
        proof { assert /*[C05]*/ forall|j: int| 0 <= j < popped.len() implies b2[j] == (if mid.c2s { spec_to_spherical(#[trigger] b1[j]) } else { b1[j] }) by {} }
//@stmt 0 before if self\.transform
        let ghost b3 = self.buffer@;
        proof { assert /*[C05]*/ forall|j: int| 0 <= j < popped.len() implies b3[j] == (if mid.i2c { spec_intensity_to_color(#[trigger] b2[j]) } else { b2[j] }) by {} }
//@call shim_reserve_deque 0 before
        let ghost fin = self.buffer@;
        proof {
            assert /*[C05]*/ forall|j: int| 0 <= j < popped.len() implies fin[j] == (if mid.transform { spec_transform(#[trigger] b3[j], mid.rotation, mid.translation) } else { b3[j] }) by {}
            // C05: every decoded point went through the documented pipeline
            assert forall|j: int| 0 <= j < popped.len() implies fin[j] == #[trigger] old(self).post(popped[j]) by {
                assert(b1[j] == (if mid.s2c { spec_to_cartesian(popped[j]) } else { popped[j] }));
                assert(b2[j] == (if mid.c2s { spec_to_spherical(b1[j]) } else { b1[j] }));
                assert(b3[j] == (if mid.i2c { spec_intensity_to_color(b2[j]) } else { b2[j] }));
            }
        }
//@stmt 0 before Some\(Error::internal\(
            // C05: the simple iterator fails only where the raw iterator (advance / pop) fails: this branch must be unreachable
            proof { assert(/*[C05,C03]*/ false); }
//@stmt 1 before Some\(Ok\(point\)\)
            proof { assert(old(self).delivered(popped, Some(Ok::<Point, Error>(point)), self.points@)); }
//@endfn
}
