// ---- writer side above the page layer: PointCloudWriter (pc_writer.rs) -------------------------
/// strings are modelled by an identity tag: structural equality of the model = string equality
#[derive(Clone)]
struct OpaqueStr { tag: u64 }
#[derive(Clone)]
struct Opaque { tag: u64 }

//@item src/record.rs enum RecordName
//@rw : String, ==> : OpaqueStr,
//@enditem
impl PartialEq for RecordName {
    /// assumed: derive(PartialEq) is structural equality
    #[verifier::external_body]
    fn eq(&self, o: &Self) -> (r: bool) ensures r == (*self == *o) { unimplemented!() }
}
//@item src/record.rs struct Record
//@enditem
type RawValues = Vec<RecordValue>;

//@item src/bounds.rs struct CartesianBounds
//@enditem
//@item src/bounds.rs struct SphericalBounds
//@enditem
//@item src/bounds.rs struct IndexBounds
//@enditem
//@item src/limits.rs struct IntensityLimits
//@enditem
//@item src/limits.rs struct ColorLimits
//@enditem
//@item src/pointcloud.rs struct PointCloud
//@rw \b(String|Transform|DateTime)\b ==> Opaque
//@enditem
//@item src/pc_writer.rs struct PointCloudWriter
//@rw <'a, T: Read \+ Write \+ Seek> ==> <'a>
//@rw PagedWriter<T> ==> PagedWriter
//@rw \b(String|Transform|DateTime)\b ==> Opaque
//@enditem

// ---- contract-only leaves (proved on the real functions by the Kani unit wr_k) --------------------
uninterp spec fn val_gt<T>(a: T, b: T) -> bool;
uninterp spec fn val_lt<T>(a: T, b: T) -> bool;
/// running minimum / maximum step (C14)
spec fn upd_min<T>(m: Option<T>, v: T) -> Option<T> { match m { None => Some(v), Some(c) => if val_gt(c, v) { Some(v) } else { Some(c) } } }
spec fn upd_max<T>(m: Option<T>, v: T) -> Option<T> { match m { None => Some(v), Some(c) => if val_lt(c, v) { Some(v) } else { Some(c) } } }

#[verifier::external_body]
fn update_min<T>(value: T, min: &mut Option<T>)
    ensures *final(min) == upd_min(*old(min), value)
{ unimplemented!() }
#[verifier::external_body]
fn update_max<T>(value: T, min: &mut Option<T>)
    ensures *final(min) == upd_max(*old(min), value)
{ unimplemented!() }

/// Iterator::any / Iterator::find over the prototype with a name-equality closure are spelled out as the loops that define them
/// (`any`: true iff some element satisfies the closure; `find`: the first such element); the helpers below are VERIFIED, not assumed
spec fn has_name(p: Seq<Record>, name: RecordName) -> bool { exists|i: int| 0 <= i < p.len() && (#[trigger] p[i]).name == name }
#[verifier::opaque]
spec fn first_named(p: Seq<Record>, name: RecordName) -> int { choose|i: int| 0 <= i < p.len() && (#[trigger] p[i]).name == name && forall|j: int| 0 <= j < i ==> p[j].name != name }
proof fn lemma_first_is(p: Seq<Record>, name: RecordName, k: int)
    requires 0 <= k < p.len(), p[k].name == name, forall|j: int| 0 <= j < k ==> (#[trigger] p[j]).name != name
    ensures first_named(p, name) == k, has_name(p, name)
{
    reveal(first_named);
    let f = choose|i: int| 0 <= i < p.len() && (#[trigger] p[i]).name == name && forall|j: int| 0 <= j < i ==> p[j].name != name;
    if f < k { assert(p[f].name != name); }
    if k < f { assert(p[k].name != name); }
}
fn shim_has_ref(p: &[Record], name: &RecordName) -> (r: bool)
    ensures r == has_name(p@, *name)
{
    let mut found = false;
    for i in 0..p.len()
        invariant found == (exists|j: int| 0 <= j < i && (#[trigger] p@[j]).name == *name)
    {
        if !found && p[i].name == *name { found = true; }
    }
    found
}
fn shim_find_s<'a>(p: &'a [Record], name: RecordName) -> (r: Option<&'a Record>)
    ensures (r is Some) == has_name(p@, name), r is Some ==> 0 <= first_named(p@, name) < p@.len() && *r->Some_0 == p@[first_named(p@, name)] && p@[first_named(p@, name)].name == name
{
    let mut r: Option<&'a Record> = None;
    let ghost mut k: int = 0;
    for i in 0..p.len()
        invariant (r is None) ==> forall|j: int| 0 <= j < i ==> (#[trigger] p@[j]).name != name,
            (r is Some) ==> 0 <= k < i && *r->Some_0 == p@[k] && p@[k].name == name && forall|j: int| 0 <= j < k ==> (#[trigger] p@[j]).name != name,
    {
        if r.is_none() && p[i].name == name { r = Some(&p[i]); proof { k = i as int; } }
    }
    proof { if r is Some { lemma_first_is(p@, name, k); } }
    r
}
fn shim_has_s(p: &[Record], name: RecordName) -> (r: bool) ensures r == has_name(p@, name) { shim_has_ref(p, &name) }
fn shim_has(p: &Vec<Record>, name: RecordName) -> (r: bool) ensures r == has_name(p@, name) { shim_has_ref(p.as_slice(), &name) }
fn shim_find(p: &Vec<Record>, name: RecordName) -> (r: Option<&Record>)
    ensures (r is Some) == has_name(p@, name), r is Some ==> 0 <= first_named(p@, name) < p@.len() && *r->Some_0 == p@[first_named(p@, name)] && p@[first_named(p@, name)].name == name
{ shim_find_s(p.as_slice(), name) }
#[verifier::external_body]
fn shim_vec_bsw(n: usize) -> (r: Vec<ByteStreamWriteBuffer>)
    ensures r@.len() == n, forall|i: int| 0 <= i < n ==> (#[trigger] r@[i]).wf() && r@[i].nbits() == 0
{ unimplemented!() }
#[verifier::external_body]
fn shim_opaque_from_str(s: &str) -> (r: Opaque) { unimplemented!() }
/// what PointCloudWriter::new needs from an accepted prototype (derived from the rules below by lemma_rules_imply)
spec fn proto_rules(p: Seq<Record>) -> bool {
    &&& forall|i: int| 0 <= i < p.len() ==> (((#[trigger] p[i]).name == RecordName::RowIndex || p[i].name == RecordName::ColumnIndex || p[i].name == RecordName::ReturnIndex) ==> p[i].data_type is Integer)
    &&& ((has_name(p, RecordName::CartesianY) || has_name(p, RecordName::CartesianZ)) ==> has_name(p, RecordName::CartesianX))
    &&& ((has_name(p, RecordName::SphericalElevation) || has_name(p, RecordName::SphericalRange)) ==> has_name(p, RecordName::SphericalAzimuth))
    &&& (has_name(p, RecordName::ColorRed) ==> has_name(p, RecordName::ColorGreen) && has_name(p, RecordName::ColorBlue))
}
proof fn lemma_bounds_present(p: Seq<Record>, cb: bool, sb: bool, ib: bool)
    requires proto_rules(p), cb == has_name(p, RecordName::CartesianX), sb == has_name(p, RecordName::SphericalAzimuth),
        ib == (has_name(p, RecordName::ReturnIndex) || has_name(p, RecordName::ColumnIndex) || has_name(p, RecordName::RowIndex)),
    ensures forall|i: int| 0 <= i < p.len() ==> {
            let nm = (#[trigger] p[i]).name;
            &&& ((nm == RecordName::CartesianX || nm == RecordName::CartesianY || nm == RecordName::CartesianZ) ==> cb)
            &&& ((nm == RecordName::SphericalAzimuth || nm == RecordName::SphericalElevation || nm == RecordName::SphericalRange) ==> sb)
            &&& ((nm == RecordName::RowIndex || nm == RecordName::ColumnIndex || nm == RecordName::ReturnIndex) ==> ib && p[i].data_type is Integer)
        }
{
    assert forall|i: int| 0 <= i < p.len() implies ({
            let nm = (#[trigger] p[i]).name;
            &&& ((nm == RecordName::CartesianX || nm == RecordName::CartesianY || nm == RecordName::CartesianZ) ==> cb)
            &&& ((nm == RecordName::SphericalAzimuth || nm == RecordName::SphericalElevation || nm == RecordName::SphericalRange) ==> sb)
            &&& ((nm == RecordName::RowIndex || nm == RecordName::ColumnIndex || nm == RecordName::ReturnIndex) ==> ib && p[i].data_type is Integer)
        }) by {
        let nm = p[i].name;
        if nm == RecordName::CartesianX { assert(has_name(p, RecordName::CartesianX)); }
        if nm == RecordName::CartesianY { assert(has_name(p, RecordName::CartesianY)); }
        if nm == RecordName::CartesianZ { assert(has_name(p, RecordName::CartesianZ)); }
        if nm == RecordName::SphericalAzimuth { assert(has_name(p, RecordName::SphericalAzimuth)); }
        if nm == RecordName::SphericalElevation { assert(has_name(p, RecordName::SphericalElevation)); }
        if nm == RecordName::SphericalRange { assert(has_name(p, RecordName::SphericalRange)); }
        if nm == RecordName::RowIndex { assert(has_name(p, RecordName::RowIndex)); }
        if nm == RecordName::ColumnIndex { assert(has_name(p, RecordName::ColumnIndex)); }
        if nm == RecordName::ReturnIndex { assert(has_name(p, RecordName::ReturnIndex)); }
    }
}
// ---- the documented prototype rules (doc comments and messages of pc_writer.rs), as a specification ----
spec fn dt_of(p: Seq<Record>, name: RecordName) -> RecordDataType { p[first_named(p, name)].data_type }
spec fn int_range(dt: RecordDataType, lo: i64, hi: i64) -> bool { dt == (RecordDataType::Integer { min: lo, max: hi }) }
spec fn all_or_none(p: Seq<Record>, a: RecordName, b: RecordName, c: RecordName) -> bool {
    (has_name(p, a) && has_name(p, b) && has_name(p, c)) || (!has_name(p, a) && !has_name(p, b) && !has_name(p, c))
}
/// an invalid-state / flag attribute needs its group and the integer range lo..hi
spec fn flag_rule(p: Seq<Record>, flag: RecordName, needs: RecordName, hi: i64) -> bool {
    has_name(p, flag) ==> has_name(p, needs) && int_range(dt_of(p, flag), 0, hi)
}
spec fn cartesian_rule(p: Seq<Record>) -> bool {
    all_or_none(p, RecordName::CartesianX, RecordName::CartesianY, RecordName::CartesianZ)
    && flag_rule(p, RecordName::CartesianInvalidState, RecordName::CartesianX, 2)
}
spec fn spherical_rule(p: Seq<Record>) -> bool {
    all_or_none(p, RecordName::SphericalAzimuth, RecordName::SphericalElevation, RecordName::SphericalRange)
    && flag_rule(p, RecordName::SphericalInvalidState, RecordName::SphericalAzimuth, 2)
    && (has_name(p, RecordName::SphericalAzimuth) ==> !(dt_of(p, RecordName::SphericalAzimuth) is Integer))
    && (has_name(p, RecordName::SphericalElevation) ==> !(dt_of(p, RecordName::SphericalElevation) is Integer))
}
spec fn color_rule(p: Seq<Record>) -> bool {
    all_or_none(p, RecordName::ColorRed, RecordName::ColorGreen, RecordName::ColorBlue)
    && flag_rule(p, RecordName::IsColorInvalid, RecordName::ColorRed, 1)
}
spec fn return_rule(p: Seq<Record>) -> bool {
    (has_name(p, RecordName::ReturnCount) ==> dt_of(p, RecordName::ReturnCount) is Integer)
    && (has_name(p, RecordName::ReturnIndex) ==> dt_of(p, RecordName::ReturnIndex) is Integer)
    && (has_name(p, RecordName::ReturnCount) == has_name(p, RecordName::ReturnIndex))
}
/// every record name is used at most once (a Structure cannot have two children of the same name)
spec fn no_dup(p: Seq<Record>) -> bool { forall|a: int, b: int| 0 <= a < b < p.len() ==> (#[trigger] p[a]).name != (#[trigger] p[b]).name }
spec fn documented_rules(p: Seq<Record>) -> bool {
    &&& no_dup(p)
    &&& cartesian_rule(p) && spherical_rule(p)
    &&& (has_name(p, RecordName::CartesianX) || has_name(p, RecordName::SphericalAzimuth))
    &&& color_rule(p) && return_rule(p)
    &&& (has_name(p, RecordName::RowIndex) ==> dt_of(p, RecordName::RowIndex) is Integer)
    &&& (has_name(p, RecordName::ColumnIndex) ==> dt_of(p, RecordName::ColumnIndex) is Integer)
    &&& flag_rule(p, RecordName::IsIntensityInvalid, RecordName::Intensity, 1)
    &&& flag_rule(p, RecordName::IsTimeStampInvalid, RecordName::TimeStamp, 1)
}
proof fn lemma_first_named(p: Seq<Record>, name: RecordName)
    requires has_name(p, name)
    ensures 0 <= first_named(p, name) < p.len(), p[first_named(p, name)].name == name,
        forall|j: int| 0 <= j < first_named(p, name) ==> (#[trigger] p[j]).name != name,
{
    reveal(first_named);
    let i0 = choose|i: int| 0 <= i < p.len() && (#[trigger] p[i]).name == name;
    lemma_least(p, name, i0);
}
proof fn lemma_least(p: Seq<Record>, name: RecordName, i: int)
    requires 0 <= i < p.len(), p[i].name == name
    ensures exists|k: int| 0 <= k < p.len() && (#[trigger] p[k]).name == name && forall|j: int| 0 <= j < k ==> p[j].name != name
    decreases i
{
    if exists|j: int| 0 <= j < i && (#[trigger] p[j]).name == name {
        let j = choose|j: int| 0 <= j < i && (#[trigger] p[j]).name == name;
        lemma_least(p, name, j);
    } else {
        assert(forall|j: int| 0 <= j < i ==> p[j].name != name);
    }
}
/// without duplicates the record found first is the only one of its name
proof fn lemma_rules_imply(p: Seq<Record>)
    requires documented_rules(p)
    ensures proto_rules(p)
{
    assert forall|i: int| 0 <= i < p.len() && ((#[trigger] p[i]).name == RecordName::RowIndex || p[i].name == RecordName::ColumnIndex || p[i].name == RecordName::ReturnIndex)
        implies p[i].data_type is Integer by {
        let nm = p[i].name;
        assert(has_name(p, nm));
        lemma_first_named(p, nm);
        let f = first_named(p, nm);
        if f != i { if f < i { assert(p[f].name != p[i].name); } else { assert(p[i].name != p[f].name); } }
    }
}

//@fn src/pc_writer.rs - contains serves=C10 ret=r
//@rw prototype\.iter\(\)\.any\(\|p\| p\.name == name\) ==> shim_has_s(prototype, name)
//@sig
        ensures r == has_name(prototype@, name)
//@endfn
//@fn src/pc_writer.rs - get serves=C10 ret=r
//@rw prototype\.iter\(\)\.find\(\|p\| p\.name == name\) ==> shim_find_s(prototype, name)
//@sig
        ensures (r is Some) == has_name(prototype@, name),
            r is Some ==> 0 <= first_named(prototype@, name) < prototype@.len() && *r->Some_0 == prototype@[first_named(prototype@, name)],
//@endfn
//@fn src/pc_writer.rs - validate_cartesian serves=C10 ret=r
//@sig
        /*[C10]*/ ensures (r is Ok) == cartesian_rule(prototype@), r is Err ==> r->Err_0 is Invalid,
//@endfn
//@fn src/pc_writer.rs - validate_spherical serves=C10 ret=r
//@sig
        /*[C10]*/ ensures (r is Ok) == spherical_rule(prototype@), r is Err ==> r->Err_0 is Invalid,
//@endfn
//@fn src/pc_writer.rs - validate_color serves=C10 ret=r
//@sig
        /*[C10]*/ ensures (r is Ok) == color_rule(prototype@), r is Err ==> r->Err_0 is Invalid,
//@endfn
//@fn src/pc_writer.rs - validate_return serves=C10 ret=r
//@sig
        /*[C10]*/ ensures (r is Ok) == return_rule(prototype@), r is Err ==> r->Err_0 is Invalid,
//@endfn
/// total bit size of one point
spec fn point_bits(p: Seq<Record>) -> int decreases p.len() {
    if p.len() == 0 { 0 } else { point_bits(p.drop_last()) + p.last().data_type.spec_bit_size() }
}
proof fn lemma_point_bits_bound(p: Seq<Record>)
    ensures 0 <= point_bits(p) <= 64 * p.len()
    decreases p.len()
{
    if p.len() > 0 {
        lemma_point_bits_bound(p.drop_last());
        match p.last().data_type {
            RecordDataType::ScaledInteger { min, max, .. } => { lemma_width(min, max); }
            RecordDataType::Integer { min, max } => { lemma_width(min, max); }
            _ => {}
        }
    }
}
// `X.iter().map(|p| E).sum()` is spelled out as the loop that defines it: `{ let mut acc: usize = 0; for p in X.iter() { acc += E; } acc }`
// (E kept verbatim; overflow of the accumulator is an error, as in Iterator::sum with overflow checks)
//@fn src/pc_writer.rs - get_max_packet_points serves=C10,C01,C09 ret=r
//@rw (\w+)\.iter\(\)\.map\(\|(\w+)\| ([^;]+?)\)\.sum\(\); ==> { let mut acc: usize = 0; for \2 in it: \1.iter() { acc += \3; } acc };
//@sig
        // a slice of Records (each > 64 bytes) cannot have more elements: allocations are at most isize::MAX bytes
        requires prototype@.len() < 0x0100_0000_0000_0000,
        // total (no panic: implicit obligations), at least one point per packet (finalize's drain loop makes progress), and
        // a packet of that many points fits the 16-bit packet length: header, stream length table, one incomplete byte per stream, the packed points
        /*[C10]*/ ensures r is Ok ==> 1 <= r->Ok_0 <= 0x10_0000,
            /*[C10]*/ r is Ok ==> 6 + 2 * prototype@.len() + prototype@.len() + (r->Ok_0 * point_bits(prototype@) + 7) / 8 <= 65535,
            r is Ok ==> prototype@.len() < 0x8000,
//@loop 0 head
            invariant acc == point_bits(prototype@.take(it.index@ as int)), acc <= 64 * it.index@, prototype@.len() < 0x0100_0000_0000_0000,
                it.index@ <= prototype@.len(),
//@loop 0 body_start
            proof {
                let k = it.index@ as int;
                assert(prototype@.take(k + 1).drop_last() =~= prototype@.take(k));
                assert(prototype@.take(k + 1).last() == *p);
                lemma_point_bits_bound(prototype@.take(k + 1));
            }
//@loop 0 after
        proof { assert(prototype@.take(prototype@.len() as int) =~= prototype@); lemma_point_bits_bound(prototype@); }
//@tail
        proof {
            let a8 = ((u16_max - reserved) * 8) as int; let b = (if point_size_bits >= 1 { point_size_bits } else { 1usize }) as int;
            assert(max_points * b <= a8) by (nonlinear_arith) requires max_points as int == a8 / b, b > 0, a8 >= 0;
            assert(max_points <= a8) by (nonlinear_arith) requires max_points as int == a8 / b, b >= 1, a8 >= 0;
            assert(max_points * point_bits(prototype@) <= max_points * b) by (nonlinear_arith) requires point_bits(prototype@) <= b, max_points >= 0;
        }
//@endfn
/// default limits: the declared range of the attribute's data type (limits()/from_record_type(s) are verified on their real bodies below; Kani unit wr_k re-checks them on the compiled crate)
spec fn limits_spec(dt: RecordDataType) -> (Option<RecordValue>, Option<RecordValue>) {
    match dt {
        RecordDataType::Single { min, max } => (match min { Some(v) => Some(RecordValue::Single(v)), None => None }, match max { Some(v) => Some(RecordValue::Single(v)), None => None }),
        RecordDataType::Double { min, max } => (match min { Some(v) => Some(RecordValue::Double(v)), None => None }, match max { Some(v) => Some(RecordValue::Double(v)), None => None }),
        RecordDataType::ScaledInteger { min, max, .. } => (Some(RecordValue::ScaledInteger(min)), Some(RecordValue::ScaledInteger(max))),
        RecordDataType::Integer { min, max } => (Some(RecordValue::Integer(min)), Some(RecordValue::Integer(max))),
    }
}
spec fn intensity_limits_spec(dt: RecordDataType) -> IntensityLimits { IntensityLimits { intensity_min: limits_spec(dt).0, intensity_max: limits_spec(dt).1 } }
spec fn color_limits_spec(r: RecordDataType, g: RecordDataType, b: RecordDataType) -> ColorLimits {
    ColorLimits { red_min: limits_spec(r).0, red_max: limits_spec(r).1, green_min: limits_spec(g).0, green_max: limits_spec(g).1, blue_min: limits_spec(b).0, blue_max: limits_spec(b).1 }
}
impl RecordDataType {
// `opt.map(RecordValue::Kind)` is spelled out as the match that defines Option::map
//@fn src/record.rs RecordDataType limits serves=C14 ret=r
//@rw (\w+)\.map\(RecordValue::(\w+)\) ==> (match *\1 { Some(v) => Some(RecordValue::\2(v)), None => None }) ;n=4
//@sig
        /*[C14]*/ ensures r == limits_spec(*self)
//@endfn
}
impl IntensityLimits {
//@fn src/limits.rs IntensityLimits from_record_type serves=C14 ret=r
//@sig
        /*[C14]*/ ensures r == intensity_limits_spec(*data_type)
//@endfn
}
impl ColorLimits {
//@fn src/limits.rs ColorLimits from_record_types serves=C14 ret=r
//@sig
        /*[C14]*/ ensures r == color_limits_spec(*red, *green, *blue)
//@endfn
}
/// assumed: derive(Default) yields all-None bounds
impl CartesianBounds { #[verifier::external_body] fn spec_default() -> (r: Self) ensures r == (CartesianBounds { x_min: None, x_max: None, y_min: None, y_max: None, z_min: None, z_max: None }) { unimplemented!() } }
impl SphericalBounds { #[verifier::external_body] fn spec_default() -> (r: Self) ensures r == (SphericalBounds { range_min: None, range_max: None, elevation_min: None, elevation_max: None, azimuth_start: None, azimuth_end: None }) { unimplemented!() } }
impl IndexBounds { #[verifier::external_body] fn spec_default() -> (r: Self) ensures r == (IndexBounds { row_min: None, row_max: None, column_min: None, column_max: None, return_min: None, return_max: None }) { unimplemented!() } }
impl CompressedVectorSectionHeader {
//@fn src/cv_section.rs CompressedVectorSectionHeader default trait=Default ret=r serves=C02
//@sig
        ensures r.section_id == 1, r.section_length == 0, r.data_offset == 0, r.index_offset == 0,
//@endfn
}
#[verifier::external_body]
fn shim_clone_opaque(o: &Opaque) -> (r: Opaque) ensures r == *o { unimplemented!() }
#[verifier::external_body]
fn shim_clone_proto(p: &Vec<Record>) -> (r: Vec<Record>) ensures r@ == p@ { unimplemented!() }

// ---- C14 specification: bounds are the fold of min/max over the records of every point added ----
spec fn cart_step(b: CartesianBounds, name: RecordName, v: f64) -> CartesianBounds {
    CartesianBounds {
        x_min: if name == RecordName::CartesianX { upd_min(b.x_min, v) } else { b.x_min },
        x_max: if name == RecordName::CartesianX { upd_max(b.x_max, v) } else { b.x_max },
        y_min: if name == RecordName::CartesianY { upd_min(b.y_min, v) } else { b.y_min },
        y_max: if name == RecordName::CartesianY { upd_max(b.y_max, v) } else { b.y_max },
        z_min: if name == RecordName::CartesianZ { upd_min(b.z_min, v) } else { b.z_min },
        z_max: if name == RecordName::CartesianZ { upd_max(b.z_max, v) } else { b.z_max },
    }
}
spec fn sph_step(b: SphericalBounds, name: RecordName, v: f64) -> SphericalBounds {
    SphericalBounds {
        range_min: if name == RecordName::SphericalRange { upd_min(b.range_min, v) } else { b.range_min },
        range_max: if name == RecordName::SphericalRange { upd_max(b.range_max, v) } else { b.range_max },
        elevation_min: if name == RecordName::SphericalElevation { upd_min(b.elevation_min, v) } else { b.elevation_min },
        elevation_max: if name == RecordName::SphericalElevation { upd_max(b.elevation_max, v) } else { b.elevation_max },
        azimuth_start: if name == RecordName::SphericalAzimuth { upd_min(b.azimuth_start, v) } else { b.azimuth_start },
        azimuth_end: if name == RecordName::SphericalAzimuth { upd_max(b.azimuth_end, v) } else { b.azimuth_end },
    }
}
spec fn idx_step(b: IndexBounds, name: RecordName, v: i64) -> IndexBounds {
    IndexBounds {
        row_min: if name == RecordName::RowIndex { upd_min(b.row_min, v) } else { b.row_min },
        row_max: if name == RecordName::RowIndex { upd_max(b.row_max, v) } else { b.row_max },
        column_min: if name == RecordName::ColumnIndex { upd_min(b.column_min, v) } else { b.column_min },
        column_max: if name == RecordName::ColumnIndex { upd_max(b.column_max, v) } else { b.column_max },
        return_min: if name == RecordName::ReturnIndex { upd_min(b.return_min, v) } else { b.return_min },
        return_max: if name == RecordName::ReturnIndex { upd_max(b.return_max, v) } else { b.return_max },
    }
}
spec fn cart_fold(b: CartesianBounds, proto: Seq<Record>, vals: Seq<RecordValue>, k: int) -> CartesianBounds
    decreases k
{ if k <= 0 { b } else { cart_step(cart_fold(b, proto, vals, k - 1), proto[k - 1].name, real_f64(vals[k - 1], proto[k - 1].data_type)) } }
spec fn sph_fold(b: SphericalBounds, proto: Seq<Record>, vals: Seq<RecordValue>, k: int) -> SphericalBounds
    decreases k
{ if k <= 0 { b } else { sph_step(sph_fold(b, proto, vals, k - 1), proto[k - 1].name, real_f64(vals[k - 1], proto[k - 1].data_type)) } }
spec fn idx_fold(b: IndexBounds, proto: Seq<Record>, vals: Seq<RecordValue>, k: int) -> IndexBounds
    decreases k
{ if k <= 0 { b } else { idx_step(idx_fold(b, proto, vals, k - 1), proto[k - 1].name, int_of(vals[k - 1])) } }
spec fn opt_cart(o: Option<CartesianBounds>, proto: Seq<Record>, vals: Seq<RecordValue>, k: int) -> Option<CartesianBounds> {
    match o { Some(b) => Some(cart_fold(b, proto, vals, k)), None => None } }
spec fn opt_sph(o: Option<SphericalBounds>, proto: Seq<Record>, vals: Seq<RecordValue>, k: int) -> Option<SphericalBounds> {
    match o { Some(b) => Some(sph_fold(b, proto, vals, k)), None => None } }
spec fn opt_idx(o: Option<IndexBounds>, proto: Seq<Record>, vals: Seq<RecordValue>, k: int) -> Option<IndexBounds> {
    match o { Some(b) => Some(idx_fold(b, proto, vals, k)), None => None } }

/// bits that the i-th values of the first k points contribute to stream i, in point order (C01/C12)
spec fn enc_pts(dt: RecordDataType, i: int, pts: Seq<RawValues>, k: int) -> Seq<bool>
    decreases k
{ if k <= 0 { Seq::<bool>::empty() } else { enc_pts(dt, i, pts, k - 1) + dt.enc(pts[k - 1]@[i]) } }
/// all bits of stream i after the first k points of `pts` were packed on top of the streams `bs`
spec fn all_bits_of(bs: Seq<ByteStreamWriteBuffer>, proto: Seq<Record>, pts: Seq<RawValues>, i: int, k: int) -> Seq<bool> {
    bs[i].bits() + enc_pts(proto[i].data_type, i, pts, k)
}
/// LE u16 sizes of the first j chunks
spec fn sizes_le(chunks: Seq<Seq<u8>>, j: int) -> Seq<u8>
    decreases j
{ if j <= 0 { Seq::<u8>::empty() } else { sizes_le(chunks, j - 1) + le_bytes16(chunks[j - 1].len() as u16) } }
spec fn concat_chunks(chunks: Seq<Seq<u8>>, j: int) -> Seq<u8>
    decreases j
{ if j <= 0 { Seq::<u8>::empty() } else { concat_chunks(chunks, j - 1) + chunks[j - 1] } }
spec fn total_len(chunks: Seq<Seq<u8>>, j: int) -> int
    decreases j
{ if j <= 0 { 0 } else { total_len(chunks, j - 1) + chunks[j - 1].len() } }
#[verifier::opaque]
spec fn up4(p: int) -> int { if p % 4 == 0 { p } else { p + 4 - p % 4 } }
spec fn zeros(n: int) -> Seq<u8> { Seq::new(n as nat, |i: int| 0u8) }
/// E57 data packet (standard): header(6) ++ n x u16 LE stream lengths ++ the streams ++ zero padding to a multiple of 4;
/// the length field counts the whole packet
spec fn spec_data_packet(chunks: Seq<Seq<u8>>) -> Seq<u8> {
    let n = chunks.len() as int; let tot = total_len(chunks, n); let plen = up4(6 + 2 * n + tot);
    spec_data_packet_header(false, plen as u64, n as u16) + sizes_le(chunks, n) + concat_chunks(chunks, n) + zeros(plen - 6 - 2 * n - tot)
}

/// LE u16 encodings of the first j entries of a size table
spec fn sizes16(v: Seq<u16>, j: int) -> Seq<u8>
    decreases j
{ if j <= 0 { Seq::<u8>::empty() } else { sizes16(v, j - 1) + le_bytes16(v[j - 1]) } }
proof fn lemma_sizes16_is_sizes_le(v: Seq<u16>, chunks: Seq<Seq<u8>>, j: int)
    requires 0 <= j <= v.len(), j <= chunks.len(), forall|t: int| 0 <= t < j ==> v[t] as int == (#[trigger] chunks[t]).len(),
    ensures sizes16(v, j) == sizes_le(chunks, j)
    decreases j
{ if j > 0 { lemma_sizes16_is_sizes_le(v, chunks, j - 1); } }
proof fn lemma_total_nonneg(chunks: Seq<Seq<u8>>, j: int)
    ensures total_len(chunks, j) >= 0, concat_chunks(chunks, j).len() == total_len(chunks, j), sizes_le(chunks, j).len() == (if j <= 0 { 0 } else { 2 * j })
    decreases j
{ if j > 0 { lemma_total_nonneg(chunks, j - 1); } }
proof fn lemma_total_ge_each(chunks: Seq<Seq<u8>>, j: int, t: int)
    requires 0 <= t < j <= chunks.len()
    ensures chunks[t].len() <= total_len(chunks, j)
    decreases j
{ lemma_total_nonneg(chunks, j - 1); if t < j - 1 { lemma_total_ge_each(chunks, j - 1, t); } }
/// concat over a prefix does not depend on later elements
proof fn lemma_concat_prefix(c: Seq<Seq<u8>>, j: int)
    requires 0 <= j < c.len()
    ensures concat_chunks(c, j) == concat_chunks(c.subrange(0, j), j), concat_chunks(c.subrange(0, j), j) == concat_chunks(c.subrange(0, j).push(c[j]), j)
    decreases j
{
    lemma_concat_ext(c, c.subrange(0, j), j);
    lemma_concat_ext(c.subrange(0, j).push(c[j]), c.subrange(0, j), j);
}
proof fn lemma_concat_ext(a: Seq<Seq<u8>>, b: Seq<Seq<u8>>, j: int)
    requires 0 <= j <= a.len(), j <= b.len(), forall|t: int| 0 <= t < j ==> a[t] == b[t]
    ensures concat_chunks(a, j) == concat_chunks(b, j), total_len(a, j) == total_len(b, j), sizes_le(a, j) == sizes_le(b, j)
    decreases j
{ if j > 0 { lemma_concat_ext(a, b, j - 1); } }
proof fn lemma_up4(p: int)
    requires p >= 0
    ensures up4(p) % 4 == 0, p <= up4(p) <= p + 3, (p % 4 == 0 ==> up4(p) == p), (p % 4 != 0 ==> up4(p) == p + (4 - p % 4))
{ reveal(up4); }

spec fn sum_chunk(bs: Seq<ByteStreamWriteBuffer>, last: bool, j: int) -> int
    decreases j
{ if j <= 0 { 0 } else { sum_chunk(bs, last, j - 1) + bs[j - 1].chunk_len(last) } }
proof fn lemma_sum_chunk_zero(bs: Seq<ByteStreamWriteBuffer>, last: bool, j: int)
    requires 0 <= j <= bs.len(), sum_chunk(bs, last, j) == 0, forall|t: int| 0 <= t < j ==> (#[trigger] bs[t]).wf(),
    ensures forall|t: int| 0 <= t < j ==> (#[trigger] bs[t]).chunk_len(last) == 0
    decreases j
{
    if j > 0 {
        lemma_sum_chunk_nonneg(bs, last, j - 1);
        lemma_sum_chunk_zero(bs, last, j - 1);
    }
}
proof fn lemma_sum_chunk_nonneg(bs: Seq<ByteStreamWriteBuffer>, last: bool, j: int)
    requires 0 <= j <= bs.len(), forall|t: int| 0 <= t < j ==> (#[trigger] bs[t]).wf(),
    ensures sum_chunk(bs, last, j) >= 0
    decreases j
{ if j > 0 { lemma_sum_chunk_nonneg(bs, last, j - 1); } }
proof fn lemma_sum_chunk_total(bs: Seq<ByteStreamWriteBuffer>, last: bool, chunks: Seq<Seq<u8>>, j: int)
    requires 0 <= j <= bs.len(), j <= chunks.len(), forall|t: int| 0 <= t < j ==> (#[trigger] chunks[t]).len() == bs[t].chunk_len(last),
    ensures sum_chunk(bs, last, j) == total_len(chunks, j)
    decreases j
{ if j > 0 { lemma_sum_chunk_total(bs, last, chunks, j - 1); } }

impl ByteStreamWriteBuffer {
    /// number of bytes a packet takes from this stream: only whole bytes, or everything on the last flush
    spec fn chunk_len(&self, last: bool) -> int { if last { self.buffer@.len() as int } else { self.nbits() / 8 } }
}

impl<'a> PointCloudWriter<'a> {
    /// what packing did relative to the streams `obs`, writer `ow`, section length `osl` and the point sequence `pts`:
    /// k points packed, `chunks` emitted as one data packet (or nothing)
    #[verifier::opaque]
    spec fn emitted_core(&self, obs: Seq<ByteStreamWriteBuffer>, ow: PagedWriter, osl: u64, pts: Seq<RawValues>, k: int, last: bool, chunks: Seq<Seq<u8>>) -> bool {
        let n = self.n();
        &&& chunks.len() == n
        // C01/C12: per stream, the emitted chunk followed by what stays buffered is everything that was buffered plus the k new encodings
        &&& forall|i: int| 0 <= i < n ==> {
                let all = all_bits_of(obs, self.prototype@, pts, i, k);
                if last { (#[trigger] chunks[i]).len() == (all.len() + 7) / 8 && bits_of(chunks[i]).subrange(0, all.len() as int) =~= all
                            && (forall|b: int| all.len() <= b < 8 * chunks[i].len() ==> !bit_at(chunks[i], b)) && self.byte_streams@[i].bits().len() == 0 }
                else { bits_of(#[trigger] chunks[i]) + self.byte_streams@[i].bits() =~= all && self.byte_streams@[i].nbits() < 8 }
            }
        // C01/C02: exactly one well-formed data packet is appended iff there is at least one byte to emit
        &&& (total_len(chunks, n) > 0 ==> appended(ow, *self.writer, spec_data_packet(chunks))
                && self.section_header.section_length as int == osl + spec_data_packet(chunks).len()
                && spec_data_packet(chunks).len() == up4(6 + 2 * n + total_len(chunks, n)) && spec_data_packet(chunks).len() <= 65535)
        &&& (total_len(chunks, n) == 0 ==> appended(ow, *self.writer, Seq::<u8>::empty())
                && self.section_header.section_length == osl)
    }
    spec fn emitted(&self, o: &Self, k: int, last: bool, chunks: Seq<Seq<u8>>) -> bool {
        self.emitted_core(o.byte_streams@, *o.writer, o.section_header.section_length, o.buffer@, k, last, chunks)
    }
    spec fn n(&self) -> int { self.prototype@.len() as int }
    /// established by PointCloudWriter::new: a bounds struct exists for every attribute group of the prototype
    spec fn bounds_present(&self) -> bool {
        forall|i: int| 0 <= i < self.n() ==> {
            let nm = (#[trigger] self.prototype@[i]).name;
            &&& ((nm == RecordName::CartesianX || nm == RecordName::CartesianY || nm == RecordName::CartesianZ) ==> self.cartesian_bounds is Some)
            &&& ((nm == RecordName::SphericalAzimuth || nm == RecordName::SphericalElevation || nm == RecordName::SphericalRange) ==> self.spherical_bounds is Some)
            &&& ((nm == RecordName::RowIndex || nm == RecordName::ColumnIndex || nm == RecordName::ReturnIndex) ==> self.index_bounds is Some
                    // validate_prototype: row / column / return index are integers
                    && self.prototype@[i].data_type is Integer)
        }
    }

    /// every buffered point has one representable value per prototype record (established by add_point: C10)
    spec fn pts_fit(&self, pts: Seq<RawValues>) -> bool {
        forall|j: int| 0 <= j < pts.len() ==> (#[trigger] pts[j])@.len() == self.n()
            && forall|i: int| 0 <= i < self.n() ==> (#[trigger] self.prototype@[i]).data_type.fits(pts[j]@[i])
    }
    /// representation invariant at call boundaries
    spec fn wf_w(&self) -> bool {
        &&& self.byte_streams@.len() == self.n() && self.n() < 0x8000
        &&& (forall|i: int| 0 <= i < self.n() ==> (#[trigger] self.byte_streams@[i]).wf() && self.byte_streams@[i].nbits() < 8)
        &&& self.pts_fit(self.buffer@)
        &&& self.writer.wf() && self.writer.cursor() % 4 == 0
        &&& 1 <= self.max_points_per_packet <= 0x10_0000
        // C02: the section length is the number of logical bytes written since the section start
        &&& self.section_header.section_length as int == self.writer.cursor() - unphys(self.section_offset as int)
        &&& self.section_header.section_length >= 32 && self.section_header.section_length as int <= self.writer.cursor()
        &&& self.section_header.section_length % 4 == 0
    }
    /// C15: the section lies behind the file header
    spec fn far(&self) -> bool { unphys(self.section_offset as int) >= 40 }
    /// C15 frame of the point cloud writer operations: they never carry anything for device bytes 32..40
    spec fn c15_pc(o: &Self, n: &Self, ok: bool) -> bool {
        (o.writer.quiet() && o.far()) ==> (if ok { n.writer.quiet() } else { n.writer.hist_clean() })
    }
    /// what does not change when buffered points are packed and written
    spec fn same_meta(&self, o: &Self) -> bool {
        &&& self.prototype == o.prototype && self.point_count == o.point_count && self.max_points_per_packet == o.max_points_per_packet
        &&& self.section_offset == o.section_offset
        &&& self.section_header.section_id == o.section_header.section_id && self.section_header.data_offset == o.section_header.data_offset
        &&& self.section_header.index_offset == o.section_header.index_offset
        &&& self.cartesian_bounds == o.cartesian_bounds && self.spherical_bounds == o.spherical_bounds && self.index_bounds == o.index_bounds
        &&& self.color_limits == o.color_limits && self.intensity_limits == o.intensity_limits
        &&& self.pointclouds@ == o.pointclouds@
    }
    spec fn all_bits(&self, i: int, k: int) -> Seq<bool> { all_bits_of(self.byte_streams@, self.prototype@, self.buffer@, i, k) }
    /// number of points one call of write_buffer_to_disk packs
    spec fn packed_now(&self) -> int {
        if self.max_points_per_packet <= self.buffer@.len() { self.max_points_per_packet as int } else { self.buffer@.len() as int }
    }
// the two local closures `contains` / `get` of validate_prototype are beta-reduced: their bodies are those of the free functions of the same name
//@fn src/pc_writer.rs PointCloudWriter validate_prototype serves=C10,C14,C01 ret=r
//@rw let contains = \|n: RecordName\| prototype\.iter\(\)\.any\(\|p\| p\.name == n\); ==> <empty>
//@rw let get = \|n: RecordName\| prototype\.iter\(\)\.find\(\|p\| p\.name == n\); ==> <empty>
//@rw (?<![\w.])(contains|get)\((RecordName::\w+)\) ==> \1(prototype, \2)
//@rw for \(i, record\) in prototype\.iter\(\)\.enumerate\(\) \{ ==> for i in 0..prototype.len() { let record = &prototype[i];
//@rw prototype\[\.\.i\]\.iter\(\)\.any\(\|p\| p\.name == record\.name\) ==> shim_has_ref(&prototype[..i], &record.name)
//@sig
        // accepted exactly when the prototype follows the documented rules; a rejection is an Invalid error
        /*[C10]*/ ensures (r is Ok) == documented_rules(prototype@), r is Err ==> r->Err_0 is Invalid,
//@loop 0 head
            invariant forall|a: int, b: int| 0 <= a < b < i ==> (#[trigger] prototype@[a]).name != (#[trigger] prototype@[b]).name,
//@loop 0 body_start
            proof {
                // a name found among the earlier records is a duplicate, and the other way round
                assert(has_name(prototype@.subrange(0, i as int), prototype@[i as int].name)
                    == exists|a: int| 0 <= a < i && (#[trigger] prototype@[a]).name == prototype@[i as int].name) by {
                    if has_name(prototype@.subrange(0, i as int), prototype@[i as int].name) {
                        let a = choose|a: int| 0 <= a < i && (#[trigger] prototype@.subrange(0, i as int)[a]).name == prototype@[i as int].name;
                        assert(prototype@[a].name == prototype@[i as int].name);
                    }
                    if exists|a: int| 0 <= a < i && (#[trigger] prototype@[a]).name == prototype@[i as int].name {
                        let a = choose|a: int| 0 <= a < i && (#[trigger] prototype@[a]).name == prototype@[i as int].name;
                        assert(prototype@.subrange(0, i as int)[a].name == prototype@[i as int].name);
                    }
                }
            }
//@endfn

//@fn src/pc_writer.rs PointCloudWriter new serves=C01,C02,C14,C10,C16,C15 ret=r
//@rw writer: &'a mut PagedWriter<T> ==> writer: &'a mut PagedWriter
//@rw vec!\[ByteStreamWriteBuffer::new\(\); prototype\.len\(\)\] ==> shim_vec_bsw(prototype.len())
//@rw prototype\s*\.iter\(\)\s*\.any\(\|p\| p\.name == (RecordName::\w+)\) ==> shim_has(&prototype, \1)
//@rw prototype\.iter\(\)\.any\(\|p\| \{\s*p\.name == RecordName::ReturnIndex\s*\|\| p\.name == RecordName::ColumnIndex\s*\|\| p\.name == RecordName::RowIndex\s*\}\) ==> (shim_has(&prototype, RecordName::ReturnIndex) || shim_has(&prototype, RecordName::ColumnIndex) || shim_has(&prototype, RecordName::RowIndex))
//@rw prototype\s*\.iter\(\)\s*\.find\(\|p\| p\.name == (RecordName::\w+)\) ==> shim_find(&prototype, \1)
//@rw intensity\.map\(\|i\| IntensityLimits::from_record_type\(&i\.data_type\)\) ==> (match intensity { Some(i) => Some(IntensityLimits::from_record_type(&i.data_type)), None => None })
//@rw guid\.to_owned\(\) ==> shim_opaque_from_str(guid)
//@rw section_header\.write\(writer\)\? ==> section_header.write(writer)?
//@rw (CartesianBounds|SphericalBounds|IndexBounds)::default\(\) ==> \1::spec_default()
//@sig
        requires old(writer).wf(), old(writer).cursor() % 4 == 0, prototype@.len() < 0x0100_0000_0000_0000,
        ensures
            r is Ok ==> r->Ok_0.wf_w(),
            r is Ok ==> r->Ok_0.bounds_present(),
            r is Ok ==> r->Ok_0.prototype@ == prototype@ && r->Ok_0.point_count == 0 && r->Ok_0.buffer@.len() == 0 && r->Ok_0.pointclouds@ == old(pointclouds)@,
            // C14 base case: empty bounds exactly for the attribute groups of the prototype
            /*[C14]*/ r is Ok ==> r->Ok_0.cartesian_bounds == (if has_name(prototype@, RecordName::CartesianX) { Some(CartesianBounds { x_min: None, x_max: None, y_min: None, y_max: None, z_min: None, z_max: None }) } else { None }),
            /*[C14]*/ r is Ok ==> r->Ok_0.spherical_bounds == (if has_name(prototype@, RecordName::SphericalAzimuth) { Some(SphericalBounds { range_min: None, range_max: None, elevation_min: None, elevation_max: None, azimuth_start: None, azimuth_end: None }) } else { None }),
            /*[C14]*/ r is Ok ==> r->Ok_0.index_bounds == (if has_name(prototype@, RecordName::ReturnIndex) || has_name(prototype@, RecordName::ColumnIndex) || has_name(prototype@, RecordName::RowIndex)
                        { Some(IndexBounds { row_min: None, row_max: None, column_min: None, column_max: None, return_min: None, return_max: None }) } else { None }),
            // C14: default limits = declared range of the corresponding attribute type
            /*[C14]*/ (r is Ok && has_name(prototype@, RecordName::Intensity)) ==> r->Ok_0.intensity_limits == Some(intensity_limits_spec(prototype@[first_named(prototype@, RecordName::Intensity)].data_type)),
            /*[C14]*/ (r is Ok && !has_name(prototype@, RecordName::Intensity)) ==> r->Ok_0.intensity_limits is None,
            /*[C14]*/ (r is Ok && has_name(prototype@, RecordName::ColorRed)) ==> r->Ok_0.color_limits == Some(color_limits_spec(
                        prototype@[first_named(prototype@, RecordName::ColorRed)].data_type, prototype@[first_named(prototype@, RecordName::ColorGreen)].data_type, prototype@[first_named(prototype@, RecordName::ColorBlue)].data_type)),
            /*[C14]*/ (r is Ok && !has_name(prototype@, RecordName::ColorRed)) ==> r->Ok_0.color_limits is None,
            // C01/C02: the section starts with a 32-byte header placeholder at the old cursor; published offsets are physical positions
            /*[C01,C02]*/ r is Ok ==> appended(*old(writer), *r->Ok_0.writer, spec_cv_header(1, 32, 0, 0)),
            /*[C01,C02]*/ r is Ok ==> r->Ok_0.section_offset == phys(old(writer).cursor()) && r->Ok_0.section_header.data_offset == phys(old(writer).cursor() + 32)
                && r->Ok_0.section_header.section_length == 32 && r->Ok_0.section_header.section_id == 1,
            /*[C16]*/ r is Ok ==> r->Ok_0.writer.no_new_fault(old(writer)),
            /*[C15]*/ (r is Ok && old(writer).quiet() && old(writer).cursor() >= 40) ==> r->Ok_0.writer.quiet() && r->Ok_0.far(),
//@body_start
        let ghost w0 = *writer;
        proof { lemma_cursor_bound(w0); lemma_phys_roundtrip(w0.cursor()); }
//@call physical_position 0 after
        let ghost wa = *writer;
        proof { assert(wa.cursor() == w0.cursor() && wa.stream() == w0.stream()); }
//@call write 0 after
        let ghost wb = *writer;
        proof {
            assert(spec_cv_header(1, 32, 0, 0).len() == 32);
            assert(wb.cursor() == w0.cursor() + 32);
            assert(appended(w0, wb, spec_cv_header(1, 32, 0, 0)));
            lemma_appended_content(w0, wb, spec_cv_header(1, 32, 0, 0));
        }
//@call physical_position 1 after
        proof {
            assert(*writer == wb || (writer.cursor() == wb.cursor() && writer.stream() == wb.stream()));
            assert(section_header.data_offset == phys(w0.cursor() + 32));
            assert(section_offset == phys(w0.cursor()));
            assert(unphys(section_offset as int) == w0.cursor());
        }
//@stmt 0 before Ok\(PointCloudWriter \{
        proof {
            lemma_rules_imply(prototype@);
            lemma_bounds_present(prototype@, cartesian_bounds is Some, spherical_bounds is Some, index_bounds is Some);
            assert(writer.cursor() == w0.cursor() + 32);
            assert(section_header.section_length as int == writer.cursor() - unphys(section_offset as int));
        }
//@endfn

//@fn src/pc_writer.rs PointCloudWriter write_buffer_to_disk serves=C01,C02,C10,C16,C15 ret=r
//@rw for _ in 0\.\.packet_points ==> for _k in it: 0..packet_points
//@rw for \(i, prototype\) in self\.prototype\.iter\(\)\.enumerate\(\) \{ ==> for i in it2: 0..self.prototype.len() { let prototype = &self.prototype[i];
//@rw \.write\(&mut self\.writer\)\? ==> .write(self.writer)?
//@rw for bs in &self\.byte_streams \{ ==> for bs in it3: &self.byte_streams {
//@rw for size in bs_sizes \{ ==> for si in it4: 0..bs_sizes.len() { let size = bs_sizes[si];
//@rw for bs in &mut self\.byte_streams \{ ==> for bi in it5: 0..self.byte_streams.len() {
//@rw bs\.get_all_bytes\(\) ==> self.byte_streams[bi].get_all_bytes()
//@rw bs\.get_full_bytes\(\) ==> self.byte_streams[bi].get_full_bytes()
//@sig
        requires old(self).wf_w(),
        ensures
            // metadata, bounds, limits and the point count are never touched, also not on an error exit
            final(self).same_meta(old(self)),
            r is Ok ==> final(self).wf_w(),
            // the first k = min(capacity, buffered) points are packed, in order; the rest stays buffered
            /*[C01]*/ r is Ok ==> final(self).buffer@ =~= old(self).buffer@.subrange(old(self).packed_now(), old(self).buffer@.len() as int),
            // their encodings go to the byte streams and (whole bytes) into exactly one well-formed data packet
            /*[C01,C02]*/ r is Ok ==> exists|chunks: Seq<Seq<u8>>| #[trigger] final(self).emitted(old(self), old(self).packed_now(), last_flush, chunks),
            /*[C16]*/ r is Ok ==> final(self).writer.no_new_fault(&*old(self).writer),
            /*[C15]*/ PointCloudWriter::c15_pc(old(self), final(self), r is Ok),
            // C01: the last flush leaves no bit behind in any byte stream
            /*[C01]*/ (r is Ok && last_flush) ==> forall|i: int| 0 <= i < final(self).byte_streams@.len() ==> (#[trigger] final(self).byte_streams@[i]).bits().len() == 0,
//@body_start
        proof { if old(self).writer.quiet() { lemma_quiet_clean(*old(self).writer); } }
//@loop 0 head hdr=for _k in it: 0\.\.packet_points
            invariant
                self.same_meta(old(self)), self.writer == old(self).writer, self.section_header == old(self).section_header, old(self).writer.quiet() ==> old(self).writer.hist_clean(),
                old(self).wf_w(), proto_len == self.n(), packet_points <= old(self).buffer@.len(), packet_points <= old(self).max_points_per_packet,
                self.buffer@ =~= old(self).buffer@.subrange(it.index@ as int, old(self).buffer@.len() as int),
                self.byte_streams@.len() == self.n(),
                forall|i: int| 0 <= i < self.n() ==> (#[trigger] self.byte_streams@[i]).wf()
                    && self.byte_streams@[i].bits() =~= old(self).all_bits(i, it.index@ as int)
                    && self.byte_streams@[i].nbits() <= 8 + 64 * it.index@,
//@loop 0 body_start
            let ghost idx = it.index@ as int;
//@loop 1 before
            let ghost pre1 = *self;
            proof { assert(old(self).buffer@[idx] == p); }
//@loop 1 head
                invariant
                    it2.snapshot@.end == self.n(), proto_len == self.n(),
                    self.same_meta(old(self)), self.writer == old(self).writer, self.section_header == old(self).section_header, old(self).writer.quiet() ==> old(self).writer.hist_clean(),
                    old(self).wf_w(), self.buffer@ == pre1.buffer@, self.byte_streams@.len() == self.n(),
                    0 <= idx < old(self).buffer@.len(), idx < 0x10_0000, p == old(self).buffer@[idx],
                    forall|i2: int| 0 <= i2 < i ==> (#[trigger] self.byte_streams@[i2]).wf()
                        && self.byte_streams@[i2].bits() =~= old(self).all_bits(i2, idx + 1)
                        && self.byte_streams@[i2].nbits() <= 8 + 64 * (idx + 1),
                    forall|i2: int| i <= i2 < self.n() ==> (#[trigger] self.byte_streams@[i2]).wf()
                        && self.byte_streams@[i2].bits() =~= old(self).all_bits(i2, idx)
                        && self.byte_streams@[i2].nbits() <= 8 + 64 * idx,
//@loop 1 body_start
                    let ghost prei = *self;
                    proof {
                        assert(old(self).pts_fit(old(self).buffer@));
                        assert(old(self).buffer@[idx]@.len() == self.n());
                        match self.prototype@[i as int].data_type { RecordDataType::ScaledInteger { min, max, .. } => lemma_width(min, max), RecordDataType::Integer { min, max } => lemma_width(min, max), _ => {} }
                    }
//@loop 1 body_end
                    proof {
                        let dt = self.prototype@[i as int].data_type;
                        assert(old(self).all_bits(i as int, idx + 1) =~= old(self).all_bits(i as int, idx) + dt.enc(p@[i as int]));
                        assert forall|i2: int| 0 <= i2 < self.n() && i2 != i implies self.byte_streams@[i2] == prei.byte_streams@[i2] by {}
                    }
//@loop 2 before
        let ghost mid = *self;
        let ghost k = packet_points as int;
        let ghost w0 = *self.writer;
        let ghost mut chunks: Seq<Seq<u8>> = Seq::new(self.n() as nat, |i: int| Seq::<u8>::empty());
        let ghost mut body: Seq<u8> = Seq::empty();
        let ghost mut wmid = *self.writer;
        let ghost q15 = self.writer.quiet() && self.far();
        proof { lemma_appended_refl(*self.writer); lemma_cursor_bound(*self.writer); if q15 { lemma_quiet_clean(*self.writer); } }
//@loop 2 head
            invariant
                *self == mid, self.n() == mid.n(), mid.n() < 0x8000, mid.byte_streams@.len() == mid.n(), 0 <= k <= 0x10_0000,
                forall|i: int| 0 <= i < mid.n() ==> (#[trigger] mid.byte_streams@[i]).wf() && mid.byte_streams@[i].nbits() <= 8 + 64 * k,
                sum_bs_sizes == sum_chunk(mid.byte_streams@, last_flush, it3.index@ as int), sum_bs_sizes <= it3.index@ * 0x1000_0000,
                bs_sizes@.len() == it3.index@,
                forall|t: int| 0 <= t < it3.index@ ==> #[trigger] bs_sizes@[t] == (mid.byte_streams@[t].chunk_len(last_flush) as u16),
//@stmt 0 before if packet_length % 4 != 0
            let ghost plen0 = packet_length as int;
//@stmt 0 before self\.section_header\.section_length \+= packet_length as u64
            proof {
                lemma_up4(plen0);
                lemma_cursor_bound(*self.writer);
                assert(packet_length == up4(6 + 2 * mid.n() + sum_chunk(mid.byte_streams@, last_flush, mid.n())));
            }
//@call write 1 after
            let ghost w1 = *self.writer;
            let ghost szs = bs_sizes@;
            let ghost sh1 = self.section_header;
            proof { lemma_appended_refl(*self.writer); lemma_cursor_bound(*self.writer); }
//@loop 3 head
                invariant
                    self.byte_streams == mid.byte_streams, self.buffer == mid.buffer, self.same_meta(&mid), self.section_header == sh1, self.n() == mid.n(),
                    szs.len() == mid.n(), bs_sizes@ == szs, it4.snapshot@.end == szs.len(), self.writer.wf(), self.writer.no_new_fault(&w0), w1.cursor() >= 0,
                    appended(w1, *self.writer, sizes16(szs, si as int)),
                    q15 == (old(self).writer.quiet() && old(self).far()), q15 ==> self.writer.quiet() && w1.cursor() >= 40,
//@loop 3 body_start
                let ghost wb = *self.writer;
//@loop 3 body_end
                proof {
                    lemma_appended_trans(w1, wb, *self.writer, sizes16(szs, si as int), le_bytes16(size));
                }
//@loop 4 before
            let ghost w2 = *self.writer;
            let ghost mut built: Seq<Seq<u8>> = Seq::empty();
            proof { lemma_appended_refl(*self.writer); }
//@loop 4 head
                invariant
                    it5.snapshot@.end == mid.n(), self.byte_streams@.len() == mid.n(), mid.byte_streams@.len() == mid.n(), self.buffer == mid.buffer, self.same_meta(&mid),
                    self.section_header == sh1, self.n() == mid.n(), self.writer.wf(), self.writer.no_new_fault(&w0), w2.cursor() >= 0,
                    built.len() == bi,
                    appended(w2, *self.writer, concat_chunks(built, bi as int)),
                    q15 == (old(self).writer.quiet() && old(self).far()), q15 ==> self.writer.quiet() && w2.cursor() >= 40,
                    forall|i: int| 0 <= i < mid.n() ==> (#[trigger] mid.byte_streams@[i]).wf(),
                    forall|i: int| bi <= i < mid.n() ==> self.byte_streams@[i] == mid.byte_streams@[i],
                    forall|i: int| 0 <= i < bi ==> (#[trigger] built[i]).len() == mid.byte_streams@[i].chunk_len(last_flush) && self.byte_streams@[i].wf()
                        && (if last_flush { built[i].len() == (mid.byte_streams@[i].nbits() + 7) / 8 && bits_of(built[i]).subrange(0, mid.byte_streams@[i].nbits()) =~= mid.byte_streams@[i].bits()
                                && (forall|b: int| mid.byte_streams@[i].nbits() <= b < 8 * built[i].len() ==> !bit_at(built[i], b)) && self.byte_streams@[i].bits().len() == 0 && self.byte_streams@[i].nbits() == 0 }
                            else { bits_of(built[i]) + self.byte_streams@[i].bits() =~= mid.byte_streams@[i].bits() && self.byte_streams@[i].nbits() < 8 }),
//@loop 4 body_start
                let ghost wb = *self.writer;
                let ghost pre_bs = self.byte_streams@;
                proof { assert(bi < mid.n()); assert(self.byte_streams@[bi as int] == mid.byte_streams@[bi as int]); assert(mid.byte_streams@[bi as int].wf()); assert(self.byte_streams@[bi as int].wf()); }
//@loop 4 body_end
                proof {
                    let old_built = built;
                    lemma_appended_trans(w2, wb, *self.writer, concat_chunks(built, bi as int), data@);
                    built = built.push(data@);
                    lemma_concat_ext(built, old_built, bi as int);
                    assert(concat_chunks(built, bi as int + 1) == concat_chunks(old_built, bi as int) + data@);
                    assert forall|i: int| 0 <= i < bi implies built[i] == old_built[i] by {}
                }
//@loop 4 after
            proof {
                chunks = built;
                let n = mid.n();
                let hdr = spec_data_packet_header(false, packet_length as u64, proto_len as u16);
                lemma_total_nonneg(chunks, n);
                lemma_sum_chunk_total(mid.byte_streams@, last_flush, chunks, n);
                assert forall|t: int| 0 <= t < n implies szs[t] as int == (#[trigger] chunks[t]).len() by { lemma_total_ge_each(chunks, n, t); }
                lemma_sizes16_is_sizes_le(szs, chunks, n);
                lemma_appended_trans(w0, w1, w2, hdr, sizes_le(chunks, n));
                lemma_appended_trans(w0, w2, *self.writer, hdr + sizes_le(chunks, n), concat_chunks(chunks, n));
                body = hdr + sizes_le(chunks, n) + concat_chunks(chunks, n);
                wmid = *self.writer;
            }
//@tail
        proof {
            lemma_wbtd_finish(*old(self), mid, *self, k, last_flush, sum_bs_sizes as int, chunks, wmid, body);
            assert(k == old(self).packed_now());
            assert(self.emitted(old(self), old(self).packed_now(), last_flush, chunks));
        }
//@endfn

//@fn src/pc_writer.rs PointCloudWriter finalize serves=C01,C02,C14,C09,C16,C15 ret=r
//@rw self\.section_header\.write\(&mut self\.writer\)\? ==> self.section_header.write(self.writer)?
//@rw !self\.buffer\.is_empty\(\) ==> self.buffer.len() > 0
//@rw self\.guid\.clone\(\) ==> shim_clone_opaque(&self.guid)
//@rw self\.prototype\.clone\(\) ==> shim_clone_proto(&self.prototype)
//@sig
        requires old(self).wf_w(),
        ensures
            r is Ok ==> final(self).writer.wf() && final(self).buffer@.len() == 0,
            // C01: nothing stays behind in the byte streams: every bit of every added point has been written into a packet
            /*[C01]*/ r is Ok ==> forall|i: int| 0 <= i < final(self).byte_streams@.len() ==> (#[trigger] final(self).byte_streams@[i]).bits().len() == 0,
            // C02: the section header at the section start carries the final section length = logical bytes of the whole section,
            // nothing else in the stream changes by the patch, and the cursor is back at the end of the section
            /*[C02,C01]*/ r is Ok ==> ({
                let cs = unphys(old(self).section_offset as int); let w = *final(self).writer;
                let hdr = spec_cv_header(final(self).section_header.section_id, final(self).section_header.section_length,
                                         final(self).section_header.data_offset, final(self).section_header.index_offset);
                &&& final(self).section_header.section_length as int == w.cursor() - cs
                &&& final(self).section_header.section_length % 4 == 0
                &&& w.stream().len() >= cs + 32 && w.stream().subrange(cs, cs + 32) =~= hdr
            }),
            // C01/C14: the descriptor pushed for the XML carries the number of points added, the section start, the prototype,
            // the bounds and the limits as they are
            /*[C01,C14]*/ r is Ok ==> final(self).pointclouds@.len() == old(self).pointclouds@.len() + 1 && ({
                let pc = final(self).pointclouds@[old(self).pointclouds@.len() as int];
                &&& pc.records == old(self).point_count && pc.file_offset == old(self).section_offset && pc.prototype@ == old(self).prototype@
                &&& pc.cartesian_bounds == old(self).cartesian_bounds && pc.spherical_bounds == old(self).spherical_bounds && pc.index_bounds == old(self).index_bounds
                &&& pc.color_limits == old(self).color_limits && pc.intensity_limits == old(self).intensity_limits
            }),
            /*[C16]*/ r is Ok ==> final(self).writer.no_new_fault(&*old(self).writer),
            // C15/C16: a point cloud whose finalize failed (device fault while its section header is patched) is NOT published:
            // the top-level finalize can then never list a section whose header is still the placeholder
            /*[C15,C16]*/ r is Err ==> final(self).pointclouds@ == old(self).pointclouds@,
            /*[C15]*/ PointCloudWriter::c15_pc(old(self), final(self), r is Ok),
//@loop 0 head
            invariant self.wf_w(), self.same_meta(old(self)), self.writer.no_new_fault(&*old(self).writer),
                (old(self).writer.quiet() && old(self).far()) ==> self.writer.quiet(),
            // C09: every round packs at least one buffered point
            decreases self.buffer@.len(),
//@call physical_position 0 before
        let ghost wa = *self.writer;
        proof { lemma_cursor_bound(wa); lemma_phys_roundtrip(wa.cursor()); if wa.quiet() { lemma_quiet_clean(wa); } }
//@call physical_seek 0 after
        let ghost wb = *self.writer;
//@call write 0 after
        let ghost wc = *self.writer;
        proof { lemma_appended_content(wb, wc, spec_cv_header(self.section_header.section_id, self.section_header.section_length, self.section_header.data_offset, self.section_header.index_offset)); }
//@call physical_seek 1 after
        proof {
            let cs = unphys(self.section_offset as int);
            assert(self.writer.stream() == wc.stream());
            assert(wc.stream().subrange(cs, cs + 32) =~= spec_cv_header(self.section_header.section_id, self.section_header.section_length, self.section_header.data_offset, self.section_header.index_offset));
        }
//@endfn

//@fn src/pc_writer.rs PointCloudWriter add_point serves=C10,C14,C01,C15 ret=r
//@rw for \(i, p\) in self\.prototype\.iter\(\)\.enumerate\(\) \{ ==> for i in 0..self.prototype.len() { let p = &self.prototype[i]; ;n=2
//@sig
        requires old(self).point_count < u64::MAX, old(self).bounds_present(), old(self).wf_w(),
        ensures
            final(self).prototype == old(self).prototype, final(self).bounds_present(),
            r is Ok ==> final(self).wf_w(),
            // C01: the point joins the pending points in order; when the packet capacity is reached the pending points are packed (write_buffer_to_disk contract)
            /*[C01]*/ (r is Ok && old(self).buffer@.len() + 1 < old(self).max_points_per_packet) ==> final(self).buffer@ =~= old(self).buffer@.push(values)
                && final(self).byte_streams@ == old(self).byte_streams@ && *final(self).writer == *old(self).writer && final(self).section_header == old(self).section_header,
            /*[C01]*/ (r is Ok && old(self).buffer@.len() + 1 >= old(self).max_points_per_packet) ==> ({
                let b1 = old(self).buffer@.push(values); let k = old(self).max_points_per_packet as int;
                &&& final(self).buffer@ =~= b1.subrange(k, b1.len() as int)
                &&& exists|chunks: Seq<Seq<u8>>| #[trigger] final(self).emitted_core(old(self).byte_streams@, *old(self).writer, old(self).section_header.section_length, b1, k, false, chunks)
            }),
            /*[C10]*/ r is Ok ==> values@.len() == old(self).n() && forall|i: int| 0 <= i < old(self).n() ==> (#[trigger] old(self).prototype@[i]).data_type.fits(values@[i]),
            /*[C14]*/ r is Ok ==> final(self).cartesian_bounds == opt_cart(old(self).cartesian_bounds, old(self).prototype@, values@, old(self).n()),
            /*[C14]*/ r is Ok ==> final(self).spherical_bounds == opt_sph(old(self).spherical_bounds, old(self).prototype@, values@, old(self).n()),
            /*[C14]*/ r is Ok ==> final(self).index_bounds == opt_idx(old(self).index_bounds, old(self).prototype@, values@, old(self).n()),
            /*[C01]*/ r is Ok ==> final(self).point_count == old(self).point_count + 1,
            // a rejected point (not counted) leaves the bounds untouched: bounds are the min/max over the points ADDED
            /*[C14]*/ (r is Err && final(self).point_count == old(self).point_count) ==> final(self).cartesian_bounds == old(self).cartesian_bounds && final(self).spherical_bounds == old(self).spherical_bounds && final(self).index_bounds == old(self).index_bounds,
            /*[C10]*/ (r is Err && final(self).point_count == old(self).point_count) ==> final(self).buffer@ == old(self).buffer@,
            /*[C15]*/ PointCloudWriter::c15_pc(old(self), final(self), r is Ok),
//@body_start
        proof { if old(self).writer.quiet() { lemma_quiet_clean(*old(self).writer); } }
//@loop 0 head
            invariant
                *self == *old(self), old(self).bounds_present(), old(self).wf_w(), old(self).writer.quiet() ==> old(self).writer.hist_clean(),
                values@.len() == self.prototype@.len(),
                /*[C10]*/ forall|j: int| 0 <= j < i ==> (#[trigger] self.prototype@[j]).data_type.fits(values@[j]),
//@loop 1 head
            invariant
                self.prototype == old(self).prototype, self.point_count == old(self).point_count, self.buffer == old(self).buffer,
                old(self).bounds_present(), old(self).wf_w(), self.byte_streams == old(self).byte_streams, self.writer == old(self).writer, old(self).writer.quiet() ==> old(self).writer.hist_clean(),
                self.section_header == old(self).section_header, self.section_offset == old(self).section_offset,
                self.max_points_per_packet == old(self).max_points_per_packet, self.pointclouds == old(self).pointclouds,
                self.color_limits == old(self).color_limits, self.intensity_limits == old(self).intensity_limits,
                values@.len() == self.prototype@.len(),
                forall|j: int| 0 <= j < self.prototype@.len() ==> (#[trigger] self.prototype@[j]).data_type.fits(values@[j]),
                /*[C14]*/ self.cartesian_bounds == opt_cart(old(self).cartesian_bounds, self.prototype@, values@, i as int),
                /*[C14]*/ self.spherical_bounds == opt_sph(old(self).spherical_bounds, self.prototype@, values@, i as int),
                /*[C14]*/ self.index_bounds == opt_idx(old(self).index_bounds, self.prototype@, values@, i as int),
//@stmt 0 before self\.buffer\.push_back\(values\)
        let ghost vals = values@;
//@stmt 0 after self\.point_count \+= 1
        let ghost mid = *self;
        proof {
            assert(mid.buffer@ =~= old(self).buffer@.push(values));
            assert(mid.pts_fit(mid.buffer@)) by {
                assert forall|j: int| 0 <= j < mid.buffer@.len() implies (#[trigger] mid.buffer@[j])@.len() == mid.n()
                    && forall|i: int| 0 <= i < mid.n() ==> (#[trigger] mid.prototype@[i]).data_type.fits(mid.buffer@[j]@[i]) by {
                    if j < old(self).buffer@.len() { assert(mid.buffer@[j] == old(self).buffer@[j]); } else { assert(mid.buffer@[j]@ == vals); }
                }
            }
            assert(mid.wf_w());
        }
//@endfn
}

/// closing argument of write_buffer_to_disk, separated from the function body to keep its query small:
/// from the facts established by the loops (mid = state after packing k points, f = final state) to wf_w and emitted
proof fn lemma_wbtd_finish(o: PointCloudWriter, m: PointCloudWriter, f: PointCloudWriter, k: int, last: bool, sum: int, chunks: Seq<Seq<u8>>, wmid: PagedWriter, body: Seq<u8>)
    requires
        o.wf_w(), k == o.packed_now(), m.n() == o.n(), f.n() == o.n(), m.prototype == o.prototype,
        m.byte_streams@.len() == o.n(),
        forall|i: int| 0 <= i < o.n() ==> (#[trigger] m.byte_streams@[i]).wf() && m.byte_streams@[i].bits() =~= o.all_bits(i, k),
        m.buffer@ =~= o.buffer@.subrange(k, o.buffer@.len() as int),
        f.same_meta(&o), f.buffer@ == m.buffer@, f.byte_streams@.len() == o.n(), *m.writer == *o.writer,
        sum == sum_chunk(m.byte_streams@, last, o.n()), chunks.len() == o.n(),
        sum > 0 ==> ({
            &&& forall|i: int| 0 <= i < o.n() ==> (#[trigger] chunks[i]).len() == m.byte_streams@[i].chunk_len(last) && f.byte_streams@[i].wf()
                    && (if last { chunks[i].len() == (m.byte_streams@[i].nbits() + 7) / 8 && bits_of(chunks[i]).subrange(0, m.byte_streams@[i].nbits()) =~= m.byte_streams@[i].bits()
                            && (forall|b: int| m.byte_streams@[i].nbits() <= b < 8 * chunks[i].len() ==> !bit_at(chunks[i], b)) && f.byte_streams@[i].bits().len() == 0 && f.byte_streams@[i].nbits() == 0 }
                        else { bits_of(chunks[i]) + f.byte_streams@[i].bits() =~= m.byte_streams@[i].bits() && f.byte_streams@[i].nbits() < 8 })
            &&& body == spec_data_packet_header(false, up4(6 + 2 * o.n() + sum) as u64, o.n() as u16) + sizes_le(chunks, o.n()) + concat_chunks(chunks, o.n())
            &&& appended(*o.writer, wmid, body)
            &&& f.section_header.section_length as int == o.section_header.section_length + up4(6 + 2 * o.n() + sum)
            &&& up4(6 + 2 * o.n() + sum) <= 65535
        }),
        sum == 0 ==> f.byte_streams@ == m.byte_streams@ && chunks == Seq::new(o.n() as nat, |i: int| Seq::<u8>::empty()) && wmid == *o.writer
            && body == Seq::<u8>::empty() && f.section_header.section_length == o.section_header.section_length,
        f.writer.wf(), f.writer.cursor() % 4 == 0, 0 <= f.writer.cursor() - wmid.cursor() < 4,
        appended(wmid, *f.writer, Seq::new((f.writer.cursor() - wmid.cursor()) as nat, |i: int| 0u8)),
    ensures f.wf_w(), f.emitted(&o, k, last, chunks),
        last ==> forall|i: int| 0 <= i < f.byte_streams@.len() ==> (#[trigger] f.byte_streams@[i]).bits().len() == 0
{
    let n = o.n();
    let tot = total_len(chunks, n);
    lemma_total_nonneg(chunks, n);
    lemma_cursor_bound(*o.writer);
    let pad = Seq::new((f.writer.cursor() - wmid.cursor()) as nat, |i: int| 0u8);
    if sum > 0 {
        lemma_sum_chunk_total(m.byte_streams@, last, chunks, n);
        lemma_appended_trans(*o.writer, wmid, *f.writer, body, pad);
        lemma_up4(6 + 2 * n + tot);
        assert(pad =~= zeros(up4(6 + 2 * n + tot) - 6 - 2 * n - tot));
        assert(body + pad =~= spec_data_packet(chunks));
    } else {
        lemma_sum_chunk_nonneg(m.byte_streams@, last, n);
        lemma_sum_chunk_zero(m.byte_streams@, last, n);
        assert forall|t: int| 0 <= t < n implies (#[trigger] chunks[t]).len() == m.byte_streams@[t].chunk_len(last) by { }
        lemma_sum_chunk_total(m.byte_streams@, last, chunks, n);
        assert(pad =~= Seq::<u8>::empty());
        lemma_appended_refl(*o.writer);
        lemma_appended_trans(*o.writer, wmid, *f.writer, body, pad);
        assert(body + pad =~= Seq::<u8>::empty());
    }
    assert forall|i: int| 0 <= i < n implies (#[trigger] f.byte_streams@[i]).wf() && f.byte_streams@[i].nbits() < 8 by {
        if sum == 0 { assert(f.byte_streams@[i] == m.byte_streams@[i]); assert(m.byte_streams@[i].chunk_len(last) == 0); }
        else { let c = chunks[i]; assert(c.len() == m.byte_streams@[i].chunk_len(last)); }
    }
    assert(f.emitted(&o, k, last, chunks)) by {
        reveal(PointCloudWriter::emitted_core);
        assert forall|i: int| 0 <= i < n implies ({
            let all = o.all_bits(i, k);
            if last { (#[trigger] chunks[i]).len() == (all.len() + 7) / 8 && bits_of(chunks[i]).subrange(0, all.len() as int) =~= all
                        && (forall|b: int| all.len() <= b < 8 * chunks[i].len() ==> !bit_at(chunks[i], b)) && f.byte_streams@[i].bits().len() == 0 }
            else { bits_of(#[trigger] chunks[i]) + f.byte_streams@[i].bits() =~= all && f.byte_streams@[i].nbits() < 8 } }) by {
            assert(m.byte_streams@[i].bits() =~= o.all_bits(i, k));
            if sum == 0 { assert(f.byte_streams@[i] == m.byte_streams@[i]); assert(m.byte_streams@[i].chunk_len(last) == 0); assert(chunks[i] =~= Seq::<u8>::empty()); }
        }
    }
    if last {
        reveal(PointCloudWriter::emitted_core);
        assert forall|i: int| 0 <= i < f.byte_streams@.len() implies (#[trigger] f.byte_streams@[i]).bits().len() == 0 by {
            assert(chunks[i].len() >= 0);
        }
    }
    assert(f.pts_fit(f.buffer@)) by {
        assert forall|j: int| 0 <= j < f.buffer@.len() implies (#[trigger] f.buffer@[j])@.len() == f.n()
            && forall|i: int| 0 <= i < f.n() ==> (#[trigger] f.prototype@[i]).data_type.fits(f.buffer@[j]@[i]) by {
            assert(f.buffer@[j] == o.buffer@[j + k]);
        }
    }
}

