// ---- writer side above the page layer: PointCloudWriter (pc_writer.rs) -------------------------
/// strings are modelled by an identity tag: structural equality of the model = string equality
#[derive(Clone)]
struct OpaqueStr { tag: u64 }
#[derive(Clone)]
struct Opaque { tag: u64 }

//@item src/record.rs enum RecordName
//@rw : String, ==> : OpaqueStr,
//@enditem
impl PartialEq for RecordName {
    /// assumed: derive(PartialEq) is structural equality
    #[verifier::external_body]
    fn eq(&self, o: &Self) -> (r: bool) ensures r == (*self == *o) { unimplemented!() }
}
//@item src/record.rs struct Record
//@enditem
type RawValues = Vec<RecordValue>;

//@item src/bounds.rs struct CartesianBounds
//@enditem
//@item src/bounds.rs struct SphericalBounds
//@enditem
//@item src/bounds.rs struct IndexBounds
//@enditem
//@item src/limits.rs struct IntensityLimits
//@enditem
//@item src/limits.rs struct ColorLimits
//@enditem
//@item src/pointcloud.rs struct PointCloud
//@rw : (Option<)?(String|Transform|DateTime|Vec<String>)>?, ==> : Opaque,
//@enditem
//@item src/pc_writer.rs struct PointCloudWriter
//@rw <'a, T: Read \+ Write \+ Seek> ==> <'a>
//@rw PagedWriter<T> ==> PagedWriter
//@rw : (Option<)?(String|Transform|DateTime|Vec<String>)>?, ==> : Opaque,
//@enditem

// ---- contract-only leaves (proved on the real functions by the Kani unit wr_k) --------------------
uninterp spec fn val_gt<T>(a: T, b: T) -> bool;
uninterp spec fn val_lt<T>(a: T, b: T) -> bool;
/// running minimum / maximum step (C14)
spec fn upd_min<T>(m: Option<T>, v: T) -> Option<T> { match m { None => Some(v), Some(c) => if val_gt(c, v) { Some(v) } else { Some(c) } } }
spec fn upd_max<T>(m: Option<T>, v: T) -> Option<T> { match m { None => Some(v), Some(c) => if val_lt(c, v) { Some(v) } else { Some(c) } } }

#[verifier::external_body]
fn update_min<T>(value: T, min: &mut Option<T>)
    ensures *final(min) == upd_min(*old(min), value)
{ unimplemented!() }
#[verifier::external_body]
fn update_max<T>(value: T, min: &mut Option<T>)
    ensures *final(min) == upd_max(*old(min), value)
{ unimplemented!() }

// ---- C14 specification: bounds are the fold of min/max over the records of every point added ----
spec fn cart_step(b: CartesianBounds, name: RecordName, v: f64) -> CartesianBounds {
    CartesianBounds {
        x_min: if name == RecordName::CartesianX { upd_min(b.x_min, v) } else { b.x_min },
        x_max: if name == RecordName::CartesianX { upd_max(b.x_max, v) } else { b.x_max },
        y_min: if name == RecordName::CartesianY { upd_min(b.y_min, v) } else { b.y_min },
        y_max: if name == RecordName::CartesianY { upd_max(b.y_max, v) } else { b.y_max },
        z_min: if name == RecordName::CartesianZ { upd_min(b.z_min, v) } else { b.z_min },
        z_max: if name == RecordName::CartesianZ { upd_max(b.z_max, v) } else { b.z_max },
    }
}
spec fn sph_step(b: SphericalBounds, name: RecordName, v: f64) -> SphericalBounds {
    SphericalBounds {
        range_min: if name == RecordName::SphericalRange { upd_min(b.range_min, v) } else { b.range_min },
        range_max: if name == RecordName::SphericalRange { upd_max(b.range_max, v) } else { b.range_max },
        elevation_min: if name == RecordName::SphericalElevation { upd_min(b.elevation_min, v) } else { b.elevation_min },
        elevation_max: if name == RecordName::SphericalElevation { upd_max(b.elevation_max, v) } else { b.elevation_max },
        azimuth_start: if name == RecordName::SphericalAzimuth { upd_min(b.azimuth_start, v) } else { b.azimuth_start },
        azimuth_end: if name == RecordName::SphericalAzimuth { upd_max(b.azimuth_end, v) } else { b.azimuth_end },
    }
}
spec fn idx_step(b: IndexBounds, name: RecordName, v: i64) -> IndexBounds {
    IndexBounds {
        row_min: if name == RecordName::RowIndex { upd_min(b.row_min, v) } else { b.row_min },
        row_max: if name == RecordName::RowIndex { upd_max(b.row_max, v) } else { b.row_max },
        column_min: if name == RecordName::ColumnIndex { upd_min(b.column_min, v) } else { b.column_min },
        column_max: if name == RecordName::ColumnIndex { upd_max(b.column_max, v) } else { b.column_max },
        return_min: if name == RecordName::ReturnIndex { upd_min(b.return_min, v) } else { b.return_min },
        return_max: if name == RecordName::ReturnIndex { upd_max(b.return_max, v) } else { b.return_max },
    }
}
spec fn cart_fold(b: CartesianBounds, proto: Seq<Record>, vals: Seq<RecordValue>, k: int) -> CartesianBounds
    decreases k
{ if k <= 0 { b } else { cart_step(cart_fold(b, proto, vals, k - 1), proto[k - 1].name, real_f64(vals[k - 1], proto[k - 1].data_type)) } }
spec fn sph_fold(b: SphericalBounds, proto: Seq<Record>, vals: Seq<RecordValue>, k: int) -> SphericalBounds
    decreases k
{ if k <= 0 { b } else { sph_step(sph_fold(b, proto, vals, k - 1), proto[k - 1].name, real_f64(vals[k - 1], proto[k - 1].data_type)) } }
spec fn idx_fold(b: IndexBounds, proto: Seq<Record>, vals: Seq<RecordValue>, k: int) -> IndexBounds
    decreases k
{ if k <= 0 { b } else { idx_step(idx_fold(b, proto, vals, k - 1), proto[k - 1].name, int_of(vals[k - 1])) } }
spec fn opt_cart(o: Option<CartesianBounds>, proto: Seq<Record>, vals: Seq<RecordValue>, k: int) -> Option<CartesianBounds> {
    match o { Some(b) => Some(cart_fold(b, proto, vals, k)), None => None } }
spec fn opt_sph(o: Option<SphericalBounds>, proto: Seq<Record>, vals: Seq<RecordValue>, k: int) -> Option<SphericalBounds> {
    match o { Some(b) => Some(sph_fold(b, proto, vals, k)), None => None } }
spec fn opt_idx(o: Option<IndexBounds>, proto: Seq<Record>, vals: Seq<RecordValue>, k: int) -> Option<IndexBounds> {
    match o { Some(b) => Some(idx_fold(b, proto, vals, k)), None => None } }

/// bits that the i-th values of the first k points contribute to stream i, in point order (C01/C12)
spec fn enc_pts(dt: RecordDataType, i: int, pts: Seq<RawValues>, k: int) -> Seq<bool>
    decreases k
{ if k <= 0 { Seq::<bool>::empty() } else { enc_pts(dt, i, pts, k - 1) + dt.enc(pts[k - 1]@[i]) } }
/// LE u16 sizes of the first j chunks
spec fn sizes_le(chunks: Seq<Seq<u8>>, j: int) -> Seq<u8>
    decreases j
{ if j <= 0 { Seq::<u8>::empty() } else { sizes_le(chunks, j - 1) + le_bytes16(chunks[j - 1].len() as u16) } }
spec fn concat_chunks(chunks: Seq<Seq<u8>>, j: int) -> Seq<u8>
    decreases j
{ if j <= 0 { Seq::<u8>::empty() } else { concat_chunks(chunks, j - 1) + chunks[j - 1] } }
spec fn total_len(chunks: Seq<Seq<u8>>, j: int) -> int
    decreases j
{ if j <= 0 { 0 } else { total_len(chunks, j - 1) + chunks[j - 1].len() } }
#[verifier::opaque]
spec fn up4(p: int) -> int { if p % 4 == 0 { p } else { p + 4 - p % 4 } }
spec fn zeros(n: int) -> Seq<u8> { Seq::new(n as nat, |i: int| 0u8) }
/// E57 data packet (standard): header(6) ++ n x u16 LE stream lengths ++ the streams ++ zero padding to a multiple of 4;
/// the length field counts the whole packet
spec fn spec_data_packet(chunks: Seq<Seq<u8>>) -> Seq<u8> {
    let n = chunks.len() as int; let tot = total_len(chunks, n); let plen = up4(6 + 2 * n + tot);
    spec_data_packet_header(false, plen as u64, n as u16) + sizes_le(chunks, n) + concat_chunks(chunks, n) + zeros(plen - 6 - 2 * n - tot)
}

/// LE u16 encodings of the first j entries of a size table
spec fn sizes16(v: Seq<u16>, j: int) -> Seq<u8>
    decreases j
{ if j <= 0 { Seq::<u8>::empty() } else { sizes16(v, j - 1) + le_bytes16(v[j - 1]) } }
proof fn lemma_sizes16_is_sizes_le(v: Seq<u16>, chunks: Seq<Seq<u8>>, j: int)
    requires 0 <= j <= v.len(), j <= chunks.len(), forall|t: int| 0 <= t < j ==> v[t] as int == (#[trigger] chunks[t]).len(),
    ensures sizes16(v, j) == sizes_le(chunks, j)
    decreases j
{ if j > 0 { lemma_sizes16_is_sizes_le(v, chunks, j - 1); } }
proof fn lemma_total_nonneg(chunks: Seq<Seq<u8>>, j: int)
    ensures total_len(chunks, j) >= 0, concat_chunks(chunks, j).len() == total_len(chunks, j), sizes_le(chunks, j).len() == (if j <= 0 { 0 } else { 2 * j })
    decreases j
{ if j > 0 { lemma_total_nonneg(chunks, j - 1); } }
proof fn lemma_total_ge_each(chunks: Seq<Seq<u8>>, j: int, t: int)
    requires 0 <= t < j <= chunks.len()
    ensures chunks[t].len() <= total_len(chunks, j)
    decreases j
{ lemma_total_nonneg(chunks, j - 1); if t < j - 1 { lemma_total_ge_each(chunks, j - 1, t); } }
/// concat over a prefix does not depend on later elements
proof fn lemma_concat_prefix(c: Seq<Seq<u8>>, j: int)
    requires 0 <= j < c.len()
    ensures concat_chunks(c, j) == concat_chunks(c.subrange(0, j), j), concat_chunks(c.subrange(0, j), j) == concat_chunks(c.subrange(0, j).push(c[j]), j)
    decreases j
{
    lemma_concat_ext(c, c.subrange(0, j), j);
    lemma_concat_ext(c.subrange(0, j).push(c[j]), c.subrange(0, j), j);
}
proof fn lemma_concat_ext(a: Seq<Seq<u8>>, b: Seq<Seq<u8>>, j: int)
    requires 0 <= j <= a.len(), j <= b.len(), forall|t: int| 0 <= t < j ==> a[t] == b[t]
    ensures concat_chunks(a, j) == concat_chunks(b, j), total_len(a, j) == total_len(b, j), sizes_le(a, j) == sizes_le(b, j)
    decreases j
{ if j > 0 { lemma_concat_ext(a, b, j - 1); } }
proof fn lemma_up4(p: int)
    requires p >= 0
    ensures up4(p) % 4 == 0, p <= up4(p) <= p + 3, (p % 4 == 0 ==> up4(p) == p), (p % 4 != 0 ==> up4(p) == p + (4 - p % 4))
{ reveal(up4); }

spec fn sum_chunk(bs: Seq<ByteStreamWriteBuffer>, last: bool, j: int) -> int
    decreases j
{ if j <= 0 { 0 } else { sum_chunk(bs, last, j - 1) + bs[j - 1].chunk_len(last) } }
proof fn lemma_sum_chunk_zero(bs: Seq<ByteStreamWriteBuffer>, last: bool, j: int)
    requires 0 <= j <= bs.len(), sum_chunk(bs, last, j) == 0, forall|t: int| 0 <= t < j ==> (#[trigger] bs[t]).wf(),
    ensures forall|t: int| 0 <= t < j ==> (#[trigger] bs[t]).chunk_len(last) == 0
    decreases j
{
    if j > 0 {
        lemma_sum_chunk_nonneg(bs, last, j - 1);
        lemma_sum_chunk_zero(bs, last, j - 1);
    }
}
proof fn lemma_sum_chunk_nonneg(bs: Seq<ByteStreamWriteBuffer>, last: bool, j: int)
    requires 0 <= j <= bs.len(), forall|t: int| 0 <= t < j ==> (#[trigger] bs[t]).wf(),
    ensures sum_chunk(bs, last, j) >= 0
    decreases j
{ if j > 0 { lemma_sum_chunk_nonneg(bs, last, j - 1); } }
proof fn lemma_sum_chunk_total(bs: Seq<ByteStreamWriteBuffer>, last: bool, chunks: Seq<Seq<u8>>, j: int)
    requires 0 <= j <= bs.len(), j <= chunks.len(), forall|t: int| 0 <= t < j ==> (#[trigger] chunks[t]).len() == bs[t].chunk_len(last),
    ensures sum_chunk(bs, last, j) == total_len(chunks, j)
    decreases j
{ if j > 0 { lemma_sum_chunk_total(bs, last, chunks, j - 1); } }

impl ByteStreamWriteBuffer {
    /// number of bytes a packet takes from this stream: only whole bytes, or everything on the last flush
    spec fn chunk_len(&self, last: bool) -> int { if last { self.buffer@.len() as int } else { self.nbits() / 8 } }
}

impl<'a> PointCloudWriter<'a> {
    /// what one call of write_buffer_to_disk did: k points packed, `chunks` emitted as one data packet (or nothing)
    spec fn emitted(&self, o: &Self, k: int, last: bool, chunks: Seq<Seq<u8>>) -> bool {
        let n = o.n();
        &&& chunks.len() == n
        // C01/C12: per stream, the emitted chunk followed by what stays buffered is everything that was buffered plus the k new encodings
        &&& forall|i: int| 0 <= i < n ==> {
                let all = o.all_bits(i, k);
                if last { (#[trigger] chunks[i]).len() == (all.len() + 7) / 8 && bits_of(chunks[i]).subrange(0, all.len() as int) =~= all
                            && (forall|b: int| all.len() <= b < 8 * chunks[i].len() ==> !bit_at(chunks[i], b)) && self.byte_streams@[i].bits().len() == 0 }
                else { bits_of(#[trigger] chunks[i]) + self.byte_streams@[i].bits() =~= all && self.byte_streams@[i].nbits() < 8 }
            }
        // C01/C02: exactly one well-formed data packet is appended iff there is at least one byte to emit
        &&& (total_len(chunks, n) > 0 ==> appended(*o.writer, *self.writer, spec_data_packet(chunks))
                && self.section_header.section_length as int == o.section_header.section_length + spec_data_packet(chunks).len()
                && spec_data_packet(chunks).len() == up4(6 + 2 * n + total_len(chunks, n)) && spec_data_packet(chunks).len() <= 65535)
        &&& (total_len(chunks, n) == 0 ==> appended(*o.writer, *self.writer, Seq::<u8>::empty())
                && self.section_header.section_length == o.section_header.section_length)
    }
    spec fn n(&self) -> int { self.prototype@.len() as int }
    /// established by PointCloudWriter::new: a bounds struct exists for every attribute group of the prototype
    spec fn bounds_present(&self) -> bool {
        forall|i: int| 0 <= i < self.n() ==> {
            let nm = (#[trigger] self.prototype@[i]).name;
            &&& ((nm == RecordName::CartesianX || nm == RecordName::CartesianY || nm == RecordName::CartesianZ) ==> self.cartesian_bounds is Some)
            &&& ((nm == RecordName::SphericalAzimuth || nm == RecordName::SphericalElevation || nm == RecordName::SphericalRange) ==> self.spherical_bounds is Some)
            &&& ((nm == RecordName::RowIndex || nm == RecordName::ColumnIndex || nm == RecordName::ReturnIndex) ==> self.index_bounds is Some
                    // validate_prototype: row / column / return index are integers
                    && self.prototype@[i].data_type is Integer)
        }
    }

    /// every buffered point has one representable value per prototype record (established by add_point: C10)
    spec fn pts_fit(&self, pts: Seq<RawValues>) -> bool {
        forall|j: int| 0 <= j < pts.len() ==> (#[trigger] pts[j])@.len() == self.n()
            && forall|i: int| 0 <= i < self.n() ==> (#[trigger] self.prototype@[i]).data_type.fits(pts[j]@[i])
    }
    /// representation invariant at call boundaries
    spec fn wf_w(&self) -> bool {
        &&& self.byte_streams@.len() == self.n() && self.n() < 0x8000
        &&& (forall|i: int| 0 <= i < self.n() ==> (#[trigger] self.byte_streams@[i]).wf() && self.byte_streams@[i].nbits() < 8)
        &&& self.pts_fit(self.buffer@)
        &&& self.writer.wf() && self.writer.cursor() % 4 == 0
        &&& 1 <= self.max_points_per_packet <= 0x10_0000
        // C02: the section length is the number of logical bytes written since the section start
        &&& self.section_header.section_length as int == self.writer.cursor() - unphys(self.section_offset as int)
        &&& self.section_header.section_length >= 32 && self.section_header.section_length as int <= self.writer.cursor()
    }
    /// what does not change when buffered points are packed and written
    spec fn same_meta(&self, o: &Self) -> bool {
        &&& self.prototype == o.prototype && self.point_count == o.point_count && self.max_points_per_packet == o.max_points_per_packet
        &&& self.section_offset == o.section_offset
        &&& self.section_header.section_id == o.section_header.section_id && self.section_header.data_offset == o.section_header.data_offset
        &&& self.section_header.index_offset == o.section_header.index_offset
        &&& self.cartesian_bounds == o.cartesian_bounds && self.spherical_bounds == o.spherical_bounds && self.index_bounds == o.index_bounds
        &&& self.color_limits == o.color_limits && self.intensity_limits == o.intensity_limits
    }
    /// number of points one call of write_buffer_to_disk packs
    spec fn packed_now(&self) -> int {
        if self.max_points_per_packet <= self.buffer@.len() { self.max_points_per_packet as int } else { self.buffer@.len() as int }
    }
    /// all bits of stream i after the first k buffered points were packed
    spec fn all_bits(&self, i: int, k: int) -> Seq<bool> {
        self.byte_streams@[i].bits() + enc_pts(self.prototype@[i].data_type, i, self.buffer@, k)
    }

//@fn src/pc_writer.rs PointCloudWriter write_buffer_to_disk serves=C01,C02,C10,C16 ret=r
//@rw for _ in 0\.\.packet_points ==> for _k in it: 0..packet_points
//@rw for \(i, prototype\) in self\.prototype\.iter\(\)\.enumerate\(\) \{ ==> for i in it2: 0..self.prototype.len() { let prototype = &self.prototype[i];
//@rw size\.to_le_bytes\(\) ==> shim_u16_to_le_bytes(size)
//@rw \.write\(&mut self\.writer\)\? ==> .write(self.writer)?
//@rw for bs in &self\.byte_streams \{ ==> for bs in it3: &self.byte_streams {
//@rw for size in bs_sizes \{ ==> for si in it4: 0..bs_sizes.len() { let size = bs_sizes[si];
//@rw for bs in &mut self\.byte_streams \{ ==> for bi in it5: 0..self.byte_streams.len() {
//@rw bs\.get_all_bytes\(\) ==> self.byte_streams[bi].get_all_bytes()
//@rw bs\.get_full_bytes\(\) ==> self.byte_streams[bi].get_full_bytes()
//@sig
        requires old(self).wf_w(),
        ensures
            r is Ok ==> final(self).same_meta(old(self)),
            r is Ok ==> final(self).wf_w(),
            // the first k = min(capacity, buffered) points are packed, in order; the rest stays buffered
            /*[C01]*/ r is Ok ==> final(self).buffer@ =~= old(self).buffer@.subrange(old(self).packed_now(), old(self).buffer@.len() as int),
            // their encodings go to the byte streams and (whole bytes) into exactly one well-formed data packet
            /*[C01,C02]*/ r is Ok ==> exists|chunks: Seq<Seq<u8>>| #[trigger] final(self).emitted(old(self), old(self).packed_now(), last_flush, chunks),
            /*[C16]*/ r is Ok ==> final(self).writer.no_new_fault(&*old(self).writer),
//@loop 0 head hdr=for _k in it: 0\.\.packet_points
            invariant
                self.same_meta(old(self)), self.writer == old(self).writer, self.section_header == old(self).section_header,
                old(self).wf_w(), proto_len == self.n(), packet_points <= old(self).buffer@.len(), packet_points <= old(self).max_points_per_packet,
                self.buffer@ =~= old(self).buffer@.subrange(it.index@ as int, old(self).buffer@.len() as int),
                self.byte_streams@.len() == self.n(),
                forall|i: int| 0 <= i < self.n() ==> (#[trigger] self.byte_streams@[i]).wf()
                    && self.byte_streams@[i].bits() =~= old(self).all_bits(i, it.index@ as int)
                    && self.byte_streams@[i].nbits() <= 8 + 64 * it.index@,
//@loop 0 body_start
            let ghost idx = it.index@ as int;
//@loop 1 before
            let ghost pre1 = *self;
            proof { assert(old(self).buffer@[idx] == p); }
//@loop 1 head
                invariant
                    it2.snapshot@.end == self.n(), proto_len == self.n(),
                    self.same_meta(old(self)), self.writer == old(self).writer, self.section_header == old(self).section_header,
                    old(self).wf_w(), self.buffer@ == pre1.buffer@, self.byte_streams@.len() == self.n(),
                    0 <= idx < old(self).buffer@.len(), idx < 0x10_0000, p == old(self).buffer@[idx],
                    forall|i2: int| 0 <= i2 < i ==> (#[trigger] self.byte_streams@[i2]).wf()
                        && self.byte_streams@[i2].bits() =~= old(self).all_bits(i2, idx + 1)
                        && self.byte_streams@[i2].nbits() <= 8 + 64 * (idx + 1),
                    forall|i2: int| i <= i2 < self.n() ==> (#[trigger] self.byte_streams@[i2]).wf()
                        && self.byte_streams@[i2].bits() =~= old(self).all_bits(i2, idx)
                        && self.byte_streams@[i2].nbits() <= 8 + 64 * idx,
//@loop 1 body_start
                    let ghost prei = *self;
                    proof {
                        assert(old(self).pts_fit(old(self).buffer@));
                        assert(old(self).buffer@[idx]@.len() == self.n());
                        match self.prototype@[i as int].data_type { RecordDataType::ScaledInteger { min, max, .. } => lemma_width(min, max), RecordDataType::Integer { min, max } => lemma_width(min, max), _ => {} }
                    }
//@loop 1 body_end
                    proof {
                        let dt = self.prototype@[i as int].data_type;
                        assert(old(self).all_bits(i as int, idx + 1) =~= old(self).all_bits(i as int, idx) + dt.enc(p@[i as int]));
                        assert forall|i2: int| 0 <= i2 < self.n() && i2 != i implies self.byte_streams@[i2] == prei.byte_streams@[i2] by {}
                    }
//@loop 2 before
        let ghost mid = *self;
        let ghost k = packet_points as int;
        let ghost w0 = *self.writer;
        let ghost mut chunks: Seq<Seq<u8>> = Seq::new(self.n() as nat, |i: int| Seq::<u8>::empty());
        let ghost mut body: Seq<u8> = Seq::empty();
        let ghost mut wmid = *self.writer;
        proof { lemma_appended_refl(*self.writer); lemma_cursor_bound(*self.writer); }
//@loop 2 head
            invariant
                *self == mid, self.n() == mid.n(), mid.n() < 0x8000, mid.byte_streams@.len() == mid.n(), 0 <= k <= 0x10_0000,
                forall|i: int| 0 <= i < mid.n() ==> (#[trigger] mid.byte_streams@[i]).wf() && mid.byte_streams@[i].nbits() <= 8 + 64 * k,
                sum_bs_sizes == sum_chunk(mid.byte_streams@, last_flush, it3.index@ as int), sum_bs_sizes <= it3.index@ * 0x1000_0000,
                bs_sizes@.len() == it3.index@,
                forall|t: int| 0 <= t < it3.index@ ==> #[trigger] bs_sizes@[t] == (mid.byte_streams@[t].chunk_len(last_flush) as u16),
//@stmt 0 before if packet_length % 4 != 0
            let ghost plen0 = packet_length as int;
//@stmt 0 before self\.section_header\.section_length \+= packet_length as u64
            proof {
                lemma_up4(plen0);
                lemma_cursor_bound(*self.writer);
                assert(packet_length == up4(6 + 2 * mid.n() + sum_chunk(mid.byte_streams@, last_flush, mid.n())));
            }
//@call write 1 after
            let ghost w1 = *self.writer;
            let ghost szs = bs_sizes@;
            let ghost sh1 = self.section_header;
            proof { lemma_appended_refl(*self.writer); lemma_cursor_bound(*self.writer); }
//@loop 3 head
                invariant
                    self.byte_streams == mid.byte_streams, self.buffer == mid.buffer, self.same_meta(&mid), self.section_header == sh1, self.n() == mid.n(),
                    szs.len() == mid.n(), bs_sizes@ == szs, it4.snapshot@.end == szs.len(), self.writer.wf(), self.writer.no_new_fault(&w0), w1.cursor() >= 0,
                    appended(w1, *self.writer, sizes16(szs, si as int)),
//@loop 3 body_start
                let ghost wb = *self.writer;
//@loop 3 body_end
                proof {
                    lemma_appended_trans(w1, wb, *self.writer, sizes16(szs, si as int), le_bytes16(size));
                }
//@loop 4 before
            let ghost w2 = *self.writer;
            let ghost mut built: Seq<Seq<u8>> = Seq::empty();
            proof { lemma_appended_refl(*self.writer); }
//@loop 4 head
                invariant
                    it5.snapshot@.end == mid.n(), self.byte_streams@.len() == mid.n(), mid.byte_streams@.len() == mid.n(), self.buffer == mid.buffer, self.same_meta(&mid),
                    self.section_header == sh1, self.n() == mid.n(), self.writer.wf(), self.writer.no_new_fault(&w0), w2.cursor() >= 0,
                    built.len() == bi,
                    appended(w2, *self.writer, concat_chunks(built, bi as int)),
                    forall|i: int| 0 <= i < mid.n() ==> (#[trigger] mid.byte_streams@[i]).wf(),
                    forall|i: int| bi <= i < mid.n() ==> self.byte_streams@[i] == mid.byte_streams@[i],
                    forall|i: int| 0 <= i < bi ==> (#[trigger] built[i]).len() == mid.byte_streams@[i].chunk_len(last_flush) && self.byte_streams@[i].wf()
                        && (if last_flush { built[i].len() == (mid.byte_streams@[i].nbits() + 7) / 8 && bits_of(built[i]).subrange(0, mid.byte_streams@[i].nbits()) =~= mid.byte_streams@[i].bits()
                                && (forall|b: int| mid.byte_streams@[i].nbits() <= b < 8 * built[i].len() ==> !bit_at(built[i], b)) && self.byte_streams@[i].bits().len() == 0 && self.byte_streams@[i].nbits() == 0 }
                            else { bits_of(built[i]) + self.byte_streams@[i].bits() =~= mid.byte_streams@[i].bits() && self.byte_streams@[i].nbits() < 8 }),
//@loop 4 body_start
                let ghost wb = *self.writer;
                let ghost pre_bs = self.byte_streams@;
                proof { assert(bi < mid.n()); assert(self.byte_streams@[bi as int] == mid.byte_streams@[bi as int]); assert(mid.byte_streams@[bi as int].wf()); assert(self.byte_streams@[bi as int].wf()); }
//@loop 4 body_end
                proof {
                    let old_built = built;
                    lemma_appended_trans(w2, wb, *self.writer, concat_chunks(built, bi as int), data@);
                    built = built.push(data@);
                    lemma_concat_ext(built, old_built, bi as int);
                    assert(concat_chunks(built, bi as int + 1) == concat_chunks(old_built, bi as int) + data@);
                    assert forall|i: int| 0 <= i < bi implies built[i] == old_built[i] by {}
                }
//@loop 4 after
            proof {
                chunks = built;
                let n = mid.n();
                let hdr = spec_data_packet_header(false, packet_length as u64, proto_len as u16);
                lemma_total_nonneg(chunks, n);
                lemma_sum_chunk_total(mid.byte_streams@, last_flush, chunks, n);
                assert forall|t: int| 0 <= t < n implies szs[t] as int == (#[trigger] chunks[t]).len() by { lemma_total_ge_each(chunks, n, t); }
                lemma_sizes16_is_sizes_le(szs, chunks, n);
                lemma_appended_trans(w0, w1, w2, hdr, sizes_le(chunks, n));
                lemma_appended_trans(w0, w2, *self.writer, hdr + sizes_le(chunks, n), concat_chunks(chunks, n));
                body = hdr + sizes_le(chunks, n) + concat_chunks(chunks, n);
                wmid = *self.writer;
            }
//@tail
        proof {
            let n = mid.n();
            let tot = total_len(chunks, n);
            lemma_total_nonneg(chunks, n);
            let pad = Seq::new((self.writer.cursor() - wmid.cursor()) as nat, |i: int| 0u8);
            lemma_appended_trans(w0, wmid, *self.writer, body, pad);
            if sum_bs_sizes > 0 {
                lemma_up4(6 + 2 * n + tot);
                assert(pad =~= zeros(up4(6 + 2 * n + tot) - 6 - 2 * n - tot));
                assert(body + pad =~= spec_data_packet(chunks));
            } else {
                lemma_sum_chunk_zero(mid.byte_streams@, last_flush, n);
                lemma_sum_chunk_total(mid.byte_streams@, last_flush, chunks, n);
                assert(pad =~= Seq::<u8>::empty());
                assert(body + pad =~= Seq::<u8>::empty());
            }
            assert(chunks.len() == n);
            assert(old(self).n() == n);
            assert forall|i: int| 0 <= i < n implies (#[trigger] self.byte_streams@[i]).wf() && self.byte_streams@[i].nbits() < 8 by {
                if sum_bs_sizes == 0 { assert(self.byte_streams@[i] == mid.byte_streams@[i]); assert(mid.byte_streams@[i].chunk_len(last_flush) == 0); }
                else { let c = chunks[i]; assert(c.len() == mid.byte_streams@[i].chunk_len(last_flush)); }
            }
            assert forall|i: int| 0 <= i < n implies ({
                let all = old(self).all_bits(i, k);
                if last_flush { (#[trigger] chunks[i]).len() == (all.len() + 7) / 8 && bits_of(chunks[i]).subrange(0, all.len() as int) =~= all
                            && (forall|b: int| all.len() <= b < 8 * chunks[i].len() ==> !bit_at(chunks[i], b)) && self.byte_streams@[i].bits().len() == 0 }
                else { bits_of(#[trigger] chunks[i]) + self.byte_streams@[i].bits() =~= all && self.byte_streams@[i].nbits() < 8 } }) by { }
            assert(tot > 0 ==> appended(*old(self).writer, *self.writer, spec_data_packet(chunks)));
            assert(tot > 0 ==> self.section_header.section_length as int == old(self).section_header.section_length + spec_data_packet(chunks).len());
            assert(tot > 0 ==> spec_data_packet(chunks).len() == up4(6 + 2 * n + tot) && spec_data_packet(chunks).len() <= 65535);
            assert(tot == 0 ==> appended(*old(self).writer, *self.writer, Seq::<u8>::empty()) && self.section_header.section_length == old(self).section_header.section_length);
            assert(self.emitted(old(self), k, last_flush, chunks));
            assert(self.same_meta(old(self)));
            assert(self.pts_fit(self.buffer@)) by {
                assert forall|j: int| 0 <= j < self.buffer@.len() implies (#[trigger] self.buffer@[j])@.len() == self.n()
                    && forall|i: int| 0 <= i < self.n() ==> (#[trigger] self.prototype@[i]).data_type.fits(self.buffer@[j]@[i]) by {
                    assert(self.buffer@[j] == old(self).buffer@[j + k]);
                }
            }
            assert(self.wf_w());
            assert(self.writer.no_new_fault(&w0));
            assert(self.buffer@ =~= old(self).buffer@.subrange(k, old(self).buffer@.len() as int));
            assert(k == old(self).packed_now());
        }
//@endfn

//@fn src/pc_writer.rs PointCloudWriter add_point serves=C10,C14,C01 ret=r
//@rw for \(i, p\) in self\.prototype\.iter\(\)\.enumerate\(\) \{ ==> for i in 0..self.prototype.len() { let p = &self.prototype[i]; ;n=2
//@sig
        requires old(self).point_count < u64::MAX, old(self).bounds_present(),
        ensures
            final(self).prototype == old(self).prototype, final(self).bounds_present(),
            /*[C10]*/ r is Ok ==> values@.len() == old(self).n() && forall|i: int| 0 <= i < old(self).n() ==> (#[trigger] old(self).prototype@[i]).data_type.fits(values@[i]),
            /*[C14]*/ r is Ok ==> final(self).cartesian_bounds == opt_cart(old(self).cartesian_bounds, old(self).prototype@, values@, old(self).n()),
            /*[C14]*/ r is Ok ==> final(self).spherical_bounds == opt_sph(old(self).spherical_bounds, old(self).prototype@, values@, old(self).n()),
            /*[C14]*/ r is Ok ==> final(self).index_bounds == opt_idx(old(self).index_bounds, old(self).prototype@, values@, old(self).n()),
            /*[C01]*/ r is Ok ==> final(self).point_count == old(self).point_count + 1,
            // a rejected point (not counted) leaves the bounds untouched: bounds are the min/max over the points ADDED
            /*[C14]*/ (r is Err && final(self).point_count == old(self).point_count) ==> final(self).cartesian_bounds == old(self).cartesian_bounds && final(self).spherical_bounds == old(self).spherical_bounds && final(self).index_bounds == old(self).index_bounds,
            /*[C10]*/ (r is Err && final(self).point_count == old(self).point_count) ==> final(self).buffer@ == old(self).buffer@,
//@loop 0 head
            invariant
                *self == *old(self), old(self).bounds_present(),
                values@.len() == self.prototype@.len(),
                /*[C10]*/ forall|j: int| 0 <= j < i ==> (#[trigger] self.prototype@[j]).data_type.fits(values@[j]),
//@loop 1 head
            invariant
                self.prototype == old(self).prototype, self.point_count == old(self).point_count, self.buffer == old(self).buffer,
                old(self).bounds_present(),
                values@.len() == self.prototype@.len(),
                forall|j: int| 0 <= j < self.prototype@.len() ==> (#[trigger] self.prototype@[j]).data_type.fits(values@[j]),
                /*[C14]*/ self.cartesian_bounds == opt_cart(old(self).cartesian_bounds, self.prototype@, values@, i as int),
                /*[C14]*/ self.spherical_bounds == opt_sph(old(self).spherical_bounds, self.prototype@, values@, i as int),
                /*[C14]*/ self.index_bounds == opt_idx(old(self).index_bounds, self.prototype@, values@, i as int),
//@endfn
}
