// ---- writer side above the page layer: PointCloudWriter (pc_writer.rs) -------------------------
/// strings are modelled by an identity tag: structural equality of the model = string equality
#[derive(Clone)]
struct OpaqueStr { tag: u64 }
#[derive(Clone)]
struct Opaque { tag: u64 }

//@item src/record.rs enum RecordName
//@rw : String, ==> : OpaqueStr,
//@enditem
impl PartialEq for RecordName {
    /// assumed: derive(PartialEq) is structural equality
    #[verifier::external_body]
    fn eq(&self, o: &Self) -> (r: bool) ensures r == (*self == *o) { unimplemented!() }
}
//@item src/record.rs struct Record
//@enditem
type RawValues = Vec<RecordValue>;

//@item src/bounds.rs struct CartesianBounds
//@enditem
//@item src/bounds.rs struct SphericalBounds
//@enditem
//@item src/bounds.rs struct IndexBounds
//@enditem
//@item src/limits.rs struct IntensityLimits
//@enditem
//@item src/limits.rs struct ColorLimits
//@enditem
//@item src/cv_section.rs struct CompressedVectorSectionHeader
//@enditem
//@item src/packet.rs struct DataPacketHeader
//@enditem
//@item src/pointcloud.rs struct PointCloud
//@rw : (Option<)?(String|Transform|DateTime|Vec<String>)>?, ==> : Opaque,
//@enditem
//@item src/pc_writer.rs struct PointCloudWriter
//@rw <'a, T: Read \+ Write \+ Seek> ==> <'a>
//@rw PagedWriter<T> ==> PagedWriter
//@rw : (Option<)?(String|Transform|DateTime|Vec<String>)>?, ==> : Opaque,
//@enditem

// ---- contract-only leaves (proved on the real functions by the Kani unit wr_k) --------------------
uninterp spec fn val_gt<T>(a: T, b: T) -> bool;
uninterp spec fn val_lt<T>(a: T, b: T) -> bool;
/// running minimum / maximum step (C14)
spec fn upd_min<T>(m: Option<T>, v: T) -> Option<T> { match m { None => Some(v), Some(c) => if val_gt(c, v) { Some(v) } else { Some(c) } } }
spec fn upd_max<T>(m: Option<T>, v: T) -> Option<T> { match m { None => Some(v), Some(c) => if val_lt(c, v) { Some(v) } else { Some(c) } } }

#[verifier::external_body]
fn update_min<T>(value: T, min: &mut Option<T>)
    ensures *final(min) == upd_min(*old(min), value)
{ unimplemented!() }
#[verifier::external_body]
fn update_max<T>(value: T, min: &mut Option<T>)
    ensures *final(min) == upd_max(*old(min), value)
{ unimplemented!() }

// ---- C14 specification: bounds are the fold of min/max over the records of every point added ----
spec fn cart_step(b: CartesianBounds, name: RecordName, v: f64) -> CartesianBounds {
    CartesianBounds {
        x_min: if name == RecordName::CartesianX { upd_min(b.x_min, v) } else { b.x_min },
        x_max: if name == RecordName::CartesianX { upd_max(b.x_max, v) } else { b.x_max },
        y_min: if name == RecordName::CartesianY { upd_min(b.y_min, v) } else { b.y_min },
        y_max: if name == RecordName::CartesianY { upd_max(b.y_max, v) } else { b.y_max },
        z_min: if name == RecordName::CartesianZ { upd_min(b.z_min, v) } else { b.z_min },
        z_max: if name == RecordName::CartesianZ { upd_max(b.z_max, v) } else { b.z_max },
    }
}
spec fn sph_step(b: SphericalBounds, name: RecordName, v: f64) -> SphericalBounds {
    SphericalBounds {
        range_min: if name == RecordName::SphericalRange { upd_min(b.range_min, v) } else { b.range_min },
        range_max: if name == RecordName::SphericalRange { upd_max(b.range_max, v) } else { b.range_max },
        elevation_min: if name == RecordName::SphericalElevation { upd_min(b.elevation_min, v) } else { b.elevation_min },
        elevation_max: if name == RecordName::SphericalElevation { upd_max(b.elevation_max, v) } else { b.elevation_max },
        azimuth_start: if name == RecordName::SphericalAzimuth { upd_min(b.azimuth_start, v) } else { b.azimuth_start },
        azimuth_end: if name == RecordName::SphericalAzimuth { upd_max(b.azimuth_end, v) } else { b.azimuth_end },
    }
}
spec fn idx_step(b: IndexBounds, name: RecordName, v: i64) -> IndexBounds {
    IndexBounds {
        row_min: if name == RecordName::RowIndex { upd_min(b.row_min, v) } else { b.row_min },
        row_max: if name == RecordName::RowIndex { upd_max(b.row_max, v) } else { b.row_max },
        column_min: if name == RecordName::ColumnIndex { upd_min(b.column_min, v) } else { b.column_min },
        column_max: if name == RecordName::ColumnIndex { upd_max(b.column_max, v) } else { b.column_max },
        return_min: if name == RecordName::ReturnIndex { upd_min(b.return_min, v) } else { b.return_min },
        return_max: if name == RecordName::ReturnIndex { upd_max(b.return_max, v) } else { b.return_max },
    }
}
spec fn cart_fold(b: CartesianBounds, proto: Seq<Record>, vals: Seq<RecordValue>, k: int) -> CartesianBounds
    decreases k
{ if k <= 0 { b } else { cart_step(cart_fold(b, proto, vals, k - 1), proto[k - 1].name, real_f64(vals[k - 1], proto[k - 1].data_type)) } }
spec fn sph_fold(b: SphericalBounds, proto: Seq<Record>, vals: Seq<RecordValue>, k: int) -> SphericalBounds
    decreases k
{ if k <= 0 { b } else { sph_step(sph_fold(b, proto, vals, k - 1), proto[k - 1].name, real_f64(vals[k - 1], proto[k - 1].data_type)) } }
spec fn idx_fold(b: IndexBounds, proto: Seq<Record>, vals: Seq<RecordValue>, k: int) -> IndexBounds
    decreases k
{ if k <= 0 { b } else { idx_step(idx_fold(b, proto, vals, k - 1), proto[k - 1].name, int_of(vals[k - 1])) } }
spec fn opt_cart(o: Option<CartesianBounds>, proto: Seq<Record>, vals: Seq<RecordValue>, k: int) -> Option<CartesianBounds> {
    match o { Some(b) => Some(cart_fold(b, proto, vals, k)), None => None } }
spec fn opt_sph(o: Option<SphericalBounds>, proto: Seq<Record>, vals: Seq<RecordValue>, k: int) -> Option<SphericalBounds> {
    match o { Some(b) => Some(sph_fold(b, proto, vals, k)), None => None } }
spec fn opt_idx(o: Option<IndexBounds>, proto: Seq<Record>, vals: Seq<RecordValue>, k: int) -> Option<IndexBounds> {
    match o { Some(b) => Some(idx_fold(b, proto, vals, k)), None => None } }

impl<'a> PointCloudWriter<'a> {
    spec fn n(&self) -> int { self.prototype@.len() as int }
    /// established by PointCloudWriter::new: a bounds struct exists for every attribute group of the prototype
    spec fn bounds_present(&self) -> bool {
        forall|i: int| 0 <= i < self.n() ==> {
            let nm = (#[trigger] self.prototype@[i]).name;
            &&& ((nm == RecordName::CartesianX || nm == RecordName::CartesianY || nm == RecordName::CartesianZ) ==> self.cartesian_bounds is Some)
            &&& ((nm == RecordName::SphericalAzimuth || nm == RecordName::SphericalElevation || nm == RecordName::SphericalRange) ==> self.spherical_bounds is Some)
            &&& ((nm == RecordName::RowIndex || nm == RecordName::ColumnIndex || nm == RecordName::ReturnIndex) ==> self.index_bounds is Some
                    // validate_prototype: row / column / return index are integers
                    && self.prototype@[i].data_type is Integer)
        }
    }

    #[verifier::external_body]
    fn write_buffer_to_disk(&mut self, last_flush: bool) -> (r: Result<()>)
        ensures final(self).prototype == old(self).prototype, final(self).point_count == old(self).point_count,
            final(self).cartesian_bounds == old(self).cartesian_bounds, final(self).spherical_bounds == old(self).spherical_bounds,
            final(self).index_bounds == old(self).index_bounds,
    { unimplemented!() }

//@fn src/pc_writer.rs PointCloudWriter add_point serves=C10,C14,C01 ret=r
//@rw for \(i, p\) in self\.prototype\.iter\(\)\.enumerate\(\) \{ ==> for i in 0..self.prototype.len() { let p = &self.prototype[i]; ;n=2
//@sig
        requires old(self).point_count < u64::MAX, old(self).bounds_present(),
        ensures
            final(self).prototype == old(self).prototype, final(self).bounds_present(),
            /*[C10]*/ r is Ok ==> values@.len() == old(self).n() && forall|i: int| 0 <= i < old(self).n() ==> (#[trigger] old(self).prototype@[i]).data_type.fits(values@[i]),
            /*[C14]*/ r is Ok ==> final(self).cartesian_bounds == opt_cart(old(self).cartesian_bounds, old(self).prototype@, values@, old(self).n()),
            /*[C14]*/ r is Ok ==> final(self).spherical_bounds == opt_sph(old(self).spherical_bounds, old(self).prototype@, values@, old(self).n()),
            /*[C14]*/ r is Ok ==> final(self).index_bounds == opt_idx(old(self).index_bounds, old(self).prototype@, values@, old(self).n()),
            /*[C01]*/ r is Ok ==> final(self).point_count == old(self).point_count + 1,
            // a rejected point (not counted) leaves the bounds untouched: bounds are the min/max over the points ADDED
            /*[C14]*/ (r is Err && final(self).point_count == old(self).point_count) ==> final(self).cartesian_bounds == old(self).cartesian_bounds && final(self).spherical_bounds == old(self).spherical_bounds && final(self).index_bounds == old(self).index_bounds,
            /*[C10]*/ (r is Err && final(self).point_count == old(self).point_count) ==> final(self).buffer@ == old(self).buffer@,
//@loop 0 head
            invariant
                *self == *old(self), old(self).bounds_present(),
                values@.len() == self.prototype@.len(),
                /*[C10]*/ forall|j: int| 0 <= j < i ==> (#[trigger] self.prototype@[j]).data_type.fits(values@[j]),
//@loop 1 head
            invariant
                self.prototype == old(self).prototype, self.point_count == old(self).point_count, self.buffer == old(self).buffer,
                old(self).bounds_present(),
                values@.len() == self.prototype@.len(),
                forall|j: int| 0 <= j < self.prototype@.len() ==> (#[trigger] self.prototype@[j]).data_type.fits(values@[j]),
                /*[C14]*/ self.cartesian_bounds == opt_cart(old(self).cartesian_bounds, self.prototype@, values@, i as int),
                /*[C14]*/ self.spherical_bounds == opt_sph(old(self).spherical_bounds, self.prototype@, values@, i as int),
                /*[C14]*/ self.index_bounds == opt_idx(old(self).index_bounds, self.prototype@, values@, i as int),
//@endfn
}
