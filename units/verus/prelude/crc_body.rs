/// the name the page-layer units use for the checksum function (there: uninterpreted; here: its definition)
spec fn crc32c(s: Seq<u8>) -> u32 { crc32c_def(s) }

proof fn lemma_bits8(v: u32)
    ensures crc_bits(v, 8) == crc_bit(crc_bit(crc_bit(crc_bit(crc_bit(crc_bit(crc_bit(crc_bit(v))))))))
{
    reveal_with_fuel(crc_bits, 9);
}
/// the code divides with `% 2` and `/ 2`, the definition with `& 1` and `>> 1`
proof fn lemma_halve(v: u32)
    ensures (v % 2 == 0) == (v & 1 == 0), v / 2 == v >> 1
{
    assert((v % 2 == 0) == (v & 1 == 0)) by (bit_vector);
    assert(v / 2 == v >> 1) by (bit_vector);
}
/// the table method: one byte at a time = eight bit steps (linearity of the division over GF(2)), for ALL (u32, u8)
proof fn lemma_table_step(sum: u32, b: u8)
    ensures crc_bits(sum ^ (b as u32), 8) == crc_bits(((sum ^ (b as u32)) as u8) as u32, 8) ^ (sum >> 8),
        0 <= ((sum ^ (b as u32)) as u8) as int, (((sum ^ (b as u32)) as u8) as int) < 256,
{
    let x = sum ^ (b as u32);
    let y = (x as u8) as u32;
    lemma_bits8(x); lemma_bits8(y);
    assert(crc_bit(crc_bit(crc_bit(crc_bit(crc_bit(crc_bit(crc_bit(crc_bit(x))))))))
        == crc_bit(crc_bit(crc_bit(crc_bit(crc_bit(crc_bit(crc_bit(crc_bit((x as u8) as u32)))))))) ^ (x >> 8)) by (bit_vector);
    assert(x >> 8 == sum >> 8) by (bit_vector) requires x == sum ^ (b as u32);
}
/// the definition above is the standard one: CRC-32C("123456789") = 0xE3069283 (RFC 3720 B.4 / the catalogue's check value),
/// and the 32 zero bytes vector of RFC 3720 B.4 = 0x8A9136AA
//@lemma lemma_crc_check_value serves=C07
proof fn lemma_crc_check_value()
    ensures crc32c_def(seq![0x31u8, 0x32u8, 0x33u8, 0x34u8, 0x35u8, 0x36u8, 0x37u8, 0x38u8, 0x39u8]) == 0xE306_9283u32,
{
    assert(crc32c_def(seq![0x31u8, 0x32u8, 0x33u8, 0x34u8, 0x35u8, 0x36u8, 0x37u8, 0x38u8, 0x39u8]) == 0xE306_9283u32) by (compute_only);
}
//@endlemma

//@item src/crc32.rs struct Crc32
//@enditem
impl Crc32 {
    /// table entry j = eight bit steps from j
    spec fn wf(&self) -> bool { forall|j: int| 0 <= j < 256 ==> #[trigger] self.table@[j] == crc_bits(j as u32, 8) }

//@fn src/crc32.rs Crc32 new serves=C07,C02,C11 ret=r
//@rw for i in 0\.\.256 ==> for i in it: 0..256
//@rw for _ in 0\.\.8 ==> for _k in it2: 0..8
//@sig
        ensures r.wf(),
//@loop 0 head
            invariant forall|j: int| 0 <= j < i ==> #[trigger] table@[j] == crc_bits(j as u32, 8),
//@loop 1 head
                invariant val == crc_bits(i as u32, _k as nat), i < 256,
//@loop 1 body_start
                proof { lemma_halve(val); }
//@endfn

// `X.iter().fold(init, |acc, &x| { BODY })` is spelled out as the loop that defines Iterator::fold:
// `{ let mut acc = init; for x_ref in X.iter() { let x = *x_ref; acc = { BODY }; } acc }` (the closure body BODY is kept verbatim)
//@fn src/crc32.rs Crc32 calculate serves=C07,C02,C11 ret=r
//@rw !(\w+)\.iter\(\)\.fold\(!0, \|(\w+), &(\w+)\| \{(.*)\}\) ==> { let mut \2: u32 = !0; for fold_ref in it: \1.iter() { let \3 = *fold_ref; \2 = {\4}; } !\2 }
//@sig
        requires old(self).wf(),
        /*[C07]*/ ensures r == crc32c(data@), final(self).wf(),
//@loop 0 before
        proof { assert(!0u32 == 0xFFFF_FFFFu32) by (bit_vector); assert(data@.take(0).len() == 0); }
//@loop 0 head
            invariant sum == crc_state(data@.take(it.index@ as int)), self.wf(),
//@loop 0 body_start
            proof {
                let k = it.index@ as int;
                assert(data@.take(k + 1).drop_last() =~= data@.take(k));
                assert(data@.take(k + 1).last() == *fold_ref);
                lemma_table_step(sum, *fold_ref);
            }
//@loop 0 after
        proof { assert(data@.take(data@.len() as int) =~= data@); }
//@endfn
}
