
// ---- shims: std calls Verus has no specification for (assumed std semantics) ----
#[verifier::external_body]
fn vec_drain_prefix(v: &mut Vec<u8>, n: usize) -> (r: Vec<u8>)
    requires n <= old(v)@.len()
    ensures r@ == old(v)@.subrange(0, n as int), final(v)@ == old(v)@.subrange(n as int, old(v)@.len() as int)
{ v.drain(..n).collect() }
#[verifier::external_body]
fn vec_drain_all(v: &mut Vec<u8>) -> (r: Vec<u8>)
    ensures r@ == old(v)@, final(v)@.len() == 0
{ v.drain(..).collect() }
#[verifier::external_body]
fn shim_i128_ilog2(x: i128) -> (r: u32)
    requires x > 0
    ensures r as int == lg2(x as int)
{ x.ilog2() }
#[verifier::external_body]
fn shim_size_of_f32() -> (r: usize) ensures r == 4 { std::mem::size_of::<f32>() }
#[verifier::external_body]
fn shim_size_of_f64() -> (r: usize) ensures r == 8 { std::mem::size_of::<f64>() }

// =================================================================================================
// bs_write.rs
// =================================================================================================
//@item src/bs_write.rs struct ByteStreamWriteBuffer
//@enditem

impl ByteStreamWriteBuffer {
    pub open spec fn nbits(&self) -> int {
        if self.last_byte_bit == 0 { 8 * (self.buffer@.len() as int) } else { 8 * (self.buffer@.len() - 1) + self.last_byte_bit }
    }
    /// representation invariant: phase < 8, a partial byte exists iff phase != 0,
    /// every bit of the last byte above the fill level is 0 (the bit loop ORs into it)
    pub open spec fn wf(&self) -> bool {
        &&& self.last_byte_bit < 8
        &&& (self.last_byte_bit != 0 ==> self.buffer@.len() > 0)
        &&& forall|i: int| self.nbits() <= i < 8 * self.buffer@.len() ==> !bit_at(self.buffer@, i)
    }
    /// abstract view: the bit string written so far and not yet taken out
    pub open spec fn bits(&self) -> Seq<bool> {
        Seq::new(self.nbits() as nat, |i: int| bit_at(self.buffer@, i))
    }

//@fn src/bs_write.rs ByteStreamWriteBuffer new serves=C12,C01 ret=r
//@sig
        ensures r.wf(), r.bits() =~= Seq::<bool>::empty()
//@endfn

    proof fn lemma_aligned(o: Self, n: Self, data: Seq<u8>, bits: usize)
        requires
            o.wf(), o.last_byte_bit == 0, bits <= 8 * data.len(),
            forall|i: int| bits <= i < 8 * ((bits + 7) / 8) ==> !bit_at(data, i),
            n.buffer@ =~= o.buffer@ + data.subrange(0, ((bits + 7) / 8) as int),
            n.last_byte_bit == bits % 8,
        ensures
            n.wf(),
            n.bits() =~= o.bits() + Seq::new(bits as nat, |i: int| bit_at(data, i)),
    {
        let ob = o.buffer@;
        let nb = n.buffer@;
        assert(n.nbits() == 8 * ob.len() + bits);
        assert forall|i: int| 0 <= i < 8 * nb.len() implies
            #[trigger] bit_at(nb, i) == (if i < 8 * ob.len() { bit_at(ob, i) } else { bit_at(data, i - 8 * ob.len()) }) by {
            if i < 8 * ob.len() { assert(nb[i / 8] == ob[i / 8]); } else {
                assert(nb[i / 8] == data[i / 8 - ob.len()]);
                assert((i - 8 * ob.len()) / 8 == i / 8 - ob.len());
                assert((i - 8 * ob.len()) % 8 == i % 8);
            }
        }
    }

    proof fn lemma_unaligned(o: Self, n: Self, data: Seq<u8>, bits: usize)
        requires
            o.wf(), o.last_byte_bit != 0,
            n.last_byte_bit == (o.last_byte_bit + bits) % 8,
            n.buffer@.len() == (o.nbits() + bits + 7) / 8,
            forall|i: int| o.nbits() + bits <= i < 8 * n.buffer@.len() ==> !bit_at(n.buffer@, i),
            forall|i: int| 0 <= i < o.nbits() ==> bit_at(n.buffer@, i) == bit_at(o.buffer@, i),
            forall|i: int| 0 <= i < bits ==> bit_at(n.buffer@, o.nbits() + i) == bit_at(data, i),
        ensures
            n.wf(),
            n.bits() =~= o.bits() + Seq::new(bits as nat, |i: int| bit_at(data, i)),
    {
        assert(n.nbits() == o.nbits() + bits);
    }

//@fn src/bs_write.rs ByteStreamWriteBuffer add_bits serves=C12,C01,C10
//@sig
        requires
            old(self).wf(),
            bits <= 8 * data@.len(), bits + 16 < usize::MAX,
            old(self).buffer@.len() + data@.len() + 16 < usize::MAX,
            // the bits of the copied source bytes above `bits` are clear
            forall|i: int| bits <= i < 8 * ((bits + 7) / 8) ==> !bit_at(data@, i),
        ensures
            final(self).wf(),
            // exact width, LSB first, contiguous with what was there
            final(self).bits() =~= old(self).bits() + Seq::new(bits as nat, |i: int| bit_at(data@, i)),
//@loop 0 before hdr=for b in 0\.\.bits
            let ghost p0: int = 8 * start_byte + start_bit;
//@loop 0 head
                invariant
                    1 <= start_bit < 8,
                    bits <= 8 * data@.len(), bits + 16 < usize::MAX,
                    p0 == 8 * start_byte + start_bit,
                    start_byte + data@.len() + 16 < usize::MAX,
                    start_byte == old(self).buffer@.len() - 1, start_bit == old(self).last_byte_bit,
                    self.last_byte_bit == (start_bit + b) % 8,
                    self.buffer@.len() == (p0 + b + 7) / 8,
                    forall|i: int| p0 + b <= i < 8 * self.buffer@.len() ==> !bit_at(self.buffer@, i),
                    forall|i: int| 0 <= i < p0 ==> bit_at(self.buffer@, i) == bit_at(old(self).buffer@, i),
                    forall|i: int| 0 <= i < b ==> bit_at(self.buffer@, p0 + i) == bit_at(data@, i),
//@loop 0 body_start
                let ghost pre = self.buffer@;
//@loop 0 body_end
                proof {
                    lemma_mask_bit(data@[source_byte as int], (b % 8) as usize);
                    lemma_bit_step(pre, self.buffer@, p0 + b, source_bit);
                }
//@fn_end
        proof {
            if old(self).last_byte_bit == 0 { Self::lemma_aligned(*old(self), *self, data@, bits); }
            else { Self::lemma_unaligned(*old(self), *self, data@, bits); }
        }
//@endfn

//@fn src/bs_write.rs ByteStreamWriteBuffer add_bytes serves=C12,C01
//@sig
        requires old(self).wf(), old(self).buffer@.len() + data@.len() + 16 < usize::MAX, 8 * data@.len() + 16 < usize::MAX,
        ensures final(self).wf(), final(self).bits() =~= old(self).bits() + bits_of(data@),
//@fn_end
        proof {
            if old(self).last_byte_bit == 0 { Self::lemma_aligned(*old(self), *self, data@, (8 * data@.len()) as usize);
                assert(data@.subrange(0, data@.len() as int) =~= data@); }
        }
//@endfn

//@fn src/bs_write.rs ByteStreamWriteBuffer get_full_bytes serves=C12,C01 ret=r
//@rw self\.buffer\.drain\(\.\.to_take\)\.collect\(\) ==> { let out = vec_drain_prefix(&mut self.buffer, to_take); proof { Self::lemma_take(*old(self), *self, out@); } out }
//@sig
        requires old(self).wf()
        ensures final(self).wf(),
            r@.len() == old(self).nbits() / 8,
            // the emitted bytes are exactly the first 8*|r| bits, the partial byte stays behind
            bits_of(r@) + final(self).bits() =~= old(self).bits(),
            final(self).last_byte_bit == old(self).last_byte_bit,
//@endfn

//@fn src/bs_write.rs ByteStreamWriteBuffer get_all_bytes serves=C12,C01 ret=r
//@rw self\.buffer\.drain\(\.\.\)\.collect\(\) ==> vec_drain_all(&mut self.buffer)
//@sig
        requires old(self).wf()
        ensures final(self).wf(), final(self).bits() =~= Seq::<bool>::empty(),
            r@.len() == (old(self).nbits() + 7) / 8,
            // everything is emitted, zero-padded to a whole byte
            bits_of(r@).subrange(0, old(self).nbits()) =~= old(self).bits(),
            forall|i: int| old(self).nbits() <= i < 8 * r@.len() ==> !bit_at(r@, i),
//@endfn

    proof fn lemma_take(o: Self, n: Self, r: Seq<u8>)
        requires o.wf(), r =~= o.buffer@.subrange(0, o.nbits() / 8),
            n.buffer@ =~= o.buffer@.subrange(o.nbits() / 8, o.buffer@.len() as int), n.last_byte_bit == o.last_byte_bit,
        ensures n.wf(), bits_of(r) + n.bits() =~= o.bits()
    {
        let t = o.nbits() / 8;
        assert(n.nbits() == o.nbits() - 8 * t);
        assert forall|i: int| 0 <= i < 8 * n.buffer@.len() implies #[trigger] bit_at(n.buffer@, i) == bit_at(o.buffer@, i + 8 * t) by {
            assert(n.buffer@[i / 8] == o.buffer@[i / 8 + t]);
            assert((i + 8 * t) / 8 == i / 8 + t);
            assert((i + 8 * t) % 8 == i % 8);
        }
        assert forall|i: int| 0 <= i < 8 * r.len() implies #[trigger] bit_at(r, i) == bit_at(o.buffer@, i) by {
            assert(r[i / 8] == o.buffer@[i / 8]);
        }
        let lhs = bits_of(r) + n.bits();
        assert(lhs.len() == o.bits().len());
        assert forall|i: int| 0 <= i < lhs.len() implies lhs[i] == o.bits()[i] by {
            if i < 8 * r.len() { } else { assert(lhs[i] == n.bits()[i - 8 * t]); }
        }
    }

//@fn src/bs_write.rs ByteStreamWriteBuffer full_bytes serves=C12,C01 ret=r
//@sig
        requires self.wf()
        ensures r as int == self.nbits() / 8
//@endfn

//@fn src/bs_write.rs ByteStreamWriteBuffer all_bytes serves=C12,C01 ret=r
//@sig
        ensures r == self.buffer@.len()
//@endfn

    // canary: a deliberately false postcondition on a real function must fail (vacuity guard)
//@fn src/bs_write.rs ByteStreamWriteBuffer full_bytes rename=full_bytes__canary canary ret=r
//@sig
        requires self.wf()
        ensures r as int == self.nbits() / 8 + 1
//@endfn
}

// =================================================================================================
// record.rs — packing functions
// =================================================================================================
#[allow(inconsistent_fields)]
//@item src/record.rs enum RecordDataType
//@enditem
//@item src/record.rs enum RecordValue
//@enditem

//@fn src/record.rs - integer_bits serves=C12,C10,C08 ret=r
//@rw range\.ilog2\(\) ==> shim_i128_ilog2(range)
//@sig
    ensures r as int == width(min, max)
//@body_start
    proof { lemma_width(min, max); }
//@endfn

//@fn src/record.rs - serialize_integer serves=C12,C10,C01
//@sig
    requires old(buffer).wf(), old(buffer).buffer@.len() + 32 < usize::MAX,
        // the packer's precondition: the value is representable in the declared range
        min as int <= value as int <= max as int,
    ensures final(buffer).wf(),
        // stored as value - min, exactly width(min,max) bits, LSB first
        final(buffer).bits() =~= old(buffer).bits() + enc_bits((value as int - min as int) as u64, width(min, max)),
//@call integer_bits 0 after
    proof {
        lemma_width(min, max);
        lemma_pow2_64();
        let w = width(min, max);
        assert forall|i: int| 0 <= i < 64 implies bit_at(data@, i) == bit64(uint, i) by { lemma_le_bytes64_bit(uint, i); }
        assert forall|i: int| bits <= i < 8 * ((bits + 7) / 8) implies !bit_at(data@, i) by {
            lemma_small_high_bits_clear(uint, w, i);
        }
    }
//@endfn

impl RecordDataType {
//@fn src/record.rs RecordDataType bit_size serves=C12,C10,C08 ret=r
//@rw std::mem::size_of::<f32>\(\) ==> shim_size_of_f32()
//@rw std::mem::size_of::<f64>\(\) ==> shim_size_of_f64()
//@sig
        ensures r as int == self.spec_bit_size()
//@endfn

    /// C12: floats occupy 32 / 64 bits, integers width(min,max)
    pub open spec fn spec_bit_size(&self) -> int {
        match self {
            RecordDataType::Single { .. } => 32,
            RecordDataType::Double { .. } => 64,
            RecordDataType::ScaledInteger { min, max, .. } => width(*min, *max),
            RecordDataType::Integer { min, max } => width(*min, *max),
        }
    }
    /// value v is representable by this type
    pub open spec fn fits(&self, v: RecordValue) -> bool {
        match (self, v) {
            (RecordDataType::Single { .. }, RecordValue::Single(_)) => true,
            (RecordDataType::Double { .. }, RecordValue::Double(_)) => true,
            (RecordDataType::ScaledInteger { min, max, .. }, RecordValue::ScaledInteger(i)) => *min <= i <= *max,
            (RecordDataType::Integer { min, max }, RecordValue::Integer(i)) => *min <= i <= *max,
            _ => false,
        }
    }
    pub open spec fn same_kind(&self, v: RecordValue) -> bool {
        match (self, v) {
            (RecordDataType::Single { .. }, RecordValue::Single(_)) => true,
            (RecordDataType::Double { .. }, RecordValue::Double(_)) => true,
            (RecordDataType::ScaledInteger { .. }, RecordValue::ScaledInteger(_)) => true,
            (RecordDataType::Integer { .. }, RecordValue::Integer(_)) => true,
            _ => false,
        }
    }
    /// the bit string that stores v
    pub open spec fn enc(&self, v: RecordValue) -> Seq<bool> {
        match (self, v) {
            (RecordDataType::Single { .. }, RecordValue::Single(f)) => bits_of(f32_le(f)),
            (RecordDataType::Double { .. }, RecordValue::Double(f)) => bits_of(f64_le(f)),
            (RecordDataType::ScaledInteger { min, max, .. }, RecordValue::ScaledInteger(i)) => enc_bits((i as int - *min as int) as u64, width(*min, *max)),
            (RecordDataType::Integer { min, max }, RecordValue::Integer(i)) => enc_bits((i as int - *min as int) as u64, width(*min, *max)),
            _ => Seq::<bool>::empty(),
        }
    }

//@fn src/record.rs RecordDataType write serves=C12,C10,C01 ret=r
//@rw \bint\b ==> int_v
//@sig
        requires old(buffer).wf(), old(buffer).buffer@.len() + 64 < usize::MAX,
            // callers must only pass representable values (C10); a kind mismatch is reported as Err
            self.same_kind(*value) ==> self.fits(*value),
        ensures final(buffer).wf(),
            (r is Ok) == self.same_kind(*value),
            r is Ok ==> final(buffer).bits() =~= old(buffer).bits() + self.enc(*value),
            r is Ok ==> self.enc(*value).len() == self.spec_bit_size(),
            r is Err ==> final(buffer).bits() =~= old(buffer).bits(),
//@body_start
        proof { axiom_float_le_roundtrip(); match self { RecordDataType::ScaledInteger { min, max, .. } => lemma_width(*min, *max), RecordDataType::Integer { min, max } => lemma_width(*min, *max), _ => {} } }
//@endfn
}

// =================================================================================================
// bs_read.rs
// =================================================================================================
//@item src/bs_read.rs struct ByteStreamReadBuffer
//@enditem

/// no stream buffer reaches 2^60 bytes (physical memory): keeps usize arithmetic (len * 8) in range
pub spec const MAX_RB: int = 0x1000_0000_0000_0000;

impl ByteStreamReadBuffer {
    pub open spec fn wf(&self) -> bool { self.offset <= 8 * self.buffer@.len() && self.buffer@.len() <= MAX_RB && self.tmp@.len() == 0 }
    /// abstract view: the bits not yet consumed
    pub open spec fn rest(&self) -> Seq<bool> {
        Seq::new((8 * self.buffer@.len() - self.offset) as nat, |i: int| bit_at(self.buffer@, self.offset + i))
    }

//@fn src/bs_read.rs ByteStreamReadBuffer new serves=C12,C03 ret=r
//@sig
        ensures r.wf(), r.rest() =~= Seq::<bool>::empty()
//@endfn

//@fn src/bs_read.rs ByteStreamReadBuffer append serves=C12,C03,C09,C08
//@sig
        requires old(self).wf(), old(self).buffer@.len() - old(self).offset / 8 + data@.len() <= MAX_RB
        ensures final(self).wf(),
            // unconsumed bits are kept (also a partially consumed byte), new bits go behind them
            final(self).rest() =~= old(self).rest() + bits_of(data@),
            // consumed whole bytes are dropped: memory is bounded by unconsumed + new
            final(self).offset < 8,
            final(self).buffer@.len() == old(self).buffer@.len() - old(self).offset / 8 + data@.len(),
//@fn_end
        proof {
            let ob = old(self).buffer@; let nb = self.buffer@; let c = (old(self).offset / 8) as int;
            assert(nb =~= ob.subrange(c, ob.len() as int) + data@);
            assert forall|i: int| 0 <= i < 8 * nb.len() implies #[trigger] bit_at(nb, i) ==
                (if i < 8 * (ob.len() - c) { bit_at(ob, i + 8 * c) } else { bit_at(data@, i - 8 * (ob.len() - c)) }) by {
                if i < 8 * (ob.len() - c) {
                    assert(nb[i / 8] == ob[i / 8 + c]);
                    assert((i + 8 * c) / 8 == i / 8 + c);
                    assert((i + 8 * c) % 8 == i % 8);
                } else {
                    let r = ob.len() - c;
                    assert(nb[i / 8] == data@[i / 8 - r]);
                    assert((i - 8 * r) / 8 == i / 8 - r);
                    assert((i - 8 * r) % 8 == i % 8);
                }
            }
        }
//@endfn

//@fn src/bs_read.rs ByteStreamReadBuffer extract serves=C12,C03,C08 ret=r
//@sig
        requires old(self).wf(), bits <= 64
        ensures final(self).wf(), final(self).buffer@ == old(self).buffer@,
            match r {
                Some(v) => old(self).rest().len() >= bits
                    // the low `bits` bits of the result are the next stream bits, LSB first, at any bit phase
                    && (forall|k: int| 0 <= k < bits ==> bit64(v, k) == #[trigger] old(self).rest()[k])
                    && final(self).rest() =~= old(self).rest().subrange(bits as int, old(self).rest().len() as int),
                None => old(self).rest().len() < bits && final(self).offset == old(self).offset,
            }
//@call copy_from_slice 0 after
        let ghost arr = data@;
        let ghost dl = data_len;
        let ghost so = start_offset;
//@tail
        proof {
            let v128 = le128(arr);
            assert forall|k: int| 0 <= k < bits implies bit64(data as u64, k) == #[trigger] old(self).rest()[k] by {
                lemma_shift_trunc(v128, offset, k);
                lemma_le128_bit(arr, k + offset);
                let j = k + offset;
                assert(j / 8 < dl);
                assert(arr[j / 8] == old(self).buffer@[so + j / 8]);
                assert((old(self).offset + k) / 8 == so + j / 8);
                assert((old(self).offset + k) % 8 == j % 8);
            }
        }
//@endfn

//@fn src/bs_read.rs ByteStreamReadBuffer available serves=C12,C03,C08 ret=r
//@sig
        requires self.wf()
        ensures r == self.rest().len()
//@endfn
}

// =================================================================================================
// bitpack.rs
// =================================================================================================
//@item src/bitpack.rs struct BitPack
//@enditem

/// the value the int decoder must produce for chunk j of width w
pub open spec fn dec_int(r: Seq<bool>, j: int, w: int, min: i64) -> i64 {
    ((chunk_val(chunk(r, j, w)) as i128 + min as i128) as i64)
}
/// the 8 bytes / 4 bytes whose bits are chunk j
pub open spec fn chunk_bytes(r: Seq<bool>, j: int, w: int) -> Seq<u8> {
    if w == 64 { le_bytes64(chunk_val(chunk(r, j, 64))) } else { le_bytes32(chunk_val(chunk(r, j, 32)) as u32) }
}

impl BitPack {
//@fn src/bitpack.rs BitPack unpack_ints serves=C12,C03,C08,C09 ret=r
//@rw range\.ilog2\(\) ==> shim_i128_ilog2(range)
//@rw \bint\b ==> int_v
//@sig
        requires old(stream).wf(), min < max
        ensures
            final(stream).wf(),
            r is Ok,
            ({
                let w = width(min, max);
                let k = old(stream).rest().len() as int / w;
                // exactly floor(|rest| / w) values, in order, each = chunk + min; the leftover bits stay
                &&& final(output)@.len() == old(output)@.len() + k
                &&& final(stream).rest() =~= old(stream).rest().subrange(k * w, old(stream).rest().len() as int)
                &&& final(stream).buffer@ == old(stream).buffer@
                &&& forall|j: int| 0 <= j < old(output)@.len() ==> final(output)@[j] == old(output)@[j]
                &&& forall|j: int| 0 <= j < k ==> #[trigger] final(output)@[old(output)@.len() + j]
                        == RecordValue::Integer(dec_int(old(stream).rest(), j, w, min))
            }),
//@call shim_i128_ilog2 0 before
        proof { lemma_width(min, max); }
//@call shim_i128_ilog2 0 after
        proof { assert(1u128 << (bits as u128) >= 1u128) by (bit_vector) requires 1 <= bits <= 64;
                assert((1u128 << bits) == (1u128 << (bits as u128))) by (bit_vector); }
//@loop 0 before hdr=while let Some\(uint\) = stream\.extract\(bits\)
        let ghost r0 = stream.rest();
        let ghost out0 = output@;
        let ghost n: int = 0;
//@loop 0 head
            invariant
                1 <= bits <= 64, stream.wf(), bits == width(min, max),
                mask == (((1u128 << (bits as u128)) - 1) as u64),
                0 <= n, n * bits <= r0.len(),
                stream.buffer@ == old(stream).buffer@,
                stream.rest() =~= r0.subrange(n * bits, r0.len() as int),
                output@.len() == out0.len() + n,
                forall|j: int| 0 <= j < out0.len() ==> output@[j] == out0[j],
                forall|j: int| 0 <= j < n ==> #[trigger] output@[out0.len() + j]
                        == RecordValue::Integer(dec_int(r0, j, bits as int, min)),
            ensures
                stream.wf(), 0 <= n, n * bits <= r0.len(),
                stream.buffer@ == old(stream).buffer@,
                stream.rest() =~= r0.subrange(n * bits, r0.len() as int),
                stream.rest().len() < bits,
                output@.len() == out0.len() + n,
                forall|j: int| 0 <= j < out0.len() ==> output@[j] == out0[j],
                forall|j: int| 0 <= j < n ==> #[trigger] output@[out0.len() + j]
                        == RecordValue::Integer(dec_int(r0, j, bits as int, min)),
            decreases stream.rest().len()
//@loop 0 body_end
            proof {
                let x = uint & mask;
                let c = chunk(r0, n, bits as int);
                assert forall|k: int| 0 <= k < 64 implies bit64(x, k) == (k < c.len() && c[k]) by {
                    lemma_mask(uint, bits as u64, k as u64);
                }
                assert(holds_bits(x, c));
                lemma_chunk_val(x, c);
                assert((n + 1) * bits == n * bits + bits) by (nonlinear_arith);
                n = n + 1;
            }
//@tail
        proof {
            let w = bits as int;
            let k = r0.len() as int / w;
            assert(r0.len() - n * w < w);
            assert(n == k) by (nonlinear_arith) requires 0 <= n, n * w <= r0.len(), r0.len() - n * w < w, w >= 1, k == r0.len() as int / w;
        }
//@endfn

//@fn src/bitpack.rs BitPack unpack_scaled_ints serves=C12,C03,C08,C09 ret=r
//@rw range\.ilog2\(\) ==> shim_i128_ilog2(range)
//@rw \bint\b ==> int_v
//@sig
        requires old(stream).wf(), min < max
        ensures
            final(stream).wf(),
            r is Ok,
            ({
                let w = width(min, max);
                let k = old(stream).rest().len() as int / w;
                &&& final(output)@.len() == old(output)@.len() + k
                &&& final(stream).rest() =~= old(stream).rest().subrange(k * w, old(stream).rest().len() as int)
                &&& final(stream).buffer@ == old(stream).buffer@
                &&& forall|j: int| 0 <= j < old(output)@.len() ==> final(output)@[j] == old(output)@[j]
                &&& forall|j: int| 0 <= j < k ==> #[trigger] final(output)@[old(output)@.len() + j]
                        == RecordValue::ScaledInteger(dec_int(old(stream).rest(), j, w, min))
            }),
//@call shim_i128_ilog2 0 before
        proof { lemma_width(min, max); }
//@call shim_i128_ilog2 0 after
        proof { assert(1u128 << (bits as u128) >= 1u128) by (bit_vector) requires 1 <= bits <= 64;
                assert((1u128 << bits) == (1u128 << (bits as u128))) by (bit_vector); }
//@loop 0 before hdr=while let Some\(uint\) = stream\.extract\(bits\)
        let ghost r0 = stream.rest();
        let ghost out0 = output@;
        let ghost n: int = 0;
//@loop 0 head
            invariant
                1 <= bits <= 64, stream.wf(), bits == width(min, max),
                mask == (((1u128 << (bits as u128)) - 1) as u64),
                0 <= n, n * bits <= r0.len(),
                stream.buffer@ == old(stream).buffer@,
                stream.rest() =~= r0.subrange(n * bits, r0.len() as int),
                output@.len() == out0.len() + n,
                forall|j: int| 0 <= j < out0.len() ==> output@[j] == out0[j],
                forall|j: int| 0 <= j < n ==> #[trigger] output@[out0.len() + j]
                        == RecordValue::ScaledInteger(dec_int(r0, j, bits as int, min)),
            ensures
                stream.wf(), 0 <= n, n * bits <= r0.len(),
                stream.buffer@ == old(stream).buffer@,
                stream.rest() =~= r0.subrange(n * bits, r0.len() as int),
                stream.rest().len() < bits,
                output@.len() == out0.len() + n,
                forall|j: int| 0 <= j < out0.len() ==> output@[j] == out0[j],
                forall|j: int| 0 <= j < n ==> #[trigger] output@[out0.len() + j]
                        == RecordValue::ScaledInteger(dec_int(r0, j, bits as int, min)),
            decreases stream.rest().len()
//@loop 0 body_end
            proof {
                let x = uint & mask;
                let c = chunk(r0, n, bits as int);
                assert forall|k: int| 0 <= k < 64 implies bit64(x, k) == (k < c.len() && c[k]) by {
                    lemma_mask(uint, bits as u64, k as u64);
                }
                assert(holds_bits(x, c));
                lemma_chunk_val(x, c);
                assert((n + 1) * bits == n * bits + bits) by (nonlinear_arith);
                n = n + 1;
            }
//@tail
        proof {
            let w = bits as int;
            let k = r0.len() as int / w;
            assert(r0.len() - n * w < w);
            assert(n == k) by (nonlinear_arith) requires 0 <= n, n * w <= r0.len(), r0.len() - n * w < w, w >= 1, k == r0.len() as int / w;
        }
//@endfn

//@fn src/bitpack.rs BitPack unpack_doubles serves=C12,C03,C08,C09 ret=r
//@sig
        requires old(stream).wf()
        ensures
            final(stream).wf(),
            r is Ok,
            ({
                let k = old(stream).rest().len() as int / 64;
                &&& final(output)@.len() == old(output)@.len() + k
                &&& final(stream).rest() =~= old(stream).rest().subrange(k * 64, old(stream).rest().len() as int)
                &&& final(stream).buffer@ == old(stream).buffer@
                &&& forall|j: int| 0 <= j < old(output)@.len() ==> final(output)@[j] == old(output)@[j]
                // each value is rebuilt from the 8 little-endian bytes holding the next 64 stream bits
                &&& forall|j: int| 0 <= j < k ==> #[trigger] final(output)@[old(output)@.len() + j]
                        == RecordValue::Double(f64_from_le(chunk_bytes(old(stream).rest(), j, 64)))
            }),
//@loop 0 before hdr=while let Some\(data\) = stream\.extract\(64\)
        let ghost r0 = stream.rest();
        let ghost out0 = output@;
        let ghost n: int = 0;
//@loop 0 head
            invariant
                stream.wf(),
                0 <= n, n * 64 <= r0.len(),
                stream.buffer@ == old(stream).buffer@,
                stream.rest() =~= r0.subrange(n * 64, r0.len() as int),
                output@.len() == out0.len() + n,
                forall|j: int| 0 <= j < out0.len() ==> output@[j] == out0[j],
                forall|j: int| 0 <= j < n ==> #[trigger] output@[out0.len() + j]
                        == RecordValue::Double(f64_from_le(chunk_bytes(r0, j, 64))),
            ensures
                stream.wf(), 0 <= n, n * 64 <= r0.len(),
                stream.buffer@ == old(stream).buffer@,
                stream.rest() =~= r0.subrange(n * 64, r0.len() as int),
                stream.rest().len() < 64,
                output@.len() == out0.len() + n,
                forall|j: int| 0 <= j < out0.len() ==> output@[j] == out0[j],
                forall|j: int| 0 <= j < n ==> #[trigger] output@[out0.len() + j]
                        == RecordValue::Double(f64_from_le(chunk_bytes(r0, j, 64))),
            decreases stream.rest().len()
//@loop 0 body_end
            proof {
                let c = chunk(r0, n, 64);
                assert(holds_bits(data, c));
                lemma_chunk_val(data, c);
                n = n + 1;
            }
//@endfn

//@fn src/bitpack.rs BitPack unpack_singles serves=C12,C03,C08,C09 ret=r
//@sig
        requires old(stream).wf()
        ensures
            final(stream).wf(),
            r is Ok,
            ({
                let k = old(stream).rest().len() as int / 32;
                &&& final(output)@.len() == old(output)@.len() + k
                &&& final(stream).rest() =~= old(stream).rest().subrange(k * 32, old(stream).rest().len() as int)
                &&& final(stream).buffer@ == old(stream).buffer@
                &&& forall|j: int| 0 <= j < old(output)@.len() ==> final(output)@[j] == old(output)@[j]
                &&& forall|j: int| 0 <= j < k ==> #[trigger] final(output)@[old(output)@.len() + j]
                        == RecordValue::Single(f32_from_le(chunk_bytes(old(stream).rest(), j, 32)))
            }),
//@loop 0 before hdr=while let Some\(data\) = stream\.extract\(32\)
        let ghost r0 = stream.rest();
        let ghost out0 = output@;
        let ghost n: int = 0;
//@loop 0 head
            invariant
                stream.wf(),
                0 <= n, n * 32 <= r0.len(),
                stream.buffer@ == old(stream).buffer@,
                stream.rest() =~= r0.subrange(n * 32, r0.len() as int),
                output@.len() == out0.len() + n,
                forall|j: int| 0 <= j < out0.len() ==> output@[j] == out0[j],
                forall|j: int| 0 <= j < n ==> #[trigger] output@[out0.len() + j]
                        == RecordValue::Single(f32_from_le(chunk_bytes(r0, j, 32))),
            ensures
                stream.wf(), 0 <= n, n * 32 <= r0.len(),
                stream.buffer@ == old(stream).buffer@,
                stream.rest() =~= r0.subrange(n * 32, r0.len() as int),
                stream.rest().len() < 32,
                output@.len() == out0.len() + n,
                forall|j: int| 0 <= j < out0.len() ==> output@[j] == out0[j],
                forall|j: int| 0 <= j < n ==> #[trigger] output@[out0.len() + j]
                        == RecordValue::Single(f32_from_le(chunk_bytes(r0, j, 32))),
            decreases stream.rest().len()
//@loop 0 body_end
            proof {
                let c = chunk(r0, n, 32);
                lemma_low32(data, c);
                n = n + 1;
            }
//@endfn
}

/// the low 32 bits of an extracted word are the chunk value
proof fn lemma_low32(data: u64, c: Seq<bool>)
    requires c.len() == 32, forall|k: int| 0 <= k < 32 ==> bit64(data, k) == c[k]
    ensures chunk_val(c) as u32 == data as u32
{
    let x = data & 0xffff_ffffu64;
    assert forall|k: int| 0 <= k < 64 implies bit64(x, k) == (k < c.len() && c[k]) by {
        let kk = k as u64;
        assert(kk < 64 ==> ((((data & 0xffff_ffffu64) >> kk) & 1u64 == 1u64) == (kk < 32 && ((data >> kk) & 1u64 == 1u64)))) by (bit_vector);
    }
    lemma_chunk_val(x, c);
    assert((data & 0xffff_ffffu64) as u32 == data as u32) by (bit_vector);
}

// =================================================================================================
// C12 corollaries (pure specification level, over the contracts above)
// =================================================================================================

/// integers: whatever was packed for a representable value is decoded to that value
proof fn theorem_int_roundtrip(value: i64, min: i64, max: i64)
    requires min <= value <= max, min < max
    ensures ({
        let w = width(min, max);
        let stored = enc_bits((value as int - min as int) as u64, w);
        // decoder applied to a stream that starts with `stored` (chunk 0 of width w)
        &&& 1 <= w <= 64
        &&& ((chunk_val(stored) as i128 + min as i128) as i64) == value
    })
{
    lemma_width(min, max);
    lemma_pow2_64();
    let w = width(min, max);
    let u = (value as int - min as int) as u64;
    lemma_enc_dec(u, w);
}

/// floats: 4 / 8 little-endian bytes, bit-identical round trip (assumed std property of {to,from}_le_bytes)
proof fn theorem_float_roundtrip(f: f32, d: f64)
    ensures f32_from_le(f32_le(f)) == f, f64_from_le(f64_le(d)) == d, f32_le(f).len() == 4, f64_le(d).len() == 8
{
    axiom_float_le_roundtrip();
}

/// cut independence: appending the chunks of any cut of a byte stream gives the bits of the whole stream
proof fn theorem_cut_independence(a: Seq<u8>, b: Seq<u8>, c: Seq<u8>)
    ensures bits_of(a + b + c) =~= bits_of(a) + bits_of(b) + bits_of(c)
{
    lemma_bits_of_concat(a, b);
    lemma_bits_of_concat(a + b, c);
}

/// width examples of the statement: 0 when equal, 64 for the full range, powers of two
proof fn theorem_width_examples()
    ensures width(5, 5) == 0, width(i64::MIN, i64::MAX) == 64, width(0, 1) == 1, width(0, 255) == 8, width(0, 256) == 9, width(-1i64, 0) == 1,
{
    lemma_width(i64::MIN, i64::MAX);
    lemma_pow2_64();
    reveal_with_fuel(lg2, 12);
    reveal_with_fuel(pow2, 12);
    // full range: max-min = 2^64-1 >= 2^63 so width > 63
    let w = width(i64::MIN, i64::MAX);
    if w <= 63 { lemma_pow2_mono(w, 63); }
}

