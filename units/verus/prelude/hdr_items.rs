//@item src/packet.rs struct DataPacketHeader
//@enditem
//@item src/cv_section.rs struct CompressedVectorSectionHeader
//@enditem
impl DataPacketHeader {
//@item src/packet.rs const SIZE owner=DataPacketHeader
//@enditem
}
impl CompressedVectorSectionHeader {
//@item src/cv_section.rs const SIZE owner=CompressedVectorSectionHeader
//@enditem
}
