//@item src/packet.rs struct DataPacketHeader
//@enditem
//@item src/cv_section.rs struct CompressedVectorSectionHeader
//@enditem
impl DataPacketHeader {
//@consts src/packet.rs DataPacketHeader
}
impl CompressedVectorSectionHeader {
//@consts src/cv_section.rs CompressedVectorSectionHeader
}
