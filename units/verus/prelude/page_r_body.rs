//@grw format!\((?:[^()]|\([^()]*\))*\) ==> ""
type IoResult<T> = std::result::Result<T, IoError>;

#[verifier::external_body]
fn slice_eq4(a: &[u8], b: &[u8; 4]) -> (r: bool)
    ensures r == (a@ == b@)
{ a == b }

//@item src/paged_reader.rs const CHECKSUM_SIZE
//@enditem
//@item src/paged_reader.rs const ALIGNMENT_SIZE
//@enditem
//@item src/paged_reader.rs const MAX_PAGE_SIZE
//@enditem
/// the maximum page size of the real code, whatever constant expression it is written as (1024 * 1024, 1 << 20, 0x10_0000)
proof fn const_max_page_size() ensures MAX_PAGE_SIZE == 0x10_0000 { assert(MAX_PAGE_SIZE == 0x10_0000) by (compute_only); }

//@item src/paged_reader.rs struct PagedReader
//@rw <T: Read \+ Seek> ==> <empty>
//@rw reader: T, ==> reader: Dev,
//@rw #\[cfg\(not\(feature = "crc32c"\)\)\] ==> <empty>
//@enditem

/// page k of a device image with page size ps
spec fn pagen(d: Seq<u8>, ps: int, k: int) -> Seq<u8> { d.subrange(ps * k, ps * k + ps) }
/// the last 4 bytes are the big-endian checksum of the rest
spec fn sealedn(pg: Seq<u8>, ps: int) -> bool { pg.len() == ps && pg.subrange(ps - 4, ps) == be4(crc32c(pg.subrange(0, ps - 4))) }

impl PagedReader {
    /// representation invariant, incl. the cache clause: a cached page is the device page and is sealed
    spec fn wf(&self) -> bool {
        &&& 4 < self.page_size <= 0x10_0000   // == MAX_PAGE_SIZE, see const_max_page_size()
        &&& self.phy_file_size == self.reader.data@.len()
        &&& self.phy_file_size > 0
        &&& self.phy_file_size <= 0x7fff_ffff_ffff_ffff
        &&& self.phy_file_size == self.pages * self.page_size
        &&& self.log_file_size == self.pages * (self.page_size - 4)
        &&& self.page_buffer@.len() == self.page_size
        &&& self.offset <= self.log_file_size + 4
        &&& (self.page_num matches Some(k) ==> k < self.pages
                && self.page_buffer@ == pagen(self.reader.data@, self.page_size as int, k as int)
                && sealedn(self.page_buffer@, self.page_size as int))
    }
    /// logical byte i of the file: a function of the device bytes only (C17)
    spec fn lbyte(&self, i: int) -> u8 {
        self.reader.data@[(i / (self.page_size - 4)) * self.page_size + i % (self.page_size - 4)]
    }
    spec fn no_new_fault(&self, o: &Self) -> bool { self.reader.failed@ == o.reader.failed@ }
    /// same file, same geometry (frame for every function that only moves the cursor / fills the cache)
    spec fn same_file(&self, o: &Self) -> bool {
        self.reader.data@ == o.reader.data@ && self.page_size == o.page_size && self.pages == o.pages
            && self.log_file_size == o.log_file_size
    }

//@fn src/paged_reader.rs PagedReader new serves=C11,C08,C09,C16,C17,C06 ret=r
//@rw -> Result< ==> -> IoResult<
//@rw mut reader: T ==> mut reader: Dev
//@rw #\[cfg\(not\(feature = "crc32c"\)\)\] ==> <empty>
//@rw Error::new\( ==> IoError::new(
//@sig
        ensures match r {
            Ok(p) => p.wf() && p.reader.data@ == reader.data@ && p.page_size == page_size && p.page_num is None && p.offset == 0
                && p.reader.failed@ == reader.failed@,
            // sizes that are not whole pages / zero / page size out of range are refused (before allocating)
            Err(_) => true },
//@body_start
        proof { const_max_page_size(); }
//@stmt 0 before let pages = phy_file_size / page_size
        proof {
            let ps = page_size as int; let sz = phy_file_size as int;
            vstd::arithmetic::div_mod::lemma_fundamental_div_mod(sz, ps);
            assert(ps * (sz / ps) == (sz / ps) * ps) by (nonlinear_arith);
            assert((sz / ps) * (ps - 4) <= (sz / ps) * ps) by (nonlinear_arith) requires sz / ps >= 0, ps > 4;
        }
//@endfn

//@fn src/paged_reader.rs PagedReader seek_physical serves=C11,C08,C17,C06 ret=r
//@rw -> Result< ==> -> IoResult<
//@rw Error::new\( ==> IoError::new(
//@sig
        requires old(self).wf(),
        ensures final(self).wf(), final(self).reader == old(self).reader, final(self).page_num == old(self).page_num,
            final(self).page_buffer == old(self).page_buffer, final(self).same_file(old(self)),
            match r {
                // physical -> logical: skip 4 checksum bytes per page before the offset
                Ok(l) => offset < old(self).phy_file_size && l == final(self).offset
                    && l == offset - (offset / old(self).page_size) * 4,
                Err(_) => offset >= old(self).phy_file_size && final(self).offset == old(self).offset },
//@body_start
        proof {
            // arithmetic of the physical -> logical translation, stated over the parameters only (no anchor inside the body)
            if offset < self.phy_file_size {
                let ps = self.page_size as int;
                let o = offset as int;
                let pb = o / ps;
                vstd::arithmetic::div_mod::lemma_fundamental_div_mod(o, ps);
                vstd::arithmetic::div_mod::lemma_mod_bound(o, ps);
                assert(ps * pb == pb * ps) by (nonlinear_arith);
                assert(pb * ps <= o < pb * ps + ps);
                assert(pb < self.pages) by (nonlinear_arith)
                    requires pb * ps <= o, o < self.pages * ps, ps > 0, pb >= 0, self.pages >= 0;
                assert(pb * 4 <= pb * ps) by (nonlinear_arith) requires ps >= 4, pb >= 0;
                assert(o - pb * 4 <= self.pages * (ps - 4) + 4) by (nonlinear_arith)
                    requires pb * ps <= o, o < pb * ps + ps, pb + 1 <= self.pages, ps > 4, pb >= 0;
            }
        }
//@endfn

//@fn src/paged_reader.rs PagedReader read_page serves=C11,C07,C17,C16,C08,C06 ret=r
//@rw -> Result< ==> -> IoResult<
//@rw #\[cfg\(not\(feature = "crc32c"\)\)\] ==> <empty>
//@rw #\[cfg\(feature = "crc32c"\)\]\s*let crc = [^;]*; ==> <empty>
//@rw crc\.to_be_bytes\(\) ==> shim_u32_to_be_bytes(crc)
//@rw expected_checksum != calculated_checksum ==> !slice_eq4(expected_checksum, &calculated_checksum)
//@rw Error::new\( ==> IoError::new(
//@sig
        requires old(self).wf(),
        // wf (cache clause included) holds on EVERY exit: after a failure the cache is never stale
        ensures final(self).wf(), final(self).offset == old(self).offset, final(self).reader.data@ == old(self).reader.data@,
            final(self).page_size == old(self).page_size, final(self).pages == old(self).pages, final(self).same_file(old(self)),
            match r { Ok(_) => page < old(self).pages && final(self).page_num == Some(page) && final(self).no_new_fault(old(self)),
                      // Err: device fault, page out of range, or the page on the device is not sealed
                      Err(_) => final(self).reader.failed@ || page >= old(self).pages
                            || !sealedn(pagen(old(self).reader.data@, old(self).page_size as int, page as int), old(self).page_size as int) },
//@stmt 0 before let offset = page \* self\.page_size
        proof {
            assert(page * self.page_size + self.page_size <= self.pages * self.page_size) by (nonlinear_arith)
                requires page + 1 <= self.pages, self.page_size >= 0;
            assert(page * self.page_size >= 0) by (nonlinear_arith) requires page >= 0, self.page_size >= 0;
        }
//@stmt 0 before let calculated_checksum =
        proof {
            be4_len(crc);
            let ps = self.page_size as int;
            assert(self.page_buffer@ =~= pagen(self.reader.data@, ps, page as int)) by {
                assert(ps * (page as int) == (page as int) * (self.page_size as int)) by (nonlinear_arith) requires ps == self.page_size as int;
            }
            assert(self.page_buffer@.subrange(ps - 4, ps) =~= expected_checksum@);
            assert(self.page_buffer@.subrange(0, ps - 4) =~= self.page_buffer@.subrange(0, data_size as int));
        }
//@endfn

//@fn src/paged_reader.rs PagedReader align serves=C11,C08,C17,C06 ret=r
//@rw -> Result< ==> -> IoResult<
//@rw Error::new\( ==> IoError::new(
//@sig
        requires old(self).wf(),
        ensures final(self).wf(), final(self).reader == old(self).reader, final(self).page_num == old(self).page_num,
            final(self).page_buffer == old(self).page_buffer, final(self).same_file(old(self)),
            match r {
                Ok(_) => final(self).offset % 4 == 0 && final(self).offset >= old(self).offset && final(self).offset - old(self).offset < 4,
                Err(_) => final(self).offset == old(self).offset },
//@body_start
        proof {
            assert(self.pages * (self.page_size - 4) <= self.pages * self.page_size) by (nonlinear_arith) requires self.pages >= 0, self.page_size > 4;
            // the same alignment written with a mask (x & 3) instead of a remainder (x % 4): equal for every u64
            assert forall|x: u64| #[trigger] (x & 3) == x % 4 by { assert(x & 3 == x % 4) by (bit_vector); }
        }
//@endfn

//@fn src/paged_reader.rs PagedReader read trait=Read serves=C11,C07,C17,C16,C08,C09,C06 ret=r
//@rw -> Result< ==> -> IoResult<
//@sig
        requires old(self).wf(),
        ensures final(self).wf(), final(self).reader.data@ == old(self).reader.data@,
            final(self).page_size == old(self).page_size, final(self).pages == old(self).pages, final(self).same_file(old(self)),
            final(buf)@.len() == old(buf)@.len(),
            match r {
                Ok(n) => final(self).no_new_fault(old(self)) && ({
                    let pay = old(self).page_size - 4;
                    let page = old(self).offset as int / pay;
                    if page >= old(self).pages { n == 0 && final(self).offset == old(self).offset && final(buf)@ == old(buf)@ }
                    else {
                        // short read at the page boundary only
                        &&& n == (if old(buf)@.len() <= pay - old(self).offset as int % pay { old(buf)@.len() as int } else { pay - old(self).offset as int % pay })
                        &&& final(self).offset == old(self).offset + n
                        // C07: the page the bytes come from carries a valid checksum
                        &&& sealedn(pagen(old(self).reader.data@, old(self).page_size as int, page), old(self).page_size as int)
                        // C11/C17: the bytes are the logical bytes at the cursor — a function of device bytes and cursor only
                        &&& forall|i: int| 0 <= i < n ==> final(buf)@[i] == old(self).lbyte(old(self).offset + i)
                        &&& forall|i: int| n <= i < old(buf)@.len() ==> final(buf)@[i] == old(buf)@[i]
                    }
                }),
                // C07: an error means a device fault or an unsealed page; the cursor does not move
                Err(_) => final(self).offset == old(self).offset
                    && (final(self).reader.failed@
                        || !sealedn(pagen(old(self).reader.data@, old(self).page_size as int, old(self).offset as int / (old(self).page_size - 4)), old(self).page_size as int)),
            }
//@body_start
        proof {
            // page arithmetic spelled out once, free of local names: the in-page offset written as a remainder or as offset - page * payload
            let pay0 = (old(self).page_size - 4) as int; let o0 = old(self).offset as int;
            vstd::arithmetic::div_mod::lemma_fundamental_div_mod(o0, pay0);
            vstd::arithmetic::div_mod::lemma_mod_bound(o0, pay0);
            assert(pay0 * (o0 / pay0) == (o0 / pay0) * pay0) by (nonlinear_arith);
            assert(o0 - (o0 / pay0) * pay0 == o0 % pay0);
        }
//@stmt 0 after let read_size = usize::min
        proof {
            let pay = (self.page_size - 4) as int;
            let o = self.offset as int;
            vstd::arithmetic::div_mod::lemma_fundamental_div_mod(o, pay);
            vstd::arithmetic::div_mod::lemma_mod_bound(o, pay);
            assert(pay * (o / pay) == (o / pay) * pay) by (nonlinear_arith);
            assert((page + 1) * pay <= self.pages * pay) by (nonlinear_arith) requires page + 1 <= self.pages, pay > 0;
            assert(page * self.page_size + self.page_size <= self.pages * self.page_size) by (nonlinear_arith)
                requires page + 1 <= self.pages, self.page_size >= 0;
            assert(self.page_size as int * (page as int) == page * self.page_size) by (nonlinear_arith);
            assert(page as int == o / pay);
            assert(page_offset as int == o % pay);
            assert((page + 1) * pay == page * pay + pay) by (nonlinear_arith);
            assert(pay * (o / pay) == page * pay) by (nonlinear_arith) requires page as int == o / pay;
            assert(read_size <= pay - o % pay);
            assert(o + read_size <= (page + 1) * pay);
            assert(self.pages * pay == self.log_file_size);
        }
        let ghost pb = self.page_buffer@;
//@tail
        proof {
            let ps = self.page_size as int;
            let pay = ps - 4;
            let o = old(self).offset as int;
            assert(pb == pagen(self.reader.data@, ps, page as int));
            assert forall|i: int| 0 <= i < read_size implies buf@[i] == old(self).lbyte(o + i) by {
                vstd::arithmetic::div_mod::lemma_fundamental_div_mod(o + i, pay);
                vstd::arithmetic::div_mod::lemma_fundamental_div_mod_converse(o + i, pay, page as int, o % pay + i);
                assert(buf@[i] == pb[page_offset as int + i]);
                assert(pb[page_offset as int + i] == self.reader.data@[ps * (page as int) + page_offset as int + i]);
                assert(ps * (page as int) == (page as int) * ps) by (nonlinear_arith);
            }
        }
//@endfn

    /// the page holding logical byte i carries a valid checksum on the device
    spec fn page_ok(&self, i: int) -> bool {
        sealedn(pagen(self.reader.data@, self.page_size as int, i / (self.page_size - 4)), self.page_size as int)
    }
    /// the logical byte stream of the file (payload of all pages): a function of the device bytes only
    spec fn lstream(&self) -> Seq<u8> { Seq::new(self.log_file_size as nat, |i: int| self.lbyte(i)) }

    /// std::io::Read::read_exact (provided method of the trait), re-stated over the extracted `read` and verified
    /// against its contract: loops until the buffer is full; Ok(0) before that is UnexpectedEof
    fn read_exact(&mut self, buf: &mut [u8]) -> (r: IoResult<()>)
        requires old(self).wf(),
        ensures final(self).wf(), final(self).reader.data@ == old(self).reader.data@,
            final(self).page_size == old(self).page_size, final(self).pages == old(self).pages, final(self).same_file(old(self)),
            final(buf)@.len() == old(buf)@.len(),
            match r {
                Ok(_) => final(self).no_new_fault(old(self))
                    && final(self).offset == old(self).offset + old(buf)@.len()
                    && (old(buf)@.len() > 0 ==> old(self).offset + old(buf)@.len() <= old(self).log_file_size)
                    && (forall|i: int| 0 <= i < old(buf)@.len() ==> final(buf)@[i] == old(self).lbyte(old(self).offset + i))
                    && (forall|i: int| 0 <= i < old(buf)@.len() ==> #[trigger] old(self).page_ok(old(self).offset + i)),
                Err(_) => final(self).reader.failed@ || old(self).offset + old(buf)@.len() > old(self).log_file_size
                    || exists|i: int| 0 <= i < old(buf)@.len() && !#[trigger] old(self).page_ok(old(self).offset + i),
            }
    {
        let ghost off0 = self.offset as int;
        let ghost total = buf@.len() as int;
        let ghost me0 = *old(self);
        let mut unread = &mut buf[..];
        let ghost whole = final(unread)@;
        let ghost done: Seq<u8> = Seq::empty();
        let mut failure: Option<IoError> = None;
        while !unread.is_empty()
            invariant_except_break
                failure is None,
                self.no_new_fault(&me0),
                self.offset == off0 + done.len(),
                done.len() > 0 ==> off0 + done.len() <= me0.log_file_size,
                forall|i: int| 0 <= i < done.len() ==> done[i] == me0.lbyte(off0 + i),
                forall|i: int| 0 <= i < done.len() ==> #[trigger] me0.page_ok(off0 + i),
            invariant
                self.wf(), self.reader.data@ == me0.reader.data@, self.page_size == me0.page_size, self.pages == me0.pages, self.same_file(&me0),
                self.log_file_size == me0.log_file_size, me0.wf(), off0 == me0.offset, me0 == *old(self),
                total == old(buf)@.len(), whole.len() == total,
                done.len() + unread@.len() == total,
                whole =~= done + final(unread)@,
            ensures
                failure is None ==> (unread@.len() > 0 ==> off0 + done.len() >= me0.log_file_size),
                failure is None ==> self.no_new_fault(&me0) && self.offset == off0 + done.len()
                    && (done.len() > 0 ==> off0 + done.len() <= me0.log_file_size)
                    && (forall|i: int| 0 <= i < done.len() ==> done[i] == me0.lbyte(off0 + i))
                    && (forall|i: int| 0 <= i < done.len() ==> #[trigger] me0.page_ok(off0 + i)),
                failure is Some ==> (self.reader.failed@ || (done.len() < total && !me0.page_ok(off0 + done.len()))),
            decreases unread@.len()
        {
            let ghost cur = self.offset as int;
            let ghost ub = unread@;
            let n = match self.read(unread) {
                Ok(n) => n,
                Err(e) => {
                    proof {
                        if !self.reader.failed@ { assert(!me0.page_ok(off0 + done.len())); }
                    }
                    failure = Some(e);
                    break;
                }
            };
            proof {
                let pay = (me0.page_size - 4) as int;
                if n == 0 {
                    // end of the logical stream
                    assert(cur / pay >= me0.pages);
                    vstd::arithmetic::div_mod::lemma_fundamental_div_mod(cur, pay);
                    assert(pay * (cur / pay) >= pay * me0.pages) by (nonlinear_arith) requires cur / pay >= me0.pages, pay > 0;
                    assert(pay * me0.pages == me0.pages * pay) by (nonlinear_arith);
                    vstd::arithmetic::div_mod::lemma_mod_bound(cur, pay);
                }
            }
            if n == 0 {
                break;
            }
            proof {
                let pay = (me0.page_size - 4) as int;
                let pg = cur / pay;
                vstd::arithmetic::div_mod::lemma_fundamental_div_mod(cur, pay);
                vstd::arithmetic::div_mod::lemma_mod_bound(cur, pay);
                assert((pg + 1) * pay <= me0.pages * pay) by (nonlinear_arith) requires pg + 1 <= me0.pages, pay > 0;
                assert((pg + 1) * pay == pay * pg + pay) by (nonlinear_arith);
                assert(pay * pg == pg * pay) by (nonlinear_arith);
                assert(pg < me0.pages);
                assert(n <= pay - cur % pay);
                assert forall|i: int| 0 <= i < n implies #[trigger] me0.page_ok(cur + i) by {
                    vstd::arithmetic::div_mod::lemma_fundamental_div_mod_converse(cur + i, pay, pg, cur % pay + i);
                }
                let nd = done + unread@.subrange(0, n as int);
                assert forall|i: int| 0 <= i < nd.len() implies nd[i] == me0.lbyte(off0 + i) by {
                    if i >= done.len() { assert(nd[i] == unread@[i - done.len()]); }
                }
                assert forall|i: int| 0 <= i < nd.len() implies #[trigger] me0.page_ok(off0 + i) by {
                    if i >= done.len() { assert(me0.page_ok(cur + (i - done.len()))); }
                }
                done = nd;
            }
            unread = &mut unread[n..];
        }
        if let Some(e) = failure {
            return Err(e);
        }
        if !unread.is_empty() {
            return Err(IoError::new(ErrorKind::UnexpectedEof, "failed to fill whole buffer"));
        }
        proof {
            assert(buf@ =~= whole);
            assert(whole =~= done);
        }
        Ok(())
    }

    // canary
//@fn src/paged_reader.rs PagedReader align rename=align__canary canary ret=r
//@rw -> Result< ==> -> IoResult<
//@rw Error::new\( ==> IoError::new(
//@sig
        requires old(self).wf(),
        ensures match r { Ok(_) => final(self).offset % 4 == 1, Err(_) => true },
//@endfn
}

