
//@item src/paged_writer.rs const PAGE_SIZE
//@enditem
//@item src/paged_writer.rs const CRC_SIZE
//@enditem
//@item src/paged_writer.rs const PAGE_PAYLOAD_SIZE
//@enditem
proof fn const_check() ensures PAGE_SIZE == 1024, CRC_SIZE == 4, PAGE_PAYLOAD_SIZE == 1020 {}

//@item src/paged_writer.rs struct PagedWriter
//@rw <T: Write \+ Read \+ Seek> ==> <empty>
//@rw writer: T, ==> writer: Dev,
//@rw \[u8; PAGE_SIZE as usize\] ==> [u8; 1024]
//@rw #\[cfg\(not\(feature = "crc32c"\)\)\] ==> <empty>
//@enditem

impl PagedWriter {
    pub open spec fn dl(&self) -> int { self.writer.data@.len() as int }
    pub open spec fn p(&self) -> int { self.writer.pos as int / 1024 }
    pub open spec fn page_exists(&self) -> bool { self.writer.pos < self.writer.data@.len() }

    /// representation invariant
    pub open spec fn wf(&self) -> bool {
        &&& self.dl() % 1024 == 0
        &&& self.dl() <= 0x7fff_ffff_ffff_ffff
        &&& self.writer.pos % 1024 == 0
        &&& self.writer.pos <= self.dl()
        &&& self.offset < 1020
        // every device page carries a valid checksum
        &&& all_sealed(self.writer.data@)
        // bytes at/after the cursor are untouched since the page was loaded
        &&& (self.page_exists() ==> forall|i: int| self.offset <= i < 1020 ==> self.page_buffer@[i] == self.writer.data@[self.writer.pos + i])
        &&& (!self.page_exists() ==> forall|i: int| self.offset <= i < 1020 ==> self.page_buffer@[i] == 0u8)
    }
    /// number of payload pages of the logical stream
    pub open spec fn npages(&self) -> int {
        if self.dl() / 1024 >= self.p() + (if self.offset > 0 { 1int } else { 0int }) { self.dl() / 1024 } else { self.p() + 1 }
    }
    /// abstract state: the logical byte stream written so far, page granular (zero filled)
    #[verifier::opaque]
    pub open spec fn stream(&self) -> Seq<u8> {
        Seq::new((1020 * self.npages()) as nat, |i: int|
            if i / 1020 == self.p() { self.page_buffer@[i % 1020] } else { self.writer.data@[1024 * (i / 1020) + i % 1020] })
    }
    /// logical cursor
    pub open spec fn cursor(&self) -> int { 1020 * self.p() + self.offset }
    /// C16: an operation that reports success has seen no device error
    pub open spec fn no_new_fault(&self, o: &Self) -> bool { self.writer.failed@ == o.writer.failed@ }

//@fn src/paged_writer.rs PagedWriter new serves=C11,C16,C02 ret=r
//@rw mut writer: T ==> mut writer: Dev
//@rw \[0_u8; PAGE_SIZE as usize\] ==> [0_u8; 1024]
//@rw #\[cfg\(not\(feature = "crc32c"\)\)\] ==> <empty>
//@sig
        ensures match r {
            // only an empty device is accepted; the logical stream starts empty
            Ok(w) => w.wf() && writer.data@.len() == 0 && w.writer.data@ == writer.data@ && w.stream() =~= Seq::<u8>::empty() && w.cursor() == 0
                && w.writer.failed@ == writer.failed@,
            Err(_) => true },
//@body_start
        proof { reveal(PagedWriter::stream); reveal(phys); reveal(unphys); }
//@endfn

//@fn src/paged_writer.rs PagedWriter read_current_page serves=C11,C16 ret=r
//@rw std::io::Result<\(\)> ==> std::result::Result<(), IoError>
//@sig
        requires old(self).dl() % 1024 == 0, old(self).writer.pos % 1024 == 0, old(self).writer.pos <= old(self).dl(),
        ensures final(self).writer.data@ == old(self).writer.data@, final(self).offset == old(self).offset,
            match r {
            // for every short-read schedule of the device: the device page at pos, or zeros if absent
            Ok(_) => final(self).no_new_fault(old(self))
                && (old(self).page_exists() ==> final(self).writer.pos == old(self).writer.pos + 1024
                        && final(self).page_buffer@ =~= old(self).writer.data@.subrange(old(self).writer.pos as int, old(self).writer.pos + 1024))
                && (!old(self).page_exists() ==> final(self).writer.pos == old(self).writer.pos
                        && final(self).page_buffer@ =~= Seq::new(1024, |i: int| 0u8)),
            Err(_) => final(self).writer.failed@ },
//@body_start
        let ghost pos0 = self.writer.pos as int;
        let ghost data0 = self.writer.data@;
        let ghost f0 = self.writer.failed@;
//@loop 0 before hdr=while !unread\.is_empty\(\)
        let ghost whole = final(unread)@;   // prophecy: final content of the whole page buffer
        let ghost done: Seq<u8> = Seq::empty();
//@loop 0 head
            invariant
                self.writer.data@ == data0, data0 == old(self).writer.data@, data0.len() % 1024 == 0, pos0 % 1024 == 0, pos0 <= data0.len(),
                self.offset == old(self).offset, self.writer.failed@ == f0,
                done.len() + unread@.len() == 1024,
                self.writer.pos == pos0 + done.len(),
                done.len() > 0 ==> pos0 < data0.len(),
                done =~= data0.subrange(pos0, pos0 + done.len()),
                whole =~= done + final(unread)@,
            ensures
                unread@.len() > 0 ==> pos0 + done.len() >= data0.len(),
            decreases unread@.len()
//@stmt 0 before unread = &mut unread\[read\.\.\]
            proof { done = done + unread@.subrange(0, read as int); }
//@call fill 0 before
        let ghost un = unread@;
//@call fill 0 after
        proof {
            assert(self.page_buffer@ =~= whole);
            assert(whole =~= done + Seq::new(un.len(), |i: int| 0u8));
            if done.len() > 0 && un.len() > 0 {
                // loop left through `break`: device exhausted in the middle of a page: impossible
                assert(pos0 + done.len() >= data0.len());
                assert(false);
            }
        }
//@endfn

//@fn src/paged_writer.rs PagedWriter write trait=Write serves=C11,C16,C02 ret=r
//@rw std::io::Result<usize> ==> std::result::Result<usize, IoError>
//@rw #\[cfg\(not\(feature = "crc32c"\)\)\] ==> <empty>
//@rw #\[cfg\(feature = "crc32c"\)\]\s*let crc = [^;]*; ==> <empty>
//@rw crc\.to_be_bytes\(\) ==> shim_u32_to_be_bytes(crc)
//@sig
        requires old(self).wf(),
        ensures match r {
            Ok(n) => final(self).wf() && final(self).no_new_fault(old(self))
                // short write at the page boundary only
                && n == (if buf@.len() <= 1020 - old(self).offset { buf@.len() as int } else { 1020 - old(self).offset })
                && final(self).dl() <= old(self).dl() + 1024 && final(self).dl() >= old(self).dl()
                && (old(self).offset + n < 1020 ==> final(self).dl() == old(self).dl() && final(self).offset == old(self).offset + n)
                && (old(self).offset + n == 1020 ==> final(self).offset == 0)
                && final(self).cursor() == old(self).cursor() + n
                && final(self).stream().len() >= old(self).stream().len()
                // overwriting inside the existing stream does not grow it
                && (old(self).cursor() + n <= old(self).stream().len() ==> final(self).stream().len() == old(self).stream().len())
                // frame over the whole view: written range = buf, everything else unchanged, new page zero
                && (forall|i: int| 0 <= i < final(self).stream().len() ==> #[trigger] final(self).stream()[i] ==
                        (if old(self).cursor() <= i < old(self).cursor() + n { buf@[i - old(self).cursor()] }
                         else if i < old(self).stream().len() { old(self).stream()[i] } else { 0u8 })),
            Err(_) => final(self).writer.failed@ },
//@stmt 0 after self\.offset \+= writeable_bytes
        let ghost mid = *self;
        proof {
            assert(mid.writer == old(self).writer);
            assert forall|i: int| 0 <= i < 1020 implies #[trigger] mid.page_buffer@[i] ==
                (if old(self).offset <= i < old(self).offset + writeable_bytes { buf@[i - old(self).offset] } else { old(self).page_buffer@[i] }) by { }
        }
//@call write_all 0 before
            let ghost d0 = self.writer.data@;
            let ghost pb = self.page_buffer@;
//@call read_current_page 0 before
            let ghost d1 = self.writer.data@;
//@call seek 0 after
            proof {
                let p = old(self).p();
                be4_len(crc);
                assert(pb.subrange(0, 1020) =~= mid.page_buffer@.subrange(0, 1020));
                assert(pb.subrange(1020, 1024) =~= be4(crc));
                assert(sealed_page(pb));
                assert(d1.len() == (if old(self).page_exists() { d0.len() } else { d0.len() + 1024 }));
                assert forall|k: int| 0 <= k < d1.len() / 1024 implies sealed_page(#[trigger] page(d1, k)) by {
                    if k == p { assert(page(d1, k) =~= pb); } else { assert(page(d1, k) =~= page(d0, k)); }
                }
                assert(self.p() == p + 1);
                assert forall|i: int| 0 <= i < self.stream().len() implies #[trigger] self.stream()[i] ==
                        (if old(self).cursor() <= i < old(self).cursor() + writeable_bytes { buf@[i - old(self).cursor()] }
                         else if i < old(self).stream().len() { old(self).stream()[i] } else { 0u8 }) by {
                    let k = i / 1020;
                    if k == p {
                        assert(d1[1024 * k + i % 1020] == pb[i % 1020]);
                    } else if k == p + 1 {
                    } else {
                        assert(d1[1024 * k + i % 1020] == d0[1024 * k + i % 1020]);
                    }
                }
            }
//@tail
        proof {
            if mid.offset != 1020 {
                assert forall|i: int| 0 <= i < self.stream().len() implies #[trigger] self.stream()[i] ==
                        (if old(self).cursor() <= i < old(self).cursor() + writeable_bytes { buf@[i - old(self).cursor()] }
                         else if i < old(self).stream().len() { old(self).stream()[i] } else { 0u8 }) by { }
            }
        }
//@body_start
        proof { reveal(PagedWriter::stream); reveal(phys); reveal(unphys); }
//@endfn

    /// std::io::Write::write_all (provided method of the trait), re-stated over the extracted `write` and
    /// verified against its contract: loops until the buffer is consumed, Ok(0) is an error
    fn write_all(&mut self, buf: &[u8]) -> (r: std::result::Result<(), IoError>)
        requires old(self).wf(),
        ensures match r {
            Ok(_) => final(self).wf() && final(self).no_new_fault(old(self)) && final(self).cursor() == old(self).cursor() + buf@.len()
                && appended(*old(self), *final(self), buf@)
                // the device grows by at most one page per page boundary crossed
                && final(self).dl() <= old(self).dl() + 1024 * ((old(self).offset + buf@.len()) / 1020)
                && final(self).dl() >= old(self).dl()
                && final(self).offset == (old(self).offset + buf@.len()) % 1020
                && (old(self).cursor() + buf@.len() <= old(self).stream().len() ==> final(self).stream().len() == old(self).stream().len())
                && final(self).stream().len() >= old(self).stream().len()
                && (forall|i: int| 0 <= i < final(self).stream().len() ==> #[trigger] final(self).stream()[i] ==
                        (if old(self).cursor() <= i < old(self).cursor() + buf@.len() { buf@[i - old(self).cursor()] }
                         else if i < old(self).stream().len() { old(self).stream()[i] } else { 0u8 })),
            Err(_) => true },
    {
        proof { reveal(PagedWriter::stream); reveal(phys); reveal(unphys); }
        let mut done: usize = 0;
        while done < buf.len()
            invariant
                done <= buf@.len(), self.wf(),
                self.no_new_fault(old(self)),
                self.dl() <= old(self).dl() + 1024 * ((old(self).offset + done) / 1020), self.dl() >= old(self).dl(),
                self.offset == (old(self).offset + done) % 1020,
                old(self).cursor() + done <= old(self).stream().len() ==> self.stream().len() == old(self).stream().len(),
                self.cursor() == old(self).cursor() + done,
                self.stream().len() >= old(self).stream().len(),
                forall|i: int| 0 <= i < self.stream().len() ==> #[trigger] self.stream()[i] ==
                        (if old(self).cursor() <= i < old(self).cursor() + done { buf@[i - old(self).cursor()] }
                         else if i < old(self).stream().len() { old(self).stream()[i] } else { 0u8 }),
            decreases buf@.len() - done
        {
            proof { reveal(PagedWriter::stream); reveal(phys); reveal(unphys); }
            let n = self.write(vstd::slice::slice_subrange(buf, done, buf.len()))?;
            if n == 0 { return Err(IoError::new(ErrorKind::WriteZero, "")); }
            done = done + n;
        }
        proof { reveal(app_seq); reveal(PagedWriter::stream); }
        Ok(())
    }

//@fn src/paged_writer.rs PagedWriter physical_seek serves=C11,C16,C02,C06 ret=r
//@sig
        requires old(self).wf(),
        ensures match r {
            // accepted iff inside the flushed file and not inside checksum bytes
            Ok(_) => final(self).wf() && final(self).no_new_fault(old(self)) && pos <= 1024 * old(self).npages() && pos % 1024 < 1020
                && final(self).stream() =~= old(self).stream()
                && final(self).dl() <= old(self).dl() + 1024 && final(self).dl() >= old(self).dl()
                && final(self).cursor() == unphys(pos as int),
            Err(e) => final(self).writer.failed@ || pos > 1024 * old(self).npages() || pos % 1024 >= 1020 },
//@call flush 0 after
        let ghost fl = *self;
//@tail
        proof {
            let d = self.writer.data@;
            assert(d == fl.writer.data@);
            assert forall|i: int| 0 <= i < self.stream().len() implies self.stream()[i] == old(self).stream()[i] by {
                if i / 1020 == self.p() { assert(self.page_buffer@[i % 1020] == d[1024 * (i / 1020) + i % 1020]); }
            }
        }
//@body_start
        proof { reveal(PagedWriter::stream); reveal(phys); reveal(unphys); }
//@endfn

//@fn src/paged_writer.rs PagedWriter physical_size serves=C11,C16,C02 ret=r
//@sig
        requires old(self).wf(),
        ensures match r {
            Ok(sz) => final(self).wf() && final(self).no_new_fault(old(self)) && final(self).stream() =~= old(self).stream() && final(self).cursor() == old(self).cursor()
                // size of the flushed file: whole pages, 1024 per 1020 payload bytes
                && sz == 1024 * old(self).npages() && sz == final(self).dl()
                && final(self).dl() <= old(self).dl() + 1024 && final(self).dl() >= old(self).dl()
                && (forall|i: int| 0 <= i < 1020 * old(self).npages() ==> final(self).writer.data@[phys(i)] == #[trigger] old(self).stream()[i]),
            Err(_) => final(self).writer.failed@ },
//@body_start
        proof { reveal(PagedWriter::stream); reveal(phys); reveal(unphys); }
//@endfn

//@fn src/paged_writer.rs PagedWriter physical_position serves=C11,C16,C02,C06,C01 ret=r
//@sig
        requires old(self).wf(),
        ensures match r {
            // reported physical position = phys(logical cursor): never inside checksum bytes
            Ok(p) => final(self).wf() && final(self).no_new_fault(old(self)) && final(self).stream() == old(self).stream() && final(self).cursor() == old(self).cursor()
                    && p == phys(old(self).cursor()) && p % 1024 < 1020 && final(self).dl() == old(self).dl(),
            Err(_) => final(self).writer.failed@ },
//@body_start
        proof { reveal(PagedWriter::stream); reveal(phys); reveal(unphys); }
//@endfn

//@fn src/paged_writer.rs PagedWriter align serves=C11,C16,C02 ret=r
//@rw &zeros\[mod_offset\.\.\] ==> vstd::slice::slice_subrange(&zeros, mod_offset, 4)
//@tail
        proof {
            reveal(app_seq); reveal(PagedWriter::stream);
            if mod_offset != 0 {
                assert(zeros@.subrange(mod_offset as int, 4) =~= Seq::new((4 - mod_offset) as nat, |i: int| 0u8));
            } else {
                lemma_appended_refl(*self);
                assert(Seq::new(0nat, |i: int| 0u8) =~= Seq::<u8>::empty());
            }
        }
//@sig
        requires old(self).wf(),
        ensures match r {
            Ok(_) => final(self).wf() && final(self).no_new_fault(old(self)) && final(self).cursor() % 4 == 0 && final(self).cursor() - old(self).cursor() < 4
                && final(self).cursor() >= old(self).cursor()
                && final(self).stream().len() >= old(self).stream().len()
                // only zero bytes are written at the cursor, nothing else changes
                && appended(*old(self), *final(self), Seq::new((final(self).cursor() - old(self).cursor()) as nat, |i: int| 0u8))
                && final(self).dl() <= old(self).dl() + 1024 && final(self).dl() >= old(self).dl(),
            Err(_) => true },
//@endfn

//@fn src/paged_writer.rs PagedWriter flush trait=Write serves=C11,C16,C02 ret=r
//@rw std::io::Result<\(\)> ==> std::result::Result<(), IoError>
//@rw #\[cfg\(not\(feature = "crc32c"\)\)\] ==> <empty>
//@rw #\[cfg\(feature = "crc32c"\)\]\s*let crc = [^;]*; ==> <empty>
//@rw crc\.to_be_bytes\(\) ==> shim_u32_to_be_bytes(crc)
//@sig
        requires old(self).wf()
        ensures match r {
            Ok(_) => final(self).wf() && final(self).no_new_fault(old(self)) && final(self).stream() =~= old(self).stream() && final(self).cursor() == old(self).cursor()
                // C11: after a flush the device payload IS the logical stream, whole pages, all sealed
                && final(self).dl() == 1024 * old(self).npages()
                && final(self).dl() <= old(self).dl() + 1024 && final(self).dl() >= old(self).dl()
                && (forall|i: int| 0 <= i < 1020 * old(self).npages() ==> final(self).writer.data@[phys(i)] == #[trigger] old(self).stream()[i]),
            Err(_) => final(self).writer.failed@ },
//@call write_all 0 before
            let ghost d0 = self.writer.data@;
//@call seek 0 after
            proof {
                let d1 = self.writer.data@;
                let pb = self.page_buffer@;
                let p = old(self).p();
                be4_len(crc);
                assert(pb.subrange(0, 1020) =~= old(self).page_buffer@.subrange(0, 1020));
                assert(pb.subrange(1020, 1024) =~= be4(crc));
                assert(sealed_page(pb));
                assert(d1.len() == (if old(self).page_exists() { d0.len() } else { d0.len() + 1024 }));
                assert forall|k: int| 0 <= k < d1.len() / 1024 implies sealed_page(#[trigger] page(d1, k)) by {
                    if k == p { assert(page(d1, k) =~= pb); } else { assert(page(d1, k) =~= page(d0, k)); }
                }
                assert(self.page_exists());
                assert forall|i: int| 0 <= i < 1020 implies self.page_buffer@[i] == d1[self.writer.pos + i] by { }
                assert(self.npages() == old(self).npages());
                assert forall|i: int| 0 <= i < 1020 * old(self).npages() implies
                    d1[1024 * (i / 1020) + i % 1020] == #[trigger] old(self).stream()[i] by {
                    if i / 1020 == p { } else { assert(d1[1024 * (i / 1020) + i % 1020] == d0[1024 * (i / 1020) + i % 1020]); }
                }
            }
//@body_start
        proof { reveal(PagedWriter::stream); reveal(phys); reveal(unphys); }
//@endfn

    // canary (vacuity guard): false postcondition on the real physical_position must fail
//@fn src/paged_writer.rs PagedWriter physical_position rename=physical_position__canary canary ret=r
//@sig
        requires old(self).wf(),
        ensures match r { Ok(p) => p == phys(old(self).cursor()) + 4, Err(_) => true },
//@endfn
}

/// C11 corollary: right after a successful flush, logical(device) is the logical stream
proof fn theorem_flush_payload_is_stream(w: PagedWriter, d: Seq<u8>, s: Seq<u8>)
    requires d.len() == 1024 * w.npages(), s == w.stream(), w.npages() >= 0,
        forall|i: int| 0 <= i < 1020 * w.npages() ==> d[phys(i)] == #[trigger] s[i],
    ensures logical(d) =~= s
{
    reveal(PagedWriter::stream); reveal(phys);
    assert(d.len() / 1024 == w.npages());
}

// ---- append / patch algebra over the logical stream view (used by the layers above) -----------
/// (ns, nc) is (os, oc) with `bytes` written at oc (overwriting or extending; new pages zero filled), cursor advanced
#[verifier::opaque]
pub open spec fn app_seq(os: Seq<u8>, oc: int, ns: Seq<u8>, nc: int, bytes: Seq<u8>) -> bool {
    &&& nc == oc + bytes.len()
    &&& ns.len() >= os.len()
    &&& nc <= ns.len()
    // overwriting inside the existing stream does not grow it
    &&& (oc + bytes.len() <= os.len() ==> ns.len() == os.len())
    &&& forall|i: int| 0 <= i < ns.len() ==> #[trigger] ns[i] ==
            (if oc <= i < oc + bytes.len() { bytes[i - oc] } else if i < os.len() { os[i] } else { 0u8 })
}
pub open spec fn appended(o: PagedWriter, n: PagedWriter, bytes: Seq<u8>) -> bool {
    // the cursor equation is visible to callers; the per-byte content relation is opaque and only handled by the lemmas below
    n.cursor() == o.cursor() + bytes.len() && app_seq(o.stream(), o.cursor(), n.stream(), n.cursor(), bytes)
}
/// what `appended` means byte by byte (for callers that need to look inside)
pub proof fn lemma_appended_content(o: PagedWriter, n: PagedWriter, bytes: Seq<u8>)
    requires appended(o, n, bytes)
    ensures n.stream().len() >= o.stream().len(), n.cursor() <= n.stream().len(),
        o.cursor() + bytes.len() <= o.stream().len() ==> n.stream().len() == o.stream().len(),
        forall|i: int| 0 <= i < n.stream().len() ==> #[trigger] n.stream()[i] ==
            (if o.cursor() <= i < o.cursor() + bytes.len() { bytes[i - o.cursor()] } else if i < o.stream().len() { o.stream()[i] } else { 0u8 })
{ reveal(app_seq); }
pub proof fn lemma_app_seq_trans(s1: Seq<u8>, c1: int, s2: Seq<u8>, c2: int, s3: Seq<u8>, c3: int, x: Seq<u8>, y: Seq<u8>)
    requires app_seq(s1, c1, s2, c2, x), app_seq(s2, c2, s3, c3, y), c1 >= 0
    ensures app_seq(s1, c1, s3, c3, x + y)
{
    reveal(app_seq);
    let xy = x + y;
    assert forall|i: int| 0 <= i < s3.len() implies #[trigger] s3[i] ==
            (if c1 <= i < c1 + xy.len() { xy[i - c1] } else if i < s1.len() { s1[i] } else { 0u8 }) by {
        if c2 <= i < c2 + y.len() {
            assert(xy[i - c1] == y[i - c1 - x.len()]);
        } else if i < s2.len() {
            assert(s3[i] == s2[i]);
            if c1 <= i < c1 + x.len() { assert(xy[i - c1] == x[i - c1]); }
        } else { }
    }
}
pub proof fn lemma_appended_trans(a: PagedWriter, b: PagedWriter, c: PagedWriter, x: Seq<u8>, y: Seq<u8>)
    requires appended(a, b, x), appended(b, c, y), a.cursor() >= 0
    ensures appended(a, c, x + y)
{
    lemma_app_seq_trans(a.stream(), a.cursor(), b.stream(), b.cursor(), c.stream(), c.cursor(), x, y);
}
pub proof fn lemma_appended_refl(a: PagedWriter)
    requires a.wf()
    ensures appended(a, a, Seq::<u8>::empty())
{ reveal(app_seq); reveal(PagedWriter::stream); }
/// same stream content, cursor moved (physical_seek)
pub open spec fn moved(o: PagedWriter, n: PagedWriter, c: int) -> bool { n.stream() == o.stream() && n.cursor() == c }
/// overwrite of an already written prefix: x ++ y was written at c0; go back to c0, write x2 (|x2| == |x|), return to the end
pub proof fn lemma_patch_seq(s0: Seq<u8>, c0: int, s3: Seq<u8>, s5: Seq<u8>, x: Seq<u8>, y: Seq<u8>, x2: Seq<u8>)
    requires app_seq(s0, c0, s3, c0 + x.len() + y.len(), x + y), app_seq(s3, c0, s5, c0 + x2.len(), x2), x2.len() == x.len(), c0 >= 0
    ensures app_seq(s0, c0, s5, c0 + x.len() + y.len(), x2 + y)
{
    reveal(app_seq);
    let xy = x + y; let x2y = x2 + y;
    assert forall|i: int| 0 <= i < s5.len() implies #[trigger] s5[i] ==
            (if c0 <= i < c0 + x2y.len() { x2y[i - c0] } else if i < s0.len() { s0[i] } else { 0u8 }) by {
        if c0 <= i < c0 + x2.len() {
            assert(x2y[i - c0] == x2[i - c0]);
        } else if i < s3.len() {
            assert(s5[i] == s3[i]);
            if c0 + x.len() <= i < c0 + xy.len() { assert(xy[i - c0] == y[i - c0 - x.len()]); assert(x2y[i - c0] == y[i - c0 - x2.len()]); }
        } else { }
    }
}
pub proof fn lemma_patch_prefix(a: PagedWriter, s3: PagedWriter, s4: PagedWriter, s5: PagedWriter, s6: PagedWriter, x: Seq<u8>, y: Seq<u8>, x2: Seq<u8>)
    requires appended(a, s3, x + y), moved(s3, s4, a.cursor()), appended(s4, s5, x2), x2.len() == x.len(),
        moved(s5, s6, a.cursor() + x.len() + y.len()), a.cursor() >= 0
    ensures appended(a, s6, x2 + y)
{
    lemma_patch_seq(a.stream(), a.cursor(), s3.stream(), s5.stream(), x, y, x2);
}
/// the logical cursor fits comfortably into u64 (device sizes fit off_t)
pub proof fn lemma_cursor_bound(w: PagedWriter)
    requires w.wf()
    ensures 0 <= w.cursor() <= 0x7fff_ffff_ffff_ffff + 1020
{}
/// physical <-> logical translation used by seeks to reported positions
pub proof fn lemma_phys_roundtrip(c: int)
    requires c >= 0
    ensures phys(c) % 1024 < 1020, unphys(phys(c)) == c, phys(c) >= 0
{
    reveal(phys); reveal(unphys);
    let q = c / 1020; let r = c % 1020;
    vstd::arithmetic::div_mod::lemma_fundamental_div_mod(c, 1020);
    vstd::arithmetic::div_mod::lemma_fundamental_div_mod_converse(q * 1024 + r, 1024, q, r);
}
