
//@item src/paged_writer.rs const PAGE_SIZE
//@enditem
//@item src/paged_writer.rs const CRC_SIZE
//@enditem
//@item src/paged_writer.rs const PAGE_PAYLOAD_SIZE
//@enditem
proof fn const_check() ensures PAGE_SIZE == 1024, CRC_SIZE == 4, PAGE_PAYLOAD_SIZE == 1020 {}

//@item src/paged_writer.rs struct PagedWriter
//@rw <T: Write \+ Read \+ Seek> ==> <empty>
//@rw writer: T, ==> writer: Dev,
//@rw \[u8; PAGE_SIZE as usize\] ==> [u8; 1024]
//@rw #\[cfg\(not\(feature = "crc32c"\)\)\] ==> <empty>
//@enditem

impl PagedWriter {
    pub open spec fn dl(&self) -> int { self.writer.data@.len() as int }
    pub open spec fn p(&self) -> int { self.writer.pos as int / 1024 }
    pub open spec fn page_exists(&self) -> bool { self.writer.pos < self.writer.data@.len() }

    /// representation invariant
    pub open spec fn wf(&self) -> bool {
        &&& self.dl() % 1024 == 0
        &&& self.dl() <= 0x7fff_ffff_ffff_ffff
        &&& self.writer.pos % 1024 == 0
        &&& self.writer.pos <= self.dl()
        &&& self.offset < 1020
        // every device page carries a valid checksum
        &&& all_sealed(self.writer.data@)
        // bytes at/after the cursor are untouched since the page was loaded
        &&& (self.page_exists() ==> forall|i: int| self.offset <= i < 1020 ==> self.page_buffer@[i] == self.writer.data@[self.writer.pos + i])
        &&& (!self.page_exists() ==> forall|i: int| self.offset <= i < 1020 ==> self.page_buffer@[i] == 0u8)
    }
    /// number of payload pages of the logical stream
    pub open spec fn npages(&self) -> int {
        if self.dl() / 1024 >= self.p() + (if self.offset > 0 { 1int } else { 0int }) { self.dl() / 1024 } else { self.p() + 1 }
    }
    /// abstract state: the logical byte stream written so far, page granular (zero filled)
    pub open spec fn stream(&self) -> Seq<u8> { stream_of(self.writer.data@, self.writer.pos as int, self.offset as int, self.page_buffer@) }
    /// logical cursor
    pub open spec fn cursor(&self) -> int { 1020 * self.p() + self.offset }
    /// C15: no device write so far has carried a non-zero byte for device bytes 32..40 (the header's XML-length field)
    pub open spec fn hist_clean(&self) -> bool { self.writer.dirty@ == 0 }
    /// C15: the history is clean, the field is zero on the device, and the page buffer cannot put anything non-zero there either
    pub open spec fn quiet(&self) -> bool { quiet_of(self.writer.dirty@, self.writer.data@, self.writer.pos as int, self.page_buffer@) }
    /// C15 frame of an operation that writes `bytes` at logical cursor `c`: as long as it carries nothing non-zero for bytes 32..40
    /// the history stays clean whatever the outcome, and a successful operation leaves the writer quiet
    pub open spec fn c15_keeps(o: &Self, n: &Self, ok: bool, c: int, bytes: Seq<u8>) -> bool {
        (o.quiet() && !hdr_touch(c, bytes)) ==> (if ok { n.quiet() } else { n.hist_clean() })
    }
    /// C15 frame of any operation that only writes at logical offsets >= 40 (everything except the file header)
    pub open spec fn c15_far(o: &Self, n: &Self, ok: bool) -> bool {
        (o.quiet() && o.cursor() >= 40) ==> (if ok { n.quiet() } else { n.hist_clean() })
    }
    /// same for operations that write nothing new (seek, flush, size, position)
    pub open spec fn c15_same(o: &Self, n: &Self, ok: bool) -> bool {
        o.quiet() ==> (if ok { n.quiet() } else { n.hist_clean() })
    }
    /// C16: an operation that reports success has seen no device error
    pub open spec fn no_new_fault(&self, o: &Self) -> bool { self.writer.failed@ == o.writer.failed@ }

//@fn src/paged_writer.rs PagedWriter new serves=C11,C16,C02,C15,C06 ret=r
//@rw mut writer: T ==> mut writer: Dev
//@rw \[0_u8; PAGE_SIZE as usize\] ==> [0_u8; 1024]
//@rw #\[cfg\(not\(feature = "crc32c"\)\)\] ==> <empty>
//@sig
        ensures match r {
            // only an empty device is accepted; the logical stream starts empty
            Ok(w) => w.wf() && writer.data@.len() == 0 && w.writer.data@ == writer.data@ && w.stream() =~= Seq::<u8>::empty() && w.cursor() == 0
                && w.writer.failed@ == writer.failed@
                /*[C15]*/ && w.writer.dirty@ == writer.dirty@ && w.writer.snap@ == writer.snap@ && (writer.dirty@ == 0 ==> w.quiet()),
            Err(_) => true },
//@body_start
        proof { reveal(stream_of); reveal(phys); reveal(unphys); reveal(quiet_of); }
//@endfn

//@fn src/paged_writer.rs PagedWriter read_current_page serves=C11,C16,C15,C06 ret=r
//@rw std::io::Result<\(\)> ==> std::result::Result<(), IoError>
//@sig
        requires old(self).dl() % 1024 == 0, old(self).writer.pos % 1024 == 0, old(self).writer.pos <= old(self).dl(),
        ensures final(self).writer.data@ == old(self).writer.data@, final(self).offset == old(self).offset,
            final(self).writer.dirty@ == old(self).writer.dirty@, final(self).writer.snap@ == old(self).writer.snap@,
            match r {
            // for every short-read schedule of the device: the device page at pos, or zeros if absent
            Ok(_) => final(self).no_new_fault(old(self))
                && (old(self).page_exists() ==> final(self).writer.pos == old(self).writer.pos + 1024
                        && final(self).page_buffer@ =~= old(self).writer.data@.subrange(old(self).writer.pos as int, old(self).writer.pos + 1024))
                && (!old(self).page_exists() ==> final(self).writer.pos == old(self).writer.pos
                        && final(self).page_buffer@ =~= Seq::new(1024, |i: int| 0u8)),
            Err(_) => final(self).writer.failed@ },
//@body_start
        let ghost pos0 = self.writer.pos as int;
        let ghost data0 = self.writer.data@;
        let ghost f0 = self.writer.failed@;
//@loop 0 before hdr=while !unread\.is_empty\(\)
        let ghost whole = final(unread)@;   // prophecy: final content of the whole page buffer
        let ghost done: Seq<u8> = Seq::empty();
//@loop 0 head
            invariant
                self.writer.data@ == data0, data0 == old(self).writer.data@, data0.len() % 1024 == 0, pos0 % 1024 == 0, pos0 <= data0.len(),
                self.offset == old(self).offset, self.writer.failed@ == f0,
                self.writer.dirty@ == old(self).writer.dirty@, self.writer.snap@ == old(self).writer.snap@,
                done.len() + unread@.len() == 1024,
                self.writer.pos == pos0 + done.len(),
                done.len() > 0 ==> pos0 < data0.len(),
                done =~= data0.subrange(pos0, pos0 + done.len()),
                whole =~= done + final(unread)@,
            ensures
                unread@.len() > 0 ==> pos0 + done.len() >= data0.len(),
            decreases unread@.len()
//@stmt 0 before unread = &mut unread\[read\.\.\]
            proof { done = done + unread@.subrange(0, read as int); }
//@call fill 0 before
        let ghost un = unread@;
//@call fill 0 after
        proof {
            assert(self.page_buffer@ =~= whole);
            assert(whole =~= done + Seq::new(un.len(), |i: int| 0u8));
            if done.len() > 0 && un.len() > 0 {
                // loop left through `break`: device exhausted in the middle of a page: impossible
                assert(pos0 + done.len() >= data0.len());
                assert(false);
            }
        }
//@endfn

//@fn src/paged_writer.rs PagedWriter write trait=Write serves=C11,C16,C02,C15,C06 ret=r
//@rw std::io::Result<usize> ==> std::result::Result<usize, IoError>
//@rw #\[cfg\(not\(feature = "crc32c"\)\)\] ==> <empty>
//@rw #\[cfg\(feature = "crc32c"\)\]\s*let crc = [^;]*; ==> <empty>
//@rw crc\.to_be_bytes\(\) ==> shim_u32_to_be_bytes(crc)
//@sig
        requires old(self).wf(),
        ensures match r {
            Ok(n) => final(self).wf() && final(self).no_new_fault(old(self))
                // short write at the page boundary only
                && n == (if buf@.len() <= 1020 - old(self).offset { buf@.len() as int } else { 1020 - old(self).offset })
                && final(self).dl() <= old(self).dl() + 1024 && final(self).dl() >= old(self).dl()
                && (old(self).offset + n < 1020 ==> final(self).dl() == old(self).dl() && final(self).offset == old(self).offset + n)
                && (old(self).offset + n == 1020 ==> final(self).offset == 0)
                && final(self).cursor() == old(self).cursor() + n
                && final(self).stream().len() >= old(self).stream().len()
                // overwriting inside the existing stream does not grow it
                && (old(self).cursor() + n <= old(self).stream().len() ==> final(self).stream().len() == old(self).stream().len())
                // frame over the whole view: written range = buf, everything else unchanged, new page zero
                && (forall|i: int| 0 <= i < final(self).stream().len() ==> #[trigger] final(self).stream()[i] ==
                        (if old(self).cursor() <= i < old(self).cursor() + n { buf@[i - old(self).cursor()] }
                         else if i < old(self).stream().len() { old(self).stream()[i] } else { 0u8 }))
                // the same, in the append algebra of the layers above
                && appended(*old(self), *final(self), buf@.subrange(0, n as int))
                // no device operation at all unless the page fills up
                && (old(self).offset + n < 1020 ==> final(self).writer == old(self).writer),
            // an error can only come from the device, and the device is only touched when the page fills up
            Err(_) => final(self).writer.failed@ && old(self).offset + buf@.len() >= 1020 },
            /*[C15]*/ PagedWriter::c15_keeps(old(self), final(self), r is Ok, old(self).cursor(), buf@),
//@body_start
        proof { lemma_aligned_step(old(self).writer.pos as int, old(self).dl()); }
//@stmt 0 after self\.offset \+= writeable_bytes
        let ghost mid = *self;
        proof {
            assert(mid.writer == old(self).writer);
            assert forall|i: int| 0 <= i < 1020 implies #[trigger] mid.page_buffer@[i] ==
                (if old(self).offset <= i < old(self).offset + writeable_bytes { buf@[i - old(self).offset] } else { old(self).page_buffer@[i] }) by { }
        }
//@call write_all 0 before
            let ghost pb = self.page_buffer@;
            proof {
                be4_len(crc);
                assert(pb.subrange(0, 1020) =~= mid.page_buffer@.subrange(0, 1020));
                assert(pb.subrange(1020, 1024) =~= be4(crc));
                // C15: the page that goes to the device carries nothing for bytes 32..40 unless the caller's bytes do
                if old(self).quiet() && !hdr_touch(old(self).cursor(), buf@) { PagedWriter::lemma_c15_page(*old(self), buf@, writeable_bytes as int, pb); }
            }
//@call seek 0 after
            proof {
                PagedWriter::lemma_write_full(*old(self), *self, buf@, writeable_bytes as int, pb);
                if old(self).quiet() && !hdr_touch(old(self).cursor(), buf@) { PagedWriter::lemma_c15_after_full(*old(self), *self, pb); }
            }
//@tail
        proof {
            if mid.offset != 1020 {
                PagedWriter::lemma_write_small(*old(self), *self, buf@, writeable_bytes as int);
                if old(self).quiet() && !hdr_touch(old(self).cursor(), buf@) { PagedWriter::lemma_c15_small(*old(self), *self, buf@, writeable_bytes as int); }
            }
        }
//@endfn

    /// `write`, case "the page does not fill up": only the page buffer changes
    pub proof fn lemma_write_small(o: PagedWriter, n: PagedWriter, buf: Seq<u8>, wb: int)
        requires o.wf(), 0 <= wb, o.offset + wb < 1020, n.writer == o.writer, n.offset == o.offset + wb,
            forall|i: int| 0 <= i < 1020 ==> #[trigger] n.page_buffer@[i] == (if o.offset <= i < o.offset + wb { buf[i - o.offset] } else { o.page_buffer@[i] }),
        ensures n.wf(), n.cursor() == o.cursor() + wb, n.stream().len() >= o.stream().len(),
            o.cursor() + wb <= o.stream().len() ==> n.stream().len() == o.stream().len(),
            forall|i: int| 0 <= i < n.stream().len() ==> #[trigger] n.stream()[i] ==
                (if o.cursor() <= i < o.cursor() + wb { buf[i - o.cursor()] } else if i < o.stream().len() { o.stream()[i] } else { 0u8 }),
            wb <= buf.len() ==> appended(o, n, buf.subrange(0, wb)),
    {
        reveal(stream_of); reveal(app_seq);
    }
    /// `write`, case "the page fills up": the sealed page `pb` goes to the device at the page position, the next page is loaded
    pub proof fn lemma_write_full(o: PagedWriter, n: PagedWriter, buf: Seq<u8>, wb: int, pb: Seq<u8>)
        requires o.wf(), 0 <= wb, o.offset + wb == 1020, pb.len() == 1024,
            forall|i: int| 0 <= i < 1020 ==> #[trigger] pb[i] == (if o.offset <= i { buf[i - o.offset] } else { o.page_buffer@[i] }),
            pb.subrange(1020, 1024) =~= be4(crc32c(pb.subrange(0, 1020))),
            // device after write_all(pb) at the page position
            n.writer.data@ =~= o.writer.data@.subrange(0, o.writer.pos as int) + pb
                + (if o.writer.pos + 1024 <= o.writer.data@.len() { o.writer.data@.subrange(o.writer.pos + 1024, o.writer.data@.len() as int) } else { Seq::<u8>::empty() }),
            n.writer.data@.len() <= 0x7fff_ffff_ffff_ffff,
            n.writer.pos == o.writer.pos + 1024, n.offset == 0,
            // read_current_page: the next device page, or zeros when there is none
            n.writer.pos < n.writer.data@.len() ==> n.page_buffer@ =~= n.writer.data@.subrange(n.writer.pos as int, n.writer.pos + 1024),
            n.writer.pos >= n.writer.data@.len() ==> n.page_buffer@ =~= Seq::new(1024, |i: int| 0u8),
        ensures n.wf(), n.cursor() == o.cursor() + wb, n.stream().len() >= o.stream().len(),
            n.dl() <= o.dl() + 1024, n.dl() >= o.dl(),
            o.cursor() + wb <= o.stream().len() ==> n.stream().len() == o.stream().len(),
            forall|i: int| 0 <= i < n.stream().len() ==> #[trigger] n.stream()[i] ==
                (if o.cursor() <= i < o.cursor() + wb { buf[i - o.cursor()] } else if i < o.stream().len() { o.stream()[i] } else { 0u8 }),
            wb <= buf.len() ==> appended(o, n, buf.subrange(0, wb)),
    {
        reveal(stream_of); reveal(app_seq);
        let p = o.p(); let d0 = o.writer.data@; let d1 = n.writer.data@;
        assert(sealed_page(pb));
        assert(d1.len() == (if o.page_exists() { d0.len() } else { d0.len() + 1024 }));
        assert forall|k: int| 0 <= k < d1.len() / 1024 implies sealed_page(#[trigger] page(d1, k)) by {
            if k == p { assert(page(d1, k) =~= pb); } else { assert(page(d1, k) =~= page(d0, k)); }
        }
        assert(n.p() == p + 1);
        assert forall|i: int| 0 <= i < n.stream().len() implies #[trigger] n.stream()[i] ==
                (if o.cursor() <= i < o.cursor() + wb { buf[i - o.cursor()] } else if i < o.stream().len() { o.stream()[i] } else { 0u8 }) by {
            let k = i / 1020;
            if k == p {
                assert(d1[1024 * k + i % 1020] == pb[i % 1020]);
            } else if k == p + 1 {
            } else {
                assert(d1[1024 * k + i % 1020] == d0[1024 * k + i % 1020]);
            }
        }
    }

    /// C15, page about to be written: it carries nothing non-zero for device bytes 32..40
    pub proof fn lemma_c15_page(o: PagedWriter, buf: Seq<u8>, wb: int, pb: Seq<u8>)
        requires o.wf(), o.quiet(), !hdr_touch(o.cursor(), buf), 0 <= wb <= buf.len(), o.offset + wb == 1020, pb.len() == 1024,
            forall|i: int| 0 <= i < 1020 ==> #[trigger] pb[i] == (if o.offset <= i { buf[i - o.offset] } else { o.page_buffer@[i] }),
        ensures !hdr_touch(o.writer.pos as int, pb), o.writer.dirty@ == 0
    { reveal(quiet_of); }
    pub proof fn lemma_c15_after_full(o: PagedWriter, n: PagedWriter, pb: Seq<u8>)
        requires o.wf(), o.quiet(), !hdr_touch(o.writer.pos as int, pb), pb.len() == 1024, n.writer.dirty@ == 0,
            n.writer.data@ =~= o.writer.data@.subrange(0, o.writer.pos as int) + pb
                + (if o.writer.pos + 1024 <= o.writer.data@.len() { o.writer.data@.subrange(o.writer.pos + 1024, o.writer.data@.len() as int) } else { Seq::<u8>::empty() }),
            n.writer.pos == o.writer.pos + 1024,
        ensures n.quiet()
    {
        reveal(quiet_of);
        let d0 = o.writer.data@; let d1 = n.writer.data@; let pos = o.writer.pos as int;
        assert forall|i: int| 32 <= i < 40 && i < d1.len() implies d1[i] == 0u8 by {
            if pos == 0 { assert(d1[i] == pb[i]); assert(wr_byte(pos, pb, i) == pb[i]); } else { assert(pos >= 1024); assert(d1[i] == d0[i]); }
        }
    }
    pub proof fn lemma_c15_small(o: PagedWriter, n: PagedWriter, buf: Seq<u8>, wb: int)
        requires o.wf(), o.quiet(), !hdr_touch(o.cursor(), buf), 0 <= wb <= buf.len(), o.offset + wb < 1020, n.writer == o.writer,
            forall|i: int| 0 <= i < 1020 ==> #[trigger] n.page_buffer@[i] == (if o.offset <= i < o.offset + wb { buf[i - o.offset] } else { o.page_buffer@[i] }),
        ensures n.quiet(), n.hist_clean()
    { reveal(quiet_of); }

    pub proof fn lemma_c15_flush_page(o: PagedWriter, pb: Seq<u8>)
        requires o.wf(), o.quiet(), pb.len() == 1024, forall|i: int| 0 <= i < 1020 ==> #[trigger] pb[i] == o.page_buffer@[i],
        ensures !hdr_touch(o.writer.pos as int, pb), o.writer.dirty@ == 0
    { reveal(quiet_of); }
    pub proof fn lemma_c15_after_flush(o: PagedWriter, n: PagedWriter)
        requires o.wf(), o.quiet(), n.writer.dirty@ == 0, n.writer.pos == o.writer.pos,
            forall|i: int| 0 <= i < 1020 ==> #[trigger] n.page_buffer@[i] == o.page_buffer@[i],
            n.writer.data@ =~= o.writer.data@.subrange(0, o.writer.pos as int) + n.page_buffer@
                + (if o.writer.pos + 1024 <= o.writer.data@.len() { o.writer.data@.subrange(o.writer.pos + 1024, o.writer.data@.len() as int) } else { Seq::<u8>::empty() }),
        ensures n.quiet()
    {
        reveal(quiet_of);
        let d0 = o.writer.data@; let d1 = n.writer.data@; let pos = o.writer.pos as int;
        assert forall|i: int| 32 <= i < 40 && i < d1.len() implies d1[i] == 0u8 by {
            if pos == 0 { assert(d1[i] == n.page_buffer@[i]); } else { assert(pos >= 1024); assert(d1[i] == d0[i]); }
        }
    }
    /// an operation that touches neither device data nor the page buffer keeps the writer quiet
    pub proof fn lemma_c15_unchanged(o: PagedWriter, n: PagedWriter)
        requires o.quiet(), n.writer.dirty@ == o.writer.dirty@, n.writer.data@ == o.writer.data@, n.page_buffer@ == o.page_buffer@, n.writer.pos == o.writer.pos,
        ensures n.quiet()
    { reveal(quiet_of); }

    /// after a seek the page buffer is a device page (or zeros): still nothing for bytes 32..40
    pub proof fn lemma_c15_after_seek(fl: PagedWriter, n: PagedWriter)
        requires fl.quiet(), n.writer.dirty@ == 0, n.writer.data@ == fl.writer.data@, n.writer.pos % 1024 == 0, n.writer.data@.len() % 1024 == 0,
            n.writer.pos < n.writer.data@.len() ==> n.page_buffer@ =~= n.writer.data@.subrange(n.writer.pos as int, n.writer.pos + 1024),
            n.writer.pos >= n.writer.data@.len() ==> n.page_buffer@ =~= Seq::new(1024, |i: int| 0u8),
        ensures n.quiet()
    { reveal(quiet_of); }
    /// `flush` with a non-empty page buffer: the sealed page goes to the device at the page position
    pub proof fn lemma_flush(o: PagedWriter, n: PagedWriter)
        requires o.wf(), o.offset > 0, n.offset == o.offset, n.writer.pos == o.writer.pos, 
            n.page_buffer@.subrange(0, 1020) =~= o.page_buffer@.subrange(0, 1020),
            n.page_buffer@.subrange(1020, 1024) =~= be4(crc32c(n.page_buffer@.subrange(0, 1020))),
            n.writer.data@ =~= o.writer.data@.subrange(0, o.writer.pos as int) + n.page_buffer@
                + (if o.writer.pos + 1024 <= o.writer.data@.len() { o.writer.data@.subrange(o.writer.pos + 1024, o.writer.data@.len() as int) } else { Seq::<u8>::empty() }),
            n.writer.data@.len() <= 0x7fff_ffff_ffff_ffff,
        ensures n.wf(), n.stream() =~= o.stream(), n.cursor() == o.cursor(), n.npages() == o.npages(),
            n.dl() == 1024 * o.npages(), n.dl() <= o.dl() + 1024, n.dl() >= o.dl(),
            forall|i: int| 0 <= i < 1020 * o.npages() ==> n.writer.data@[phys(i)] == #[trigger] o.stream()[i],
            forall|i: int| 0 <= i < o.dl() && !(o.writer.pos <= i < o.writer.pos + 1024) ==> n.writer.data@[i] == o.writer.data@[i],
    {
        reveal(stream_of); reveal(phys); reveal(unphys);
        let d0 = o.writer.data@; let d1 = n.writer.data@; let pb = n.page_buffer@; let p = o.p();
        assert(sealed_page(pb));
        assert(d1.len() == (if o.page_exists() { d0.len() } else { d0.len() + 1024 }));
        assert forall|k: int| 0 <= k < d1.len() / 1024 implies sealed_page(#[trigger] page(d1, k)) by {
            if k == p { assert(page(d1, k) =~= pb); } else { assert(page(d1, k) =~= page(d0, k)); }
        }
        assert(n.page_exists());
        assert forall|i: int| 0 <= i < 1020 implies n.page_buffer@[i] == d1[n.writer.pos + i] by { }
        assert forall|i: int| 0 <= i < 1020 implies n.page_buffer@[i] == o.page_buffer@[i] by {
            assert(n.page_buffer@.subrange(0, 1020)[i] == o.page_buffer@.subrange(0, 1020)[i]);
        }
        assert(n.npages() == o.npages());
        assert forall|i: int| 0 <= i < 1020 * o.npages() implies
            d1[1024 * (i / 1020) + i % 1020] == #[trigger] o.stream()[i] by {
            if i / 1020 == p { } else { assert(d1[1024 * (i / 1020) + i % 1020] == d0[1024 * (i / 1020) + i % 1020]); }
        }
    }
    /// `flush` with an empty page buffer writes nothing: the device already is the stream
    pub proof fn lemma_flush_empty(o: PagedWriter)
        requires o.wf(), o.offset == 0,
        ensures o.dl() == 1024 * o.npages(),
            forall|i: int| 0 <= i < 1020 * o.npages() ==> o.writer.data@[phys(i)] == #[trigger] o.stream()[i],
    { reveal(stream_of); reveal(phys); reveal(unphys); }
    /// std::io::Write::write_all (provided method of the trait), re-stated over the extracted `write` and
    /// verified against its contract: loops until the buffer is consumed, Ok(0) is an error
    fn write_all(&mut self, buf: &[u8]) -> (r: std::result::Result<(), IoError>)
        requires old(self).wf(),
        ensures match r {
            Ok(_) => final(self).wf() && final(self).no_new_fault(old(self)) && final(self).cursor() == old(self).cursor() + buf@.len()
                && appended(*old(self), *final(self), buf@)
                // the device grows by at most one page per page boundary crossed
                && final(self).dl() <= old(self).dl() + 1024 * ((old(self).offset + buf@.len()) / 1020)
                && final(self).dl() >= old(self).dl()
                && final(self).offset == (old(self).offset + buf@.len()) % 1020
                && (old(self).cursor() + buf@.len() <= old(self).stream().len() ==> final(self).stream().len() == old(self).stream().len())
                && final(self).stream().len() >= old(self).stream().len()
                && (forall|i: int| 0 <= i < final(self).stream().len() ==> #[trigger] final(self).stream()[i] ==
                        (if old(self).cursor() <= i < old(self).cursor() + buf@.len() { buf@[i - old(self).cursor()] }
                         else if i < old(self).stream().len() { old(self).stream()[i] } else { 0u8 }))
                // no device operation at all unless a page fills up
                && (old(self).offset + buf@.len() < 1020 ==> final(self).writer == old(self).writer),
            Err(_) => old(self).offset + buf@.len() >= 1020 },
            /*[C15]*/ PagedWriter::c15_keeps(old(self), final(self), r is Ok, old(self).cursor(), buf@),
    {
        let ghost o = *self;
        proof { lemma_appended_refl(o); lemma_cursor_bound(o); assert(buf@.subrange(0, 0) =~= Seq::<u8>::empty()); }
        let mut done: usize = 0;
        let ghost mut k: int = 0;
        while done < buf.len()
            invariant
                done <= buf@.len(), self.wf(), o == *old(self), o.cursor() >= 0,
                self.no_new_fault(old(self)),
                // k = number of page boundaries crossed so far (kept linear: no div/mod inside the loop)
                k >= 0, old(self).offset + done == 1020 * k + self.offset,
                self.dl() <= old(self).dl() + 1024 * k, self.dl() >= old(self).dl(),
                appended(o, *self, buf@.subrange(0, done as int)),
                old(self).offset + buf@.len() < 1020 ==> self.writer == old(self).writer,
                (o.quiet() && !hdr_touch(o.cursor(), buf@)) ==> self.quiet(),
            decreases buf@.len() - done
        {
            let ghost before = *self;
            proof { if o.quiet() && !hdr_touch(o.cursor(), buf@) { lemma_hdr_touch_suffix(o.cursor(), buf@, done as int); } }
            let n = self.write(vstd::slice::slice_subrange(buf, done, buf.len()))?;
            if n == 0 { return Err(IoError::new(ErrorKind::WriteZero, "")); }
            proof {
                let rest = buf@.subrange(done as int, buf@.len() as int);
                assert(rest.subrange(0, n as int) =~= buf@.subrange(done as int, done + n));
                lemma_appended_trans(o, before, *self, buf@.subrange(0, done as int), buf@.subrange(done as int, done + n));
                assert(buf@.subrange(0, done as int) + buf@.subrange(done as int, done + n) =~= buf@.subrange(0, done + n));
                if before.offset + n == 1020 { k = k + 1; }
            }
            done = done + n;
        }
        proof {
            assert(buf@.subrange(0, buf@.len() as int) =~= buf@);
            lemma_appended_content(o, *self, buf@);
            vstd::arithmetic::div_mod::lemma_fundamental_div_mod_converse(old(self).offset + buf@.len(), 1020, k, self.offset as int);
        }
        Ok(())
    }

//@fn src/paged_writer.rs PagedWriter physical_seek serves=C11,C16,C02,C06,C15 ret=r
//@sig
        requires old(self).wf(),
        ensures match r {
            // accepted iff inside the flushed file and not inside checksum bytes
            Ok(_) => final(self).wf() && final(self).no_new_fault(old(self)) && pos <= 1024 * old(self).npages() && pos % 1024 < 1020
                && final(self).stream() =~= old(self).stream()
                && final(self).dl() <= old(self).dl() + 1024 && final(self).dl() >= old(self).dl()
                && final(self).cursor() == unphys(pos as int)
                // a seek flushes first: afterwards the device holds the whole logical stream
                && final(self).dl() == 1024 * old(self).npages()
                && (forall|i: int| 0 <= i < 1020 * old(self).npages() ==> final(self).writer.data@[phys(i)] == #[trigger] old(self).stream()[i]),
            Err(e) => final(self).writer.failed@ || pos > 1024 * old(self).npages() || pos % 1024 >= 1020 },
            /*[C15]*/ PagedWriter::c15_same(old(self), final(self), r is Ok),
//@call flush 0 after
        let ghost fl = *self;
        proof { if fl.quiet() { lemma_quiet_clean(fl); } }
//@tail
        proof {
            if old(self).quiet() { PagedWriter::lemma_c15_after_seek(fl, *self); }
            let d = self.writer.data@;
            assert(d == fl.writer.data@);
            assert forall|i: int| 0 <= i < self.stream().len() implies self.stream()[i] == old(self).stream()[i] by {
                if i / 1020 == self.p() { assert(self.page_buffer@[i % 1020] == d[1024 * (i / 1020) + i % 1020]); }
            }
        }
//@body_start
        proof { lemma_aligned_step(old(self).writer.pos as int, old(self).dl()); reveal(stream_of); reveal(phys); reveal(unphys); if old(self).quiet() { lemma_quiet_clean(*old(self)); } }
//@endfn

//@fn src/paged_writer.rs PagedWriter physical_size serves=C11,C16,C02,C15,C06 ret=r
//@sig
        requires old(self).wf(),
        ensures match r {
            Ok(sz) => final(self).wf() && final(self).no_new_fault(old(self)) && final(self).stream() =~= old(self).stream() && final(self).cursor() == old(self).cursor()
                // size of the flushed file: whole pages, 1024 per 1020 payload bytes
                && sz == 1024 * old(self).npages() && sz == final(self).dl()
                && final(self).dl() <= old(self).dl() + 1024 && final(self).dl() >= old(self).dl()
                && (forall|i: int| 0 <= i < 1020 * old(self).npages() ==> final(self).writer.data@[phys(i)] == #[trigger] old(self).stream()[i]),
            Err(_) => final(self).writer.failed@ },
            /*[C15]*/ PagedWriter::c15_same(old(self), final(self), r is Ok),
//@call flush 0 after
        proof { if self.quiet() { lemma_quiet_clean(*self); } }
//@body_start
        proof { lemma_aligned_step(old(self).writer.pos as int, old(self).dl()); reveal(stream_of); reveal(phys); reveal(unphys); if old(self).quiet() { lemma_quiet_clean(*old(self)); } }
//@endfn

//@fn src/paged_writer.rs PagedWriter physical_position serves=C11,C16,C02,C06,C01,C15 ret=r
//@sig
        requires old(self).wf(),
        ensures match r {
            // reported physical position = phys(logical cursor): never inside checksum bytes
            Ok(p) => final(self).wf() && final(self).no_new_fault(old(self)) && final(self).stream() == old(self).stream() && final(self).cursor() == old(self).cursor()
                    && p == phys(old(self).cursor()) && p % 1024 < 1020 && final(self).dl() == old(self).dl(),
            Err(_) => final(self).writer.failed@ },
            /*[C15]*/ PagedWriter::c15_same(old(self), final(self), r is Ok),
//@body_start
        proof { reveal(stream_of); reveal(phys); reveal(unphys); if old(self).quiet() { lemma_quiet_clean(*old(self)); } }
//@endfn

//@fn src/paged_writer.rs PagedWriter align serves=C11,C16,C02,C15,C06 ret=r
//@rw &zeros\[mod_offset\.\.\] ==> vstd::slice::slice_subrange(&zeros, mod_offset, 4)
//@body_start
        // stated at entry and free of local names, so that it covers every exit (also an early return when nothing is to be written)
        proof {
            lemma_appended_refl(*old(self));
            assert(Seq::new(0nat, |i: int| 0u8) =~= Seq::<u8>::empty());
            // the same alignment written with a mask (x & 3) instead of a remainder (x % 4): equal for every usize
            assert forall|x: usize| #[trigger] (x & 3) == x % 4 by { assert(x & 3 == x % 4) by (bit_vector); }
            assert forall|a: [u8; 4], lo: int| (forall|i: int| 0 <= i < 4 ==> a@[i] == 0u8) && 0 <= lo <= 4 implies
                #[trigger] a@.subrange(lo, 4) =~= Seq::new((4 - lo) as nat, |i: int| 0u8) by {}
        }
//@sig
        requires old(self).wf(),
        ensures match r {
            Ok(_) => final(self).wf() && final(self).no_new_fault(old(self)) && final(self).cursor() % 4 == 0 && final(self).cursor() - old(self).cursor() < 4
                && final(self).cursor() >= old(self).cursor()
                && final(self).stream().len() >= old(self).stream().len()
                // only zero bytes are written at the cursor, nothing else changes
                && appended(*old(self), *final(self), Seq::new((final(self).cursor() - old(self).cursor()) as nat, |i: int| 0u8))
                && final(self).dl() <= old(self).dl() + 1024 && final(self).dl() >= old(self).dl(),
            Err(_) => true },
            /*[C15]*/ PagedWriter::c15_same(old(self), final(self), r is Ok),
//@endfn

//@fn src/paged_writer.rs PagedWriter flush trait=Write serves=C11,C16,C02,C15,C06 ret=r
//@rw std::io::Result<\(\)> ==> std::result::Result<(), IoError>
//@rw #\[cfg\(not\(feature = "crc32c"\)\)\] ==> <empty>
//@rw #\[cfg\(feature = "crc32c"\)\]\s*let crc = [^;]*; ==> <empty>
//@rw crc\.to_be_bytes\(\) ==> shim_u32_to_be_bytes(crc)
//@sig
        requires old(self).wf()
        ensures match r {
            Ok(_) => final(self).wf() && final(self).no_new_fault(old(self)) && final(self).stream() =~= old(self).stream() && final(self).cursor() == old(self).cursor()
                // C11: after a flush the device payload IS the logical stream, whole pages, all sealed
                && final(self).dl() == 1024 * old(self).npages()
                && final(self).dl() <= old(self).dl() + 1024 && final(self).dl() >= old(self).dl()
                && (forall|i: int| 0 <= i < 1020 * old(self).npages() ==> final(self).writer.data@[phys(i)] == #[trigger] old(self).stream()[i])
                // device frame: only the current page is (re)written
                && final(self).writer.pos == old(self).writer.pos
                && (forall|i: int| 0 <= i < old(self).dl() && !(old(self).writer.pos <= i < old(self).writer.pos + 1024) ==> final(self).writer.data@[i] == old(self).writer.data@[i]),
            Err(_) => final(self).writer.failed@ },
            /*[C15]*/ PagedWriter::c15_same(old(self), final(self), r is Ok),
            // C15: a flush is at most ONE device write; if it is the first to carry the XML-length field, `snap` is the image before it
            /*[C15]*/ final(self).writer.dirty@ <= old(self).writer.dirty@ + 1,
            /*[C15]*/ (old(self).writer.dirty@ == 0 && final(self).writer.dirty@ == 1) ==> final(self).writer.snap@ == old(self).writer.data@,
//@call write_all 0 before
            proof {
                be4_len(crc);
                assert(self.page_buffer@.subrange(0, 1020) =~= old(self).page_buffer@.subrange(0, 1020));
                assert(self.page_buffer@.subrange(1020, 1024) =~= be4(crc));
                if old(self).quiet() { PagedWriter::lemma_c15_flush_page(*old(self), self.page_buffer@); }
            }
//@call seek 0 after
            proof {
                PagedWriter::lemma_flush(*old(self), *self);
                if old(self).quiet() { PagedWriter::lemma_c15_after_flush(*old(self), *self); }
            }
//@body_start
        proof { lemma_aligned_step(old(self).writer.pos as int, old(self).dl()); if old(self).quiet() { lemma_quiet_clean(*old(self)); } if old(self).offset == 0 { PagedWriter::lemma_flush_empty(*old(self)); } }
//@endfn

    // C15: dropping the writer without finalize flushes the current page: still nothing for the XML-length field
//@fn src/paged_writer.rs PagedWriter drop trait=Drop rename=drop_impl serves=C15,C06
//@sig
        requires old(self).wf(),
        ensures /*[C15]*/ old(self).quiet() ==> final(self).hist_clean(),
//@fn_end
        proof { if old(self).quiet() && self.quiet() { lemma_quiet_clean(*self); } }
//@endfn

    // canary (vacuity guard): false postcondition on the real physical_position must fail
//@fn src/paged_writer.rs PagedWriter physical_position rename=physical_position__canary canary ret=r
//@sig
        requires old(self).wf(),
        ensures match r { Ok(p) => p == phys(old(self).cursor()) + 4, Err(_) => true },
//@endfn
}

/// the logical stream as a function of the state components it depends on (so that operations which leave them alone leave it alone)
#[verifier::opaque]
pub open spec fn stream_of(data: Seq<u8>, pos: int, offset: int, pb: Seq<u8>) -> Seq<u8> {
    let p = pos / 1024;
    let np = if data.len() as int / 1024 >= p + (if offset > 0 { 1int } else { 0int }) { data.len() as int / 1024 } else { p + 1 };
    Seq::new((1020 * np) as nat, |i: int| if i / 1020 == p { pb[i % 1020] } else { data[1024 * (i / 1020) + i % 1020] })
}
#[verifier::opaque]
pub open spec fn quiet_of(dirty: nat, data: Seq<u8>, pos: int, pb: Seq<u8>) -> bool {
    &&& dirty == 0
    &&& (forall|i: int| 32 <= i < 40 && i < data.len() ==> data[i] == 0u8)
    &&& (pos == 0 ==> forall|i: int| 32 <= i < 40 ==> pb[i] == 0u8)
}
/// page arithmetic spelled out once (keeps div/mod reasoning out of the function bodies)
pub proof fn lemma_aligned_step(pos: int, dl: int)
    requires pos % 1024 == 0, dl % 1024 == 0, 0 <= pos <= dl
    ensures (pos + 1024) % 1024 == 0, (dl + 1024) % 1024 == 0, pos < dl ==> pos + 1024 <= dl, (pos + 1024) / 1024 == pos / 1024 + 1
{}
/// a quiet writer has a clean history
pub proof fn lemma_quiet_clean(w: PagedWriter)
    requires w.quiet()
    ensures w.hist_clean(), w.writer.dirty@ == 0
{ reveal(quiet_of); }
/// a suffix of a write that carries nothing for bytes 32..40 carries nothing either
pub proof fn lemma_hdr_touch_suffix(c: int, buf: Seq<u8>, d: int)
    requires 0 <= d <= buf.len(), !hdr_touch(c, buf)
    ensures !hdr_touch(c + d, buf.subrange(d, buf.len() as int))
{}
/// C11 corollary: right after a successful flush, logical(device) is the logical stream
proof fn theorem_flush_payload_is_stream(w: PagedWriter, d: Seq<u8>, s: Seq<u8>)
    requires d.len() == 1024 * w.npages(), s == w.stream(), w.npages() >= 0,
        forall|i: int| 0 <= i < 1020 * w.npages() ==> d[phys(i)] == #[trigger] s[i],
    ensures logical(d) =~= s
{
    reveal(stream_of); reveal(phys);
    assert(d.len() / 1024 == w.npages());
}

// ---- append / patch algebra over the logical stream view (used by the layers above) -----------
/// (ns, nc) is (os, oc) with `bytes` written at oc (overwriting or extending; new pages zero filled), cursor advanced
#[verifier::opaque]
pub open spec fn app_seq(os: Seq<u8>, oc: int, ns: Seq<u8>, nc: int, bytes: Seq<u8>) -> bool {
    &&& nc == oc + bytes.len()
    &&& ns.len() >= os.len()
    &&& nc <= ns.len()
    // overwriting inside the existing stream does not grow it
    &&& (oc + bytes.len() <= os.len() ==> ns.len() == os.len())
    &&& forall|i: int| 0 <= i < ns.len() ==> #[trigger] ns[i] ==
            (if oc <= i < oc + bytes.len() { bytes[i - oc] } else if i < os.len() { os[i] } else { 0u8 })
}
pub open spec fn appended(o: PagedWriter, n: PagedWriter, bytes: Seq<u8>) -> bool {
    // the cursor equation is visible to callers; the per-byte content relation is opaque and only handled by the lemmas below
    n.cursor() == o.cursor() + bytes.len() && app_seq(o.stream(), o.cursor(), n.stream(), n.cursor(), bytes)
}
/// what `appended` means byte by byte (for callers that need to look inside)
pub proof fn lemma_appended_content(o: PagedWriter, n: PagedWriter, bytes: Seq<u8>)
    requires appended(o, n, bytes)
    ensures n.stream().len() >= o.stream().len(), n.cursor() <= n.stream().len(),
        o.cursor() + bytes.len() <= o.stream().len() ==> n.stream().len() == o.stream().len(),
        forall|i: int| 0 <= i < n.stream().len() ==> #[trigger] n.stream()[i] ==
            (if o.cursor() <= i < o.cursor() + bytes.len() { bytes[i - o.cursor()] } else if i < o.stream().len() { o.stream()[i] } else { 0u8 })
{ reveal(app_seq); }
pub proof fn lemma_app_seq_trans(s1: Seq<u8>, c1: int, s2: Seq<u8>, c2: int, s3: Seq<u8>, c3: int, x: Seq<u8>, y: Seq<u8>)
    requires app_seq(s1, c1, s2, c2, x), app_seq(s2, c2, s3, c3, y), c1 >= 0
    ensures app_seq(s1, c1, s3, c3, x + y)
{
    reveal(app_seq);
    let xy = x + y;
    assert forall|i: int| 0 <= i < s3.len() implies #[trigger] s3[i] ==
            (if c1 <= i < c1 + xy.len() { xy[i - c1] } else if i < s1.len() { s1[i] } else { 0u8 }) by {
        if c2 <= i < c2 + y.len() {
            assert(xy[i - c1] == y[i - c1 - x.len()]);
        } else if i < s2.len() {
            assert(s3[i] == s2[i]);
            if c1 <= i < c1 + x.len() { assert(xy[i - c1] == x[i - c1]); }
        } else { }
    }
}
pub proof fn lemma_appended_trans(a: PagedWriter, b: PagedWriter, c: PagedWriter, x: Seq<u8>, y: Seq<u8>)
    requires appended(a, b, x), appended(b, c, y), a.cursor() >= 0
    ensures appended(a, c, x + y)
{
    lemma_app_seq_trans(a.stream(), a.cursor(), b.stream(), b.cursor(), c.stream(), c.cursor(), x, y);
}
pub proof fn lemma_appended_refl(a: PagedWriter)
    requires a.wf()
    ensures appended(a, a, Seq::<u8>::empty())
{ reveal(app_seq); reveal(stream_of); }
/// same stream content, cursor moved (physical_seek)
pub open spec fn moved(o: PagedWriter, n: PagedWriter, c: int) -> bool { n.stream() == o.stream() && n.cursor() == c }
/// overwrite of an already written prefix: x ++ y was written at c0; go back to c0, write x2 (|x2| == |x|), return to the end
pub proof fn lemma_patch_seq(s0: Seq<u8>, c0: int, s3: Seq<u8>, s5: Seq<u8>, x: Seq<u8>, y: Seq<u8>, x2: Seq<u8>)
    requires app_seq(s0, c0, s3, c0 + x.len() + y.len(), x + y), app_seq(s3, c0, s5, c0 + x2.len(), x2), x2.len() == x.len(), c0 >= 0
    ensures app_seq(s0, c0, s5, c0 + x.len() + y.len(), x2 + y)
{
    reveal(app_seq);
    let xy = x + y; let x2y = x2 + y;
    assert forall|i: int| 0 <= i < s5.len() implies #[trigger] s5[i] ==
            (if c0 <= i < c0 + x2y.len() { x2y[i - c0] } else if i < s0.len() { s0[i] } else { 0u8 }) by {
        if c0 <= i < c0 + x2.len() {
            assert(x2y[i - c0] == x2[i - c0]);
        } else if i < s3.len() {
            assert(s5[i] == s3[i]);
            if c0 + x.len() <= i < c0 + xy.len() { assert(xy[i - c0] == y[i - c0 - x.len()]); assert(x2y[i - c0] == y[i - c0 - x2.len()]); }
        } else { }
    }
}
pub proof fn lemma_patch_prefix(a: PagedWriter, s3: PagedWriter, s4: PagedWriter, s5: PagedWriter, s6: PagedWriter, x: Seq<u8>, y: Seq<u8>, x2: Seq<u8>)
    requires appended(a, s3, x + y), moved(s3, s4, a.cursor()), appended(s4, s5, x2), x2.len() == x.len(),
        moved(s5, s6, a.cursor() + x.len() + y.len()), a.cursor() >= 0
    ensures appended(a, s6, x2 + y)
{
    lemma_patch_seq(a.stream(), a.cursor(), s3.stream(), s5.stream(), x, y, x2);
}
/// the logical cursor fits comfortably into u64 (device sizes fit off_t)
pub proof fn lemma_cursor_bound(w: PagedWriter)
    requires w.wf()
    ensures 0 <= w.cursor() <= 0x7fff_ffff_ffff_ffff + 1020
{}
/// physical <-> logical translation used by seeks to reported positions
pub proof fn lemma_phys_roundtrip(c: int)
    requires c >= 0
    ensures phys(c) % 1024 < 1020, unphys(phys(c)) == c, phys(c) >= 0
{
    reveal(phys); reveal(unphys);
    let q = c / 1020; let r = c % 1020;
    vstd::arithmetic::div_mod::lemma_fundamental_div_mod(c, 1020);
    vstd::arithmetic::div_mod::lemma_fundamental_div_mod_converse(q * 1024 + r, 1024, q, r);
}
