// ---- e57_writer.rs: top-level writer (header placeholder, XML section, final header patch, flush) ----
#[derive(Clone)]
struct OpaqueMeta { tag: u64 }
/// the bytes of a String (UTF-8): uninterpreted — XML text is outside the technique (C04)
uninterp spec fn str_bytes(s: String) -> Seq<u8>;
#[verifier::external_body]
fn shim_string_as_bytes(s: &String) -> (r: &[u8])
    ensures r@ == str_bytes(*s)
{ s.as_bytes() }
/// XML serialisation of the metadata: contract-only (string code, roxmltree side; see C04 not applicable)
#[verifier::external_body]
fn serialize_root(root: &OpaqueMeta, pointclouds: &OpaqueMeta, images: &OpaqueMeta, extensions: &OpaqueMeta) -> (r: Result<String>)
{ unimplemented!() }
#[verifier::external_body]
fn shim_root(guid: &str) -> (r: OpaqueMeta) { unimplemented!() }
#[verifier::external_body]
fn shim_empty_meta() -> (r: OpaqueMeta) { unimplemented!() }

impl Header {
//@fn src/header.rs Header default trait=Default serves=C02,C15 ret=r
//@rw \*SIGNATURE ==> *SIGNATURE
//@rw PAGE_SIZE ==> HEADER_PAGE_SIZE
//@sig
        // the placeholder header: valid signature/version/page size, all lengths and offsets ZERO
        ensures r.signature@ == SIGNATURE@, r.major == MAJOR_VERSION, r.minor == MINOR_VERSION, r.page_size == HEADER_PAGE_SIZE,
            r.phys_length == 0, r.phys_xml_offset == 0, r.xml_length == 0,
//@endfn
}

//@item src/e57_writer.rs struct E57Writer
//@rw <T: Read \+ Write \+ Seek> ==> <empty>
//@rw PagedWriter<T> ==> PagedWriter
//@rw : (Vec<PointCloud>|Vec<Extension>|Vec<Image>|Root), ==> : OpaqueMeta,
//@enditem

impl E57Writer {
//@fn src/e57_writer.rs E57Writer new serves=C02,C15,C16 ret=r
//@rw writer: T, ==> writer: Dev,
//@rw let version = env!.*?let root = Root \{.*?\n        \}; ==> let root = shim_root(guid);
//@rw Vec::new\(\) ==> shim_empty_meta()
//@sig
        ensures match r {
            // empty device required; the file starts with the placeholder header (lengths and offsets zero)
            Ok(w) => w.writer.wf() && writer.data@.len() == 0 && w.writer.cursor() == 48
                && w.writer.stream().len() >= 48 && w.writer.stream().subrange(0, 48) =~= spec_placeholder_header()
                && w.writer.writer.failed@ == writer.failed@
                // C15: the placeholder carries nothing for the XML-length field
                /*[C15]*/ && (writer.dirty@ == 0 ==> w.writer.quiet()),
            Err(_) => true },
//@call write 0 before
        let ghost w0 = writer;
//@call write 0 after
        proof {
            lemma_appended_content(w0, writer, header.bytes());
            assert(header.bytes() =~= spec_placeholder_header());
            reveal(stream_of);
        }
//@endfn

//@fn src/e57_writer.rs E57Writer finalize_customized_xml serves=C02,C15,C16 ret=r
//@rw xml\.as_bytes\(\) ==> shim_string_as_bytes(&xml)
//@rw \.\.Default::default\(\) ==> ..Header::default()
//@sig
        requires old(self).writer.wf(), forall|s: String| transformer.requires((s,)),
            old(self).writer.stream().len() >= 48, old(self).writer.cursor() >= 48,
        ensures match r {
            Ok(_) => ({
                let w0 = old(self).writer; let w = final(self).writer;
                &&& (exists|xml: Seq<u8>| #[trigger] finalized_stream(w0.stream(), w0.cursor(), w.stream(), w.dl(), xml))
                // flushed: the device holds whole sealed pages whose payload is the logical stream (C11 flush contract)
                &&& w.wf() && w.dl() == 1024 * (w.stream().len() as int / 1020)
                &&& (forall|i: int| 0 <= i < w.stream().len() ==> w.writer.data@[phys(i)] == #[trigger] w.stream()[i])
                // C16: success implies no device error was seen
                &&& w.no_new_fault(&w0)
            }),
            Err(_) => true },
            // C15 ordering: whatever the outcome, at most ONE device write of finalize carries a non-zero XML length, and at the moment
            // that write is issued the device already holds every page of the finished file (all sections and the complete XML, every
            // page sealed) with the placeholder header still in place
            /*[C15]*/ old(self).writer.quiet() ==> final(self).writer.writer.dirty@ <= 1,
            /*[C15]*/ (old(self).writer.quiet() && final(self).writer.writer.dirty@ == 1) ==>
                exists|xml: Seq<u8>| #[trigger] complete_but_header(final(self).writer.writer.snap@, old(self).writer.stream(), old(self).writer.cursor(), xml),
            // ... and that write only replaces page 0
            /*[C15]*/ (r is Ok && old(self).writer.quiet() && final(self).writer.writer.dirty@ == 1) ==>
                final(self).writer.writer.data@.len() == final(self).writer.writer.snap@.len()
                && (forall|i: int| 1024 <= i < final(self).writer.writer.data@.len() ==> final(self).writer.writer.data@[i] == final(self).writer.writer.snap@[i]),
//@body_start
        let ghost w0 = self.writer;
        proof { lemma_cursor_bound(w0); if w0.quiet() { lemma_quiet_clean(w0); } }
//@call write_all 0 after
        let ghost w1 = self.writer;
        proof { if w1.quiet() { lemma_quiet_clean(w1); } }
//@call physical_size 0 after
        let ghost w2 = self.writer;
        proof { if w2.quiet() { lemma_quiet_clean(w2); } }
//@call physical_seek 0 after
        let ghost w3 = self.writer;
        proof {
            lemma_unphys0();
            if w3.quiet() { lemma_quiet_clean(w3); }
            if w0.quiet() { lemma_complete(w0, w1, w2, w3, xml_bytes@); }
        }
//@call write 0 after
        let ghost w4 = self.writer;
        proof { assert(w4.writer == w3.writer); }
//@tail
        proof {
            signature_is_astm_e57();
            lemma_unphys0();
            lemma_appended_content(w0, w1, xml_bytes@);
            lemma_appended_content(w3, w4, header.bytes());
            assert(header.bytes().len() == 48);
            lemma_stream_len(w1); lemma_stream_len(w2); lemma_stream_len(w4);
            assert(w4.stream().len() == w1.stream().len());
            assert(w4.stream().subrange(0, 48) =~= header.bytes());
            assert(finalized_stream(w0.stream(), w0.cursor(), w4.stream(), 1024 * w4.npages(), xml_bytes@));
        }
//@endfn

// the public entry point named by C15 / C16: `finalize()` = `finalize_customized_xml(Ok)`; the constructor passed as a function is
// eta-expanded to the closure `|s| Ok(s)` (Verus has no specification for enum constructors used as Fn values)
//@fn src/e57_writer.rs E57Writer finalize serves=C02,C15,C16 ret=r
//@rw self\.finalize_customized_xml\(Ok\) ==> self.finalize_customized_xml(|s: String| -> (o: Result<String>) { Ok(s) })
//@sig
        requires old(self).writer.wf(),
            old(self).writer.stream().len() >= 48, old(self).writer.cursor() >= 48,
        ensures match r {
            Ok(_) => ({
                let w0 = old(self).writer; let w = final(self).writer;
                &&& (exists|xml: Seq<u8>| #[trigger] finalized_stream(w0.stream(), w0.cursor(), w.stream(), w.dl(), xml))
                // flushed: the device holds whole sealed pages whose payload is the logical stream (C11 flush contract)
                &&& w.wf() && w.dl() == 1024 * (w.stream().len() as int / 1020)
                &&& (forall|i: int| 0 <= i < w.stream().len() ==> w.writer.data@[phys(i)] == #[trigger] w.stream()[i])
                // C16: success implies no device error was seen
                &&& w.no_new_fault(&w0)
            }),
            Err(_) => true },
            // C15 ordering: whatever the outcome, at most ONE device write of finalize carries a non-zero XML length, and at the moment
            // that write is issued the device already holds every page of the finished file (all sections and the complete XML, every
            // page sealed) with the placeholder header still in place
            /*[C15]*/ old(self).writer.quiet() ==> final(self).writer.writer.dirty@ <= 1,
            /*[C15]*/ (old(self).writer.quiet() && final(self).writer.writer.dirty@ == 1) ==>
                exists|xml: Seq<u8>| #[trigger] complete_but_header(final(self).writer.writer.snap@, old(self).writer.stream(), old(self).writer.cursor(), xml),
            // ... and that write only replaces page 0
            /*[C15]*/ (r is Ok && old(self).writer.quiet() && final(self).writer.writer.dirty@ == 1) ==>
                final(self).writer.writer.data@.len() == final(self).writer.writer.snap@.len()
                && (forall|i: int| 1024 <= i < final(self).writer.writer.data@.len() ==> final(self).writer.writer.data@[i] == final(self).writer.writer.snap@[i]),
//@endfn
}
proof fn lemma_unphys0() ensures unphys(0) == 0 { reveal(unphys); }
/// C15: device image that holds the complete file except for the real header: every logical byte from 48 up to the end of the
/// XML is in place, every page is sealed, and the XML-length field still is the placeholder's zero
spec fn complete_but_header(snap: Seq<u8>, s0: Seq<u8>, c0: int, xml: Seq<u8>) -> bool {
    &&& snap.len() % 1024 == 0 && 1020 * (snap.len() as int / 1024) >= c0 + xml.len() && snap.len() >= 1024
    &&& (forall|i: int| 48 <= i < c0 + xml.len() ==> snap[phys(i)] == #[trigger] want_byte(s0, c0, xml, i))
    &&& all_sealed(snap)
    &&& (forall|i: int| 32 <= i < 40 ==> snap[i] == 0u8)
}
/// logical byte i of "stream s0 with xml appended at c0"
spec fn want_byte(s0: Seq<u8>, c0: int, xml: Seq<u8>, i: int) -> u8 { if i < c0 { s0[i] } else { xml[i - c0] } }
proof fn lemma_complete(w0: PagedWriter, w1: PagedWriter, w2: PagedWriter, w3: PagedWriter, xml: Seq<u8>)
    requires w0.wf(), w1.wf(), w2.wf(), w3.wf(), w3.quiet(), w0.cursor() >= 48, w0.stream().len() >= 48,
        appended(w0, w1, xml), w2.stream() =~= w1.stream(), w2.cursor() == w1.cursor(),
        w3.dl() == 1024 * w2.npages(),
        forall|i: int| 0 <= i < 1020 * w2.npages() ==> w3.writer.data@[phys(i)] == #[trigger] w2.stream()[i],
    ensures complete_but_header(w3.writer.data@, w0.stream(), w0.cursor(), xml)
{
    lemma_appended_content(w0, w1, xml);
    lemma_stream_len(w0); lemma_stream_len(w1); lemma_stream_len(w2);
    reveal(quiet_of);
    assert(w0.cursor() <= w0.stream().len());
    let snap = w3.writer.data@;
    assert(snap.len() as int / 1024 == w2.npages());
    assert forall|i: int| 48 <= i < w0.cursor() + xml.len() implies snap[phys(i)] == #[trigger] want_byte(w0.stream(), w0.cursor(), xml, i) by {
        assert(snap[phys(i)] == w2.stream()[i]);
        assert(w1.stream()[i] == want_byte(w0.stream(), w0.cursor(), xml, i));
    }
}
/// logical stream (s, device length dl) of a finalized file relative to the stream (s0, cursor c0) before finalize
spec fn finalized_stream(s0: Seq<u8>, c0: int, s: Seq<u8>, dl: int, xml: Seq<u8>) -> bool {
    // the XML bytes are appended at the old cursor; then ONLY the first 48 logical bytes are replaced by the header
    &&& s.len() >= c0 + xml.len() && s.len() >= s0.len()
    &&& (forall|i: int| 48 <= i < s.len() ==> #[trigger] s[i] ==
            (if c0 <= i < c0 + xml.len() { xml[i - c0] } else if i < s0.len() { s0[i] } else { 0u8 }))
    // C02: the header states the true file length, XML offset (physical, outside checksum bytes), XML length, page size
    &&& s.subrange(0, 48) =~= spec_file_header(spec_signature(), 1, 0, dl as u64, phys(c0) as u64, xml.len() as u64, 1024)
    &&& phys(c0) % 1024 < 1020
}
proof fn lemma_stream_len(w: PagedWriter)
    requires w.wf()
    ensures w.stream().len() == 1020 * w.npages(), w.npages() >= 0, w.stream().len() as int / 1020 == w.npages()
{ reveal(stream_of); }
spec fn spec_placeholder_header() -> Seq<u8> { spec_file_header(spec_signature(), 1, 0, 0, 0, 0, 1024) }
