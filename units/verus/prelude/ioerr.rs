// ---- payload-free model of std::io::Error ----
pub enum ErrorKind { InvalidInput, InvalidData, UnexpectedEof, WriteZero, Other }
pub struct IoError { pub kind: u8 }
impl IoError {
    pub fn new(kind: ErrorKind, msg: &str) -> (r: IoError) { IoError { kind: 0 } }
}
