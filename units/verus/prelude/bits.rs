// 64-bit target (usize arithmetic on stream/queue lengths is checked against 2^64)
global size_of usize == 8;

// ---- shared bit-string vocabulary (DESIGN §4.1), written from the property statement (C12) ----
pub open spec fn bit8(x: u8, k: int) -> bool { (x >> (k as u8)) & 1u8 == 1u8 }
/// bit i (LSB first) of a byte sequence
pub open spec fn bit_at(s: Seq<u8>, i: int) -> bool { bit8(s[i / 8], i % 8) }
pub open spec fn bit64(x: u64, k: int) -> bool { (x >> (k as u64)) & 1u64 == 1u64 }
pub open spec fn bit128(x: u128, k: int) -> bool { (x >> (k as u128)) & 1u128 == 1u128 }
/// all bits of a byte sequence, LSB first
pub open spec fn bits_of(s: Seq<u8>) -> Seq<bool> { Seq::new((8 * s.len()) as nat, |i: int| bit_at(s, i)) }
/// the w low bits of u, LSB first: the encoding of one bit-packed value
pub open spec fn enc_bits(u: u64, w: int) -> Seq<bool> { Seq::new(w as nat, |k: int| bit64(u, k)) }
pub open spec fn pow2(e: int) -> int decreases e { if e <= 0 { 1 } else { 2 * pow2(e - 1) } }
/// floor(log2(x)) for x >= 1
pub open spec fn lg2(x: int) -> int decreases x { if x <= 1 { 0 } else { 1 + lg2(x / 2) } }
/// C12: number of bits needed for max - min (0 when equal, 64 for the full range)
pub open spec fn width(min: i64, max: i64) -> int { if max as int <= min as int { 0 } else { lg2(max as int - min as int) + 1 } }

pub proof fn lemma_pow2_mono(a: int, b: int)
    requires 0 <= a <= b
    ensures pow2(a) <= pow2(b), pow2(a) >= 1
    decreases b
{
    if a < b { lemma_pow2_mono(a, b - 1); } else if a > 0 { lemma_pow2_mono(a - 1, a - 1); }
}
pub proof fn lemma_pow2_64()
    ensures pow2(64) == 0x1_0000_0000_0000_0000, pow2(63) == 0x8000_0000_0000_0000
{
    reveal_with_fuel(pow2, 65);
}
pub proof fn lemma_lg2(x: int)
    requires x >= 1
    ensures lg2(x) >= 0, pow2(lg2(x)) <= x, x < pow2(lg2(x) + 1)
    decreases x
{
    if x > 1 {
        let h = x / 2;
        lemma_lg2(h);
        assert(lg2(x) == 1 + lg2(h));
        assert(pow2(lg2(x)) == 2 * pow2(lg2(h)));
        assert(pow2(lg2(x) + 1) == 2 * pow2(lg2(h) + 1));
        assert(2 * h <= x < 2 * h + 2);
        assert(h + 1 <= pow2(lg2(h) + 1));
    } else {
        reveal_with_fuel(pow2, 3);
        assert(lg2(x) == 0);
        assert(pow2(0) == 1 && pow2(1) == 2);
    }
}
/// width is the least b with max - min < 2^b
pub proof fn lemma_width(min: i64, max: i64)
    ensures 0 <= width(min, max) <= 64,
        (max as int) - (min as int) < pow2(width(min, max)),
        width(min, max) > 0 ==> pow2(width(min, max) - 1) <= (max as int) - (min as int),
        (max as int <= min as int) <==> width(min, max) == 0,
{
    if (max as int) > (min as int) {
        let r = max as int - min as int;
        lemma_lg2(r);
        lemma_pow2_64();
        if lg2(r) >= 64 { lemma_pow2_mono(64, lg2(r)); }
    }
}

pub proof fn lemma_or_bit(x: u8, k: usize, j: u8)
    requires k < 8, j < 8
    ensures bit8(x | (1u8 << k), j as int) == (bit8(x, j as int) || j == k),
            bit8(x | 0u8, j as int) == bit8(x, j as int),
            !bit8(0u8, j as int),
{
    assert(k < 8 && j < 8 ==> ((((x | (1u8 << k)) >> j) & 1u8 == 1u8) == (((x >> j) & 1u8 == 1u8) || j == k))) by (bit_vector);
    assert((x | 0u8) == x) by (bit_vector);
    assert(j < 8 ==> ((0u8 >> j) & 1u8) == 0u8) by (bit_vector);
}
pub proof fn lemma_mask_bit(d: u8, k: usize)
    requires k < 8
    ensures ((d & (1u8 << k)) != 0) == bit8(d, k as int)
{
    assert(k < 8 ==> (((d & (1u8 << k)) != 0) == ((d >> k) & 1u8 == 1u8))) by (bit_vector);
}

/// one iteration of a bit-append loop: `post` is `pre`, extended by one zero byte if position q needs it,
/// with bit q or-ed with `sb`; provided bit q and everything above it was clear in `pre`.
pub proof fn lemma_bit_step(pre: Seq<u8>, post: Seq<u8>, q: int, sb: bool)
    requires
        0 <= q, q < 8 * pre.len() + 8, pre.len() == (q + 7) / 8,
        forall|i: int| q <= i < 8 * pre.len() ==> !bit_at(pre, i),
        post =~= (if q / 8 >= pre.len() { pre.push(0u8) } else { pre })
            .update(q / 8, (if q / 8 >= pre.len() { 0u8 } else { pre[q / 8] }) | (if sb { 1u8 << ((q % 8) as usize) } else { 0u8 })),
    ensures
        post.len() == (q + 8) / 8,
        forall|i: int| 0 <= i < q ==> bit_at(post, i) == bit_at(pre, i),
        bit_at(post, q) == sb,
        forall|i: int| q < i < 8 * post.len() ==> !bit_at(post, i),
{
    let before = if q / 8 >= pre.len() { pre.push(0u8) } else { pre };
    let x = before[q / 8];
    let k: usize = (q % 8) as usize;
    assert forall|i: int| 0 <= i < 8 * before.len() implies
        #[trigger] bit_at(before, i) == (if i < 8 * pre.len() { bit_at(pre, i) } else { false }) by {
        if i < 8 * pre.len() { assert(before[i / 8] == pre[i / 8]); } else {
            assert(before[i / 8] == 0u8);
            lemma_or_bit(0u8, 0usize, (i % 8) as u8);
        }
    }
    assert forall|i: int| 0 <= i < 8 * post.len() implies
        #[trigger] bit_at(post, i) == (if i == q { sb } else { bit_at(before, i) }) by {
        if i / 8 == q / 8 {
            lemma_or_bit(x, k, (i % 8) as u8);
            assert((i == q) == ((i % 8) == k as int));
            assert(post[i / 8] == x | (if sb { 1u8 << k } else { 0u8 }));
            assert(!bit_at(before, q));
            if sb { } else { }
        } else { assert(post[i / 8] == before[i / 8]); }
    }
}

/// cut independence: the bits of a concatenation are the concatenation of the bits
pub proof fn lemma_bits_of_concat(a: Seq<u8>, b: Seq<u8>)
    ensures bits_of(a + b) =~= bits_of(a) + bits_of(b)
{
    let c = a + b;
    assert forall|i: int| 0 <= i < 8 * c.len() implies #[trigger] bit_at(c, i) ==
        (if i < 8 * a.len() { bit_at(a, i) } else { bit_at(b, i - 8 * a.len()) }) by {
        if i < 8 * a.len() { assert(c[i / 8] == a[i / 8]); } else {
            assert(c[i / 8] == b[i / 8 - a.len()]);
            assert((i - 8 * a.len()) / 8 == i / 8 - a.len());
            assert((i - 8 * a.len()) % 8 == i % 8);
        }
    }
}

// ---- little endian ----
pub proof fn lemma_le_bytes64_bit(x: u64, j: int)
    requires 0 <= j < 64
    ensures bit_at(le_bytes64(x), j) == bit64(x, j)
{
    let jj = j as u64;
    let i = (j / 8) as u64;
    let k = (j % 8) as u8;
    assert(jj < 64 && i == jj / 8 && k == (jj % 8) as u8 ==>
        (((((x >> ((8 * i) as u64)) as u8) >> k) & 1u8 == 1u8) == ((x >> jj) & 1u64 == 1u64))) by (bit_vector);
    assert(le_bytes64(x)[j / 8] == (x >> ((8 * i) as u64)) as u8);
}
proof fn lemma_le128_bit_raw(b0: u8, b1: u8, b2: u8, b3: u8, b4: u8, b5: u8, b6: u8, b7: u8,
                         b8: u8, b9: u8, b10: u8, b11: u8, b12: u8, b13: u8, b14: u8, b15: u8, j: u128)
    requires j < 128
    ensures ({
        let v = (b0 as u128) | (b1 as u128) << 8 | (b2 as u128) << 16 | (b3 as u128) << 24
            | (b4 as u128) << 32 | (b5 as u128) << 40 | (b6 as u128) << 48 | (b7 as u128) << 56
            | (b8 as u128) << 64 | (b9 as u128) << 72 | (b10 as u128) << 80 | (b11 as u128) << 88
            | (b12 as u128) << 96 | (b13 as u128) << 104 | (b14 as u128) << 112 | (b15 as u128) << 120;
        let byte: u8 = if j < 8 { b0 } else if j < 16 { b1 } else if j < 24 { b2 } else if j < 32 { b3 }
            else if j < 40 { b4 } else if j < 48 { b5 } else if j < 56 { b6 } else if j < 64 { b7 }
            else if j < 72 { b8 } else if j < 80 { b9 } else if j < 88 { b10 } else if j < 96 { b11 }
            else if j < 104 { b12 } else if j < 112 { b13 } else if j < 120 { b14 } else { b15 };
        ((v >> j) & 1u128 == 1u128) == ((byte >> ((j % 8) as u8)) & 1u8 == 1u8)
    })
{
    assert(j < 128 ==> ({
        let v = (b0 as u128) | (b1 as u128) << 8 | (b2 as u128) << 16 | (b3 as u128) << 24
            | (b4 as u128) << 32 | (b5 as u128) << 40 | (b6 as u128) << 48 | (b7 as u128) << 56
            | (b8 as u128) << 64 | (b9 as u128) << 72 | (b10 as u128) << 80 | (b11 as u128) << 88
            | (b12 as u128) << 96 | (b13 as u128) << 104 | (b14 as u128) << 112 | (b15 as u128) << 120;
        let byte: u8 = if j < 8 { b0 } else if j < 16 { b1 } else if j < 24 { b2 } else if j < 32 { b3 }
            else if j < 40 { b4 } else if j < 48 { b5 } else if j < 56 { b6 } else if j < 64 { b7 }
            else if j < 72 { b8 } else if j < 80 { b9 } else if j < 88 { b10 } else if j < 96 { b11 }
            else if j < 104 { b12 } else if j < 112 { b13 } else if j < 120 { b14 } else { b15 };
        ((v >> j) & 1u128 == 1u128) == ((byte >> ((j % 8) as u8)) & 1u8 == 1u8)
    })) by (bit_vector);
}
pub proof fn lemma_le128_bit(b: Seq<u8>, j: int)
    requires b.len() == 16, 0 <= j < 128
    ensures bit128(le128(b), j) == bit_at(b, j)
{
    lemma_le128_bit_raw(b[0], b[1], b[2], b[3], b[4], b[5], b[6], b[7], b[8], b[9], b[10], b[11], b[12], b[13], b[14], b[15], j as u128);
}
pub proof fn lemma_shift_trunc(v: u128, off: usize, k: int)
    requires off < 8, 0 <= k < 64
    ensures bit64((v >> off) as u64, k) == bit128(v, k + off)
{
    let kk = k as u128; let oo = off as u128;
    assert(oo < 8 && kk < 64 ==> (((((v >> oo) as u64) >> (kk as u64)) & 1u64 == 1u64) == ((v >> ((kk + oo) as u128)) & 1u128 == 1u128))) by (bit_vector);
    assert((v >> off) == (v >> oo)) by (bit_vector) requires oo == off as u128;
}

// ---- bit extensionality on u64, masks, decoding of a chunk ----
pub proof fn lemma_ext(a: u64, b: u64, n: nat)
    requires n <= 64, forall|k: int| 0 <= k < n ==> bit64(a, k) == bit64(b, k),
             n < 64 ==> (a >> (n as u64)) == 0 && (b >> (n as u64)) == 0,
    ensures a == b
    decreases n
{
    if n == 0 {
        assert(a >> 0u64 == a) by (bit_vector);
        assert(b >> 0u64 == b) by (bit_vector);
    } else {
        let m = (n - 1) as nat;
        let mm = m as u64;
        assert(bit64(a, m as int) == bit64(b, m as int));
        let a2 = a & !(1u64 << mm);
        let b2 = b & !(1u64 << mm);
        assert forall|k: int| 0 <= k < m implies bit64(a2, k) == bit64(b2, k) by {
            let kk = k as u64;
            assert(kk < mm && mm < 64 ==> (((a & !(1u64 << mm)) >> kk) & 1u64) == ((a >> kk) & 1u64)) by (bit_vector);
            assert(kk < mm && mm < 64 ==> (((b & !(1u64 << mm)) >> kk) & 1u64) == ((b >> kk) & 1u64)) by (bit_vector);
            assert(kk < mm && mm < 64);
            assert(bit64(a, k) == bit64(b, k));
            assert(bit64(a2, k) == bit64(a, k));
            assert(bit64(b2, k) == bit64(b, k));
        }
        assert(mm < 64 && (mm < 63 ==> (a >> ((mm + 1) as u64)) == 0) ==> ((a & !(1u64 << mm)) >> mm) == 0) by (bit_vector);
        assert(mm < 64 && (mm < 63 ==> (b >> ((mm + 1) as u64)) == 0) ==> ((b & !(1u64 << mm)) >> mm) == 0) by (bit_vector);
        assert(((a >> mm) & 1u64) == 0u64 || ((a >> mm) & 1u64) == 1u64) by (bit_vector);
        assert(((b >> mm) & 1u64) == 0u64 || ((b >> mm) & 1u64) == 1u64) by (bit_vector);
        assert(((a >> mm) & 1u64) == ((b >> mm) & 1u64));
        if n < 64 { assert((a >> ((mm + 1) as u64)) == 0); assert((b >> ((mm + 1) as u64)) == 0); }
        lemma_ext(a2, b2, m);
        assert(mm < 64 && (a & !(1u64 << mm)) == (b & !(1u64 << mm)) && (((a >> mm) & 1u64) == ((b >> mm) & 1u64)) ==> a == b) by (bit_vector);
    }
}
/// x is the number whose bits below |bits| are `bits` and whose other bits are 0
pub open spec fn holds_bits(x: u64, bits: Seq<bool>) -> bool {
    forall|k: int| 0 <= k < 64 ==> bit64(x, k) == (k < bits.len() && bits[k])
}
/// the decoder's view of a chunk of at most 64 bits (unique by bit extensionality)
pub open spec fn chunk_val(bits: Seq<bool>) -> u64 { choose|x: u64| holds_bits(x, bits) }
pub proof fn lemma_chunk_val(x: u64, bits: Seq<bool>)
    requires holds_bits(x, bits)
    ensures chunk_val(bits) == x
{
    let y = chunk_val(bits);
    assert(holds_bits(y, bits));
    assert forall|k: int| 0 <= k < 64 implies bit64(x, k) == bit64(y, k) by { }
    lemma_ext(x, y, 64);
}
pub open spec fn chunk(r: Seq<bool>, j: int, w: int) -> Seq<bool> { r.subrange(j * w, j * w + w) }
pub proof fn lemma_mask(x: u64, w: u64, k: u64)
    requires 1 <= w <= 64, k < 64
    ensures ({ let mask = (((1u128 << (w as u128)) - 1) as u64); bit64(x & mask, k as int) == (k < w && bit64(x, k as int)) })
{
    assert(1 <= w <= 64 && k < 64 ==> ((((x & ((((1u128 << (w as u128)) - 1u128) as u64))) >> k) & 1u64 == 1u64) == (k < w && ((x >> k) & 1u64 == 1u64)))) by (bit_vector);
}
/// u < 2^w  ==> bits of u at and above w are clear
pub proof fn lemma_small_high_bits_clear(u: u64, w: int, k: int)
    requires 0 <= w <= 64, (u as int) < pow2(w), w <= k < 64
    ensures !bit64(u, k)
    decreases w
{
    // by induction on w via halving is awkward; use: u < 2^w <= 2^k  ==> (u >> k) == 0
    lemma_pow2_mono(w, k);
    lemma_pow2_shl(k);
    let kk = k as u64;
    assert(kk < 64 && u < (1u64 << kk) ==> ((u >> kk) & 1u64) == 0u64) by (bit_vector);
}
pub proof fn lemma_pow2_shl(k: int)
    requires 0 <= k < 64
    ensures (1u64 << (k as u64)) as int == pow2(k)
    decreases k
{
    if k == 0 { assert(1u64 << 0u64 == 1u64) by (bit_vector); }
    else {
        lemma_pow2_shl(k - 1);
        let a = (k - 1) as u64; let b = k as u64;
        assert(b < 64 && a + 1 == b ==> (1u64 << b) == 2 * (1u64 << a)) by (bit_vector);
        lemma_pow2_mono(k, 63); lemma_pow2_64();
    }
}
/// decode(encode(u)) == u for u < 2^w : the chunk written by the packer is read back as u
pub proof fn lemma_enc_dec(u: u64, w: int)
    requires 0 <= w <= 64, (u as int) < pow2(w)
    ensures chunk_val(enc_bits(u, w)) == u
{
    let bits = enc_bits(u, w);
    assert forall|k: int| 0 <= k < 64 implies bit64(u, k) == (k < bits.len() && bits[k]) by {
        if k >= w { lemma_small_high_bits_clear(u, w, k); }
    }
    lemma_chunk_val(u, bits);
}
