// ---- binary layouts written by the writer side (C02), specified from the E57 format, not from the reader ----
/// data packet header: byte 0 = packet type 1, byte 1 = flags (bit 0: compressor restart), u16 LE (packet length - 1),
/// u16 LE bytestream count
spec fn spec_data_packet_header(restart: bool, packet_length: u64, count: u16) -> Seq<u8> {
    seq![1u8, if restart { 1u8 } else { 0u8 }] + le_bytes16((packet_length - 1) as u16) + le_bytes16(count)
}
/// compressed vector section header: 32 bytes, byte 0 = section id, bytes 1..8 reserved zero, then three u64 LE:
/// section length, data offset (physical), index offset (physical)
spec fn spec_cv_header(section_id: u8, section_length: u64, data_offset: u64, index_offset: u64) -> Seq<u8> {
    Seq::new(32, |i: int| if i == 0 { section_id } else if i < 8 { 0u8 }
        else if i < 16 { le_bytes64(section_length)[i - 8] } else if i < 24 { le_bytes64(data_offset)[i - 16] } else { le_bytes64(index_offset)[i - 24] })
}
/// file header: 48 bytes = "ASTM-E57", u32 major, u32 minor, u64 file length, u64 XML offset, u64 XML length, u64 page size (LE)
spec fn spec_file_header(sig: Seq<u8>, major: u32, minor: u32, phys_length: u64, xml_offset: u64, xml_length: u64, page_size: u64) -> Seq<u8> {
    sig + le_bytes32(major) + le_bytes32(minor) + le_bytes64(phys_length) + le_bytes64(xml_offset) + le_bytes64(xml_length) + le_bytes64(page_size)
}
proof fn lemma_le64_zero()
    ensures forall|i: int| 0 <= i < 8 ==> #[trigger] le_bytes64(0)[i] == 0u8
{
    assert forall|i: int| 0 <= i < 8 implies #[trigger] le_bytes64(0)[i] == 0u8 by {
        let sh = (8 * i) as u64;
        assert((0u64 >> sh) as u8 == 0u8) by (bit_vector);
    }
}
proof fn lemma_le16_value(x: u16)
    ensures le_bytes16(x)[0] as int + 256 * (le_bytes16(x)[1] as int) == x
{
    assert(((x >> 0u16) as u8) as int + 256 * (((x >> 8u16) as u8) as int) == x as int) by (bit_vector);
}

impl DataPacketHeader {
//@fn src/packet.rs DataPacketHeader write serves=C02,C01,C16,C15 ret=r
//@rw writer: &mut dyn Write ==> writer: &mut PagedWriter
//@sig
        requires old(writer).wf(), 1 <= self.packet_length <= 65536,
        ensures match r {
            Ok(_) => final(writer).wf() && final(writer).no_new_fault(old(writer))
                && appended(*old(writer), *final(writer), spec_data_packet_header(self.comp_restart_flag, self.packet_length, self.bytestream_count)),
            Err(_) => true },
            /*[C15]*/ PagedWriter::c15_far(old(writer), final(writer), r is Ok),
//@tail
        proof { assert(buffer@ =~= spec_data_packet_header(self.comp_restart_flag, self.packet_length, self.bytestream_count)); }
//@endfn
}

impl CompressedVectorSectionHeader {
//@fn src/cv_section.rs CompressedVectorSectionHeader write serves=C02,C01,C16,C15 ret=r
//@rw writer: &mut dyn Write ==> writer: &mut PagedWriter
//@sig
        requires old(writer).wf(),
        ensures match r {
            Ok(_) => final(writer).wf() && final(writer).no_new_fault(old(writer))
                && appended(*old(writer), *final(writer), spec_cv_header(self.section_id, self.section_length, self.data_offset, self.index_offset)),
            Err(_) => true },
            /*[C15]*/ PagedWriter::c15_far(old(writer), final(writer), r is Ok),
//@tail
        proof { assert(buffer@ =~= spec_cv_header(self.section_id, self.section_length, self.data_offset, self.index_offset)); }
//@endfn
}

//@item src/header.rs const MAJOR_VERSION
//@enditem
//@item src/header.rs const MINOR_VERSION
//@enditem
//@item src/header.rs struct Header
//@enditem
spec fn spec_signature() -> Seq<u8> { seq![0x41u8, 0x53u8, 0x54u8, 0x4du8, 0x2du8, 0x45u8, 0x35u8, 0x37u8] }  // "ASTM-E57"

impl Header {
    spec fn bytes(&self) -> Seq<u8> {
        spec_file_header(self.signature@, self.major, self.minor, self.phys_length, self.phys_xml_offset, self.xml_length, self.page_size)
    }
//@fn src/header.rs Header write serves=C02,C15,C16 ret=r
//@rw writer: &mut dyn Write ==> writer: &mut PagedWriter
//@sig
        requires old(writer).wf(),
        ensures match r {
            // the 48 header bytes of the format, in order, at the cursor; nothing else changes
            Ok(_) => final(writer).wf() && final(writer).no_new_fault(old(writer)) && appended(*old(writer), *final(writer), self.bytes())
                // 48 bytes that stay inside the page: no device operation at all
                && (old(writer).offset + 48 < 1020 ==> final(writer).writer == old(writer).writer),
            // 48 bytes inside the page cannot fail: no device operation happens
            Err(_) => old(writer).offset + 48 >= 1020 },
            // C15: a header written anywhere else, or the placeholder (XML length zero) written at offset 0, leaves the XML-length field zero
            /*[C15]*/ (old(writer).quiet() && (old(writer).cursor() >= 40 || (old(writer).cursor() == 0 && self.xml_length == 0)))
                ==> (if r is Ok { final(writer).quiet() } else { final(writer).hist_clean() }),
//@body_start
        let ghost w0 = *writer;
        proof { lemma_le64_zero(); if w0.quiet() { lemma_quiet_clean(w0); } }
//@call write_all 0 after
        let ghost w1 = *writer;
//@call write_all 1 after
        let ghost w2 = *writer;
        proof { lemma_appended_trans(w0, w1, w2, self.signature@, le_bytes32(self.major)); }
//@call write_all 2 after
        let ghost w3 = *writer;
        proof { lemma_appended_trans(w0, w2, w3, self.signature@ + le_bytes32(self.major), le_bytes32(self.minor)); }
//@call write_all 3 after
        let ghost w4 = *writer;
        proof { lemma_appended_trans(w0, w3, w4, self.signature@ + le_bytes32(self.major) + le_bytes32(self.minor), le_bytes64(self.phys_length)); }
//@call write_all 4 after
        let ghost w5 = *writer;
        proof { lemma_appended_trans(w0, w4, w5, self.signature@ + le_bytes32(self.major) + le_bytes32(self.minor) + le_bytes64(self.phys_length), le_bytes64(self.phys_xml_offset)); }
//@call write_all 5 after
        let ghost w6 = *writer;
        proof { lemma_appended_trans(w0, w5, w6, self.signature@ + le_bytes32(self.major) + le_bytes32(self.minor) + le_bytes64(self.phys_length) + le_bytes64(self.phys_xml_offset), le_bytes64(self.xml_length)); }
//@call write_all 6 after
        proof { lemma_appended_trans(w0, w6, *writer, self.signature@ + le_bytes32(self.major) + le_bytes32(self.minor) + le_bytes64(self.phys_length) + le_bytes64(self.phys_xml_offset) + le_bytes64(self.xml_length), le_bytes64(self.page_size)); }
//@endfn
}

//@item src/header.rs const SIGNATURE bytestr
//@rw &\[u8; 8\] ==> &'static [u8; 8]
//@enditem
//@item src/header.rs const PAGE_SIZE
//@rw const PAGE_SIZE ==> const HEADER_PAGE_SIZE
//@enditem
#[verifier::external_body]
fn shim_arr8(b: &[u8], lo: usize, hi: usize) -> (r: Result<[u8; 8]>)
    requires lo + 8 == hi, hi <= b@.len()
    ensures r is Ok, r->Ok_0@ == b@.subrange(lo as int, hi as int)
{ unimplemented!() }
#[verifier::external_body]
fn bytes_eq8(a: &[u8; 8], b: &[u8; 8]) -> (r: bool)
    ensures r == (a@ == b@)
{ a == b }

impl Header {
//@fn src/header.rs Header read serves=C02,C08,C16,C17 ret=r
//@rw reader: &mut dyn Read ==> reader: &mut Dev
//@rw data\[0\.\.8\]\.try_into\(\)\.internal_err\(WRONG_OFFSET\)\? ==> shim_arr8(&data, 0, 8)?
//@rw &header\.signature != SIGNATURE ==> !bytes_eq8(&header.signature, SIGNATURE)
//@rw != PAGE_SIZE ==> != HEADER_PAGE_SIZE
//@sig
        ensures final(reader).data@ == old(reader).data@,
            match r {
                // the header is exactly the 48 bytes at the device position; only the supported signature / version / page size pass
                Ok(h) => old(reader).pos + 48 <= old(reader).data@.len()
                    && h.bytes() =~= old(reader).data@.subrange(old(reader).pos as int, old(reader).pos + 48)
                    && h.signature@ == SIGNATURE@ && h.major == 1 && h.minor == 0 && h.page_size == 1024
                    && final(reader).failed@ == old(reader).failed@,
                Err(_) => true },
//@endfn
}

/// read∘write = id at the level of the contracts: a header that Header::write emitted is what Header::read returns
proof fn theorem_header_roundtrip(h: Header, g: Header)
    requires h.signature@.len() == 8, g.bytes() =~= h.bytes(),
    ensures g.signature@ =~= h.signature@
{
    assert(g.bytes().subrange(0, 8) =~= g.signature@);
    assert(h.bytes().subrange(0, 8) =~= h.signature@);
}
//@lemma signature_is_astm_e57 serves=C02
/// the signature constant extracted from src/header.rs is "ASTM-E57", version 1.0, page size 1024
proof fn signature_is_astm_e57()
    ensures SIGNATURE@ =~= spec_signature(), MAJOR_VERSION == 1, MINOR_VERSION == 0, HEADER_PAGE_SIZE == 1024
{}
//@endlemma
