// UNIT e57w — C02 (file header values, XML placement), C15 (placeholder header), C16 — real code: src/e57_writer.rs, src/header.rs
use vstd::prelude::*;
verus! {
//@nopub
//@grw format!\((?:[^()]|\([^()]*\))*\) ==> ""
//@include ioerr.rs
//@include error.rs
//@include le.rs
//@include dev.rs
//@include page_w_body.rs
//@include hdr_items.rs
//@include fmt_body.rs
//@include e57w_body.rs
} // verus!
fn main() {}
