// UNIT fmt — C02 (binary layouts emitted by the writer match the format; read∘write = id at the header level), C08 (Header::read)
// real code: src/header.rs, src/packet.rs (DataPacketHeader::write), src/cv_section.rs (write) + the parsers of unit rd
use vstd::prelude::*;
use std::collections::VecDeque;
verus! {
//@nopub
//@grw format!\((?:[^()]|\([^()]*\))*\) ==> ""
//@include ioerr.rs
//@include error.rs
//@include le.rs
//@include bits.rs
//@include dev.rs
//@include bits_body.rs
//@include page_w_body.rs
//@include page_r_body.rs
//@include rd_body.rs
//@include fmt_body.rs
} // verus!
fn main() {}
