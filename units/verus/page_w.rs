// UNIT page_w — C11 (writer side), C16 (device faults surface), part of C02/C06/C01 (layout arithmetic)
// real code: src/paged_writer.rs  (default configuration: cargo feature crc32c off)
use vstd::prelude::*;
verus! {
//@nopub
//@include ioerr.rs
//@include error.rs
//@include le.rs
//@include dev.rs
//@include page_w_body.rs
} // verus!
fn main() {}
