// UNIT crc — C07 (the built-in checksum IS CRC-32C, for inputs of every length), C02/C11 (page seals use that function)
// real code: src/crc32.rs (Crc32::new, Crc32::calculate)
use vstd::prelude::*;
verus! {
//@nopub
global size_of usize == 8;
//@include crcspec.rs
//@include crc_body.rs
} // verus!
fn main() {}
