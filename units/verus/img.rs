// UNIT img — C06 (each image's blob and mask descriptors lead to that image's own data), C16 — real code: src/image_writer.rs over Blob::write
use vstd::prelude::*;
verus! {
//@nopub
//@include ioerr.rs
//@include error.rs
//@include le.rs
//@include dev.rs
//@include page_w_body.rs
//@include page_r_body.rs
//@include blob_body.rs
//@include img_body.rs
} // verus!
fn main() {}
