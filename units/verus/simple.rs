// UNIT simple — C05 (decoding table of the simple reader; iterator yields what the raw iterator yields), C08/C09 for these functions
// real code: src/pc_reader_simple.rs {pop_point, next} on top of the extracted QueueReader (rd), PagedReader (page_r), bit streams (bits)
use vstd::prelude::*;
use std::collections::VecDeque;
verus! {
//@nopub
//@grw format!\((?:[^()]|\([^()]*\))*\) ==> ""
//@include ioerr.rs
//@include error.rs
//@include le.rs
//@include bits.rs
//@include dev.rs
//@include bits_body.rs
//@include page_r_body.rs
//@include rd_body.rs
//@include recval.rs
//@include simple_body.rs
} // verus!
fn main() {}
