// Kani leaves of the writer side (C14 / C10): full-domain, loop-free contract harnesses on the real functions
//@target src/pc_writer.rs
//@harness update_min_max_f64 serves=C14 kind=complete fn=update_min/update_max note="all Option<f64> x f64 (bitwise): result = None->Some(v); Some(c) -> Some(v) iff c > v (resp. c < v) else unchanged"
//@harness update_min_max_i64 serves=C14 kind=complete fn=update_min/update_max note="all Option<i64> x i64: running minimum / maximum"
//@harness to_f64_contract serves=C14,C05 kind=complete fn=RecordValue::to_f64 note="all values x all data types except (scaled, scaled): Single/Double/Integer are the value itself as f64; Err exactly for a scaled value with a non-scaled type"
//@harness to_f64_scaled_formula serves=C14,C05 kind=complete fn=RecordValue::to_f64 note="schematic (exact binary grid): scaled integer with scaled type = i*scale+offset"
//@harness to_i64_to_u8_contract serves=C14,C05 kind=complete fn=RecordValue::to_i64 note="to_i64 Ok(i) exactly for Integer value with Integer type; to_u8 Ok(i as u8) exactly when additionally min>=0 && max<=255"
//@harness limits_are_declared_range serves=C14 kind=complete fn=RecordDataType::limits note="all data types: limits = (declared min, declared max) in the value kind of the type"
//@harness default_color_intensity_limits serves=C14 kind=complete fn=ColorLimits::from_record_types note="each colour channel / intensity gets the limits of ITS OWN record type (three distinguishable integer types, symbolic ranges)"
//@harness max_packet_points_total_and_fits serves=C10,C01 kind=bounded fn=get_max_packet_points note="BOUNDED in prototype length (<= 3 records; complete in the ranges): no panic, accepted, >= 1 point, and a packet of that many points fits the 16-bit length field (counterexample finder next to the unbounded Verus proof pcw/get_max_packet_points)"
//@harness validate_groups_reject_incomplete serves=C10 kind=bounded fn=validate_cartesian/validate_spherical/validate_color note="BOUNDED to prototypes of exactly 3 records (names symbolic over the Cartesian / spherical / colour groups, duplicates included): accepted iff the three DISTINCT names of a group are all present or all absent"
//@module
    fn fmt_stub(_a: std::fmt::Arguments<'_>) -> String { String::new() }
    fn same_f64(a: Option<f64>, b: Option<f64>) -> bool {
        match (a, b) { (None, None) => true, (Some(x), Some(y)) => x.to_bits() == y.to_bits(), _ => false }
    }

    #[kani::proof]
    fn update_min_max_f64() {
        let v: f64 = kani::any();
        let old: Option<f64> = kani::any();
        let mut m = old;
        update_min(v, &mut m);
        let expect = match old { None => Some(v), Some(c) => if c > v { Some(v) } else { Some(c) } };
        assert!(same_f64(m, expect));
        let mut m2 = old;
        update_max(v, &mut m2);
        let expect2 = match old { None => Some(v), Some(c) => if c < v { Some(v) } else { Some(c) } };
        assert!(same_f64(m2, expect2));
        // for non-NaN inputs this is the running minimum / maximum
        if let Some(c) = old { if !c.is_nan() && !v.is_nan() {
            assert!(m.unwrap() == c.min(v));
            assert!(m2.unwrap() == c.max(v));
        } }
    }

    #[kani::proof]
    fn update_min_max_i64() {
        let v: i64 = kani::any();
        let old: Option<i64> = kani::any();
        let mut m = old;
        update_min(v, &mut m);
        assert!(m == Some(match old { None => v, Some(c) => c.min(v) }));
        let mut m2 = old;
        update_max(v, &mut m2);
        assert!(m2 == Some(match old { None => v, Some(c) => c.max(v) }));
    }

    fn any_value() -> RecordValue {
        let k: u8 = kani::any();
        match k % 4 {
            0 => RecordValue::Single(kani::any()),
            1 => RecordValue::Double(kani::any()),
            2 => RecordValue::ScaledInteger(kani::any()),
            _ => RecordValue::Integer(kani::any()),
        }
    }
    fn any_type() -> RecordDataType {
        let k: u8 = kani::any();
        match k % 4 {
            0 => RecordDataType::Single { min: kani::any(), max: kani::any() },
            1 => RecordDataType::Double { min: kani::any(), max: kani::any() },
            2 => RecordDataType::ScaledInteger { min: kani::any(), max: kani::any(), scale: kani::any(), offset: kani::any() },
            _ => RecordDataType::Integer { min: kani::any(), max: kani::any() },
        }
    }

    #[kani::proof]
    #[kani::stub(alloc::fmt::format, fmt_stub)]
    fn to_f64_contract() {
        let v = any_value();
        let dt = any_type();
        kani::assume(!matches!((&v, &dt), (RecordValue::ScaledInteger(_), RecordDataType::ScaledInteger { .. })));
        let r = v.to_f64(&dt);
        match (&v, &dt) {
            (RecordValue::Single(s), _) => assert!(matches!(r, Ok(x) if x.to_bits() == (*s as f64).to_bits())),
            (RecordValue::Double(d), _) => assert!(matches!(r, Ok(x) if x.to_bits() == d.to_bits())),
            (RecordValue::Integer(i), _) => assert!(matches!(r, Ok(x) if x.to_bits() == (*i as f64).to_bits())),
            (RecordValue::ScaledInteger(_), _) => assert!(r.is_err()),
        }
        std::mem::forget(r);
    }
    #[kani::proof]
    #[kani::stub(alloc::fmt::format, fmt_stub)]
    fn to_f64_scaled_formula() {
        // schematic: exact binary values, so the result identifies the expression i*scale+offset
        let ints = [0i64, 1, -3, 1000, -65536, 1 << 40];
        let scales = [0.5f64, 4.0, 1.0, -0.25];
        let offsets = [0.0f64, -8.0, 1024.0];
        let a: usize = kani::any(); let b: usize = kani::any(); let c: usize = kani::any();
        kani::assume(a < 6 && b < 4 && c < 3);
        let dt = RecordDataType::ScaledInteger { min: kani::any(), max: kani::any(), scale: scales[b], offset: offsets[c] };
        let r = RecordValue::ScaledInteger(ints[a]).to_f64(&dt);
        assert!(matches!(r, Ok(x) if x == ints[a] as f64 * scales[b] + offsets[c]));
        std::mem::forget(r);
    }
    #[kani::proof]
    #[kani::stub(alloc::fmt::format, fmt_stub)]
    fn to_i64_to_u8_contract() {
        let v = any_value();
        let dt = any_type();
        let r = v.to_i64(&dt);
        match (&v, &dt) {
            (RecordValue::Integer(i), RecordDataType::Integer { .. }) => assert!(matches!(r, Ok(x) if x == *i)),
            _ => assert!(r.is_err()),
        }
        std::mem::forget(r);
        let r8 = v.to_u8(&dt);
        match (&v, &dt) {
            (RecordValue::Integer(i), RecordDataType::Integer { min, max }) if *min >= 0 && *max <= 255 => assert!(matches!(r8, Ok(x) if x == *i as u8)),
            _ => assert!(r8.is_err()),
        }
        std::mem::forget(r8);
    }

    fn same_val(a: &Option<RecordValue>, b: &Option<RecordValue>) -> bool {
        match (a, b) {
            (None, None) => true,
            (Some(RecordValue::Single(x)), Some(RecordValue::Single(y))) => x.to_bits() == y.to_bits(),
            (Some(RecordValue::Double(x)), Some(RecordValue::Double(y))) => x.to_bits() == y.to_bits(),
            (Some(RecordValue::ScaledInteger(x)), Some(RecordValue::ScaledInteger(y))) => x == y,
            (Some(RecordValue::Integer(x)), Some(RecordValue::Integer(y))) => x == y,
            _ => false,
        }
    }

    #[kani::proof]
    fn limits_are_declared_range() {
        let dt = any_type();
        let (lo, hi) = dt.limits();
        let (elo, ehi) = match &dt {
            RecordDataType::Single { min, max } => (min.map(RecordValue::Single), max.map(RecordValue::Single)),
            RecordDataType::Double { min, max } => (min.map(RecordValue::Double), max.map(RecordValue::Double)),
            RecordDataType::ScaledInteger { min, max, .. } => (Some(RecordValue::ScaledInteger(*min)), Some(RecordValue::ScaledInteger(*max))),
            RecordDataType::Integer { min, max } => (Some(RecordValue::Integer(*min)), Some(RecordValue::Integer(*max))),
        };
        assert!(same_val(&lo, &elo) && same_val(&hi, &ehi));
    }

    #[kani::proof]
    fn default_color_intensity_limits() {
        let r = RecordDataType::Integer { min: kani::any(), max: kani::any() };
        let g = RecordDataType::ScaledInteger { min: kani::any(), max: kani::any(), scale: 1.0, offset: 0.0 };
        let b = RecordDataType::Double { min: kani::any(), max: kani::any() };
        let c = ColorLimits::from_record_types(&r, &g, &b);
        let (rl, rh) = r.limits(); let (gl, gh) = g.limits(); let (bl, bh) = b.limits();
        assert!(same_val(&c.red_min, &rl) && same_val(&c.red_max, &rh));
        assert!(same_val(&c.green_min, &gl) && same_val(&c.green_max, &gh));
        assert!(same_val(&c.blue_min, &bl) && same_val(&c.blue_max, &bh));
        let it = any_type();
        let il = IntensityLimits::from_record_type(&it);
        let (l, h) = it.limits();
        assert!(same_val(&il.intensity_min, &l) && same_val(&il.intensity_max, &h));
    }

    #[kani::proof]
    #[kani::unwind(5)]
    #[kani::stub(alloc::fmt::format, fmt_stub)]
    fn max_packet_points_total_and_fits() {
        let n: usize = kani::any();
        kani::assume(n >= 1 && n <= 3);
        let mut proto: Vec<Record> = Vec::new();
        let mut i = 0;
        while i < n {
            proto.push(Record { name: RecordName::CartesianX, data_type: any_type() });
            i += 1;
        }
        let bits: usize = proto.iter().map(|p| p.data_type.bit_size()).sum();
        let r = get_max_packet_points(&proto);
        // a prototype of at most three records always fits: no error, at least one point per packet
        let pts = match &r { Ok(p) => *p, Err(_) => 0 };
        std::mem::forget(r);
        assert!(pts >= 1);
        // a full packet: header + n sizes + ceil(bits per stream) never exceeds the u16 length field
        let payload = (pts * bits + 7) / 8 + n;
        assert!(6 + 2 * n + payload + 3 <= u16::MAX as usize);
    }

    fn pick(names: [RecordName; 4]) -> RecordName {
        let k: u8 = kani::any();
        kani::assume(k < 4);
        names[k as usize].clone()
    }
    fn has(p: &[Record], n: RecordName) -> bool { let mut i = 0; let mut r = false; while i < p.len() { if p[i].name == n { r = true; } i += 1; } r }

    #[kani::proof]
    #[kani::unwind(5)]
    #[kani::stub(alloc::fmt::format, fmt_stub)]
    fn validate_groups_reject_incomplete() {
        let dt = RecordDataType::Double { min: None, max: None };
        // Cartesian group: three records with names drawn from {X, Y, Z, Intensity}
        let names = [RecordName::CartesianX, RecordName::CartesianY, RecordName::CartesianZ, RecordName::Intensity];
        let p = vec![Record { name: pick(names.clone()), data_type: dt.clone() }, Record { name: pick(names.clone()), data_type: dt.clone() }, Record { name: pick(names.clone()), data_type: dt.clone() }];
        let cnt = has(&p, RecordName::CartesianX) as u8 + has(&p, RecordName::CartesianY) as u8 + has(&p, RecordName::CartesianZ) as u8;
        let r = validate_cartesian(&p);
        assert!(r.is_ok() == (cnt == 0 || cnt == 3));
        std::mem::forget(r);
        // spherical group
        let names = [RecordName::SphericalAzimuth, RecordName::SphericalElevation, RecordName::SphericalRange, RecordName::Intensity];
        let p = vec![Record { name: pick(names.clone()), data_type: dt.clone() }, Record { name: pick(names.clone()), data_type: dt.clone() }, Record { name: pick(names.clone()), data_type: dt.clone() }];
        let cnt = has(&p, RecordName::SphericalAzimuth) as u8 + has(&p, RecordName::SphericalElevation) as u8 + has(&p, RecordName::SphericalRange) as u8;
        let r = validate_spherical(&p);
        assert!(r.is_ok() == (cnt == 0 || cnt == 3));
        std::mem::forget(r);
        // colour group
        let names = [RecordName::ColorRed, RecordName::ColorGreen, RecordName::ColorBlue, RecordName::Intensity];
        let p = vec![Record { name: pick(names.clone()), data_type: dt.clone() }, Record { name: pick(names.clone()), data_type: dt.clone() }, Record { name: pick(names.clone()), data_type: dt.clone() }];
        let cnt = has(&p, RecordName::ColorRed) as u8 + has(&p, RecordName::ColorGreen) as u8 + has(&p, RecordName::ColorBlue) as u8;
        let r = validate_color(&p);
        assert!(r.is_ok() == (cnt == 0 || cnt == 3));
        std::mem::forget(r);
    }
