// Kani companion of the bits unit (read side): ByteStreamReadBuffer::extract at every bit phase and width (complete: loop-free
// function, reference loop bounded by the operand width 64, unwinding assertions on)
//@target src/bs_read.rs
//@harness extract_any_phase_any_width serves=C12,C03,C08 kind=complete fn=ByteStreamReadBuffer::extract note="17 symbolic bytes, any consumed offset 0..71 (all 8 phases, 9 start bytes), any width 0..64: Some iff enough bits; bit k of the result = stream bit offset+k (LSB first); offset advances by the width"
//@module
    #[kani::proof]
    #[kani::unwind(66)]
    fn extract_any_phase_any_width() {
        let data: [u8; 17] = kani::any();
        let offset: usize = kani::any();
        let bits: usize = kani::any();
        kani::assume(offset < 72 && bits <= 64);
        let mut bs = ByteStreamReadBuffer { buffer: data.to_vec(), tmp: Vec::new(), offset };
        let avail = 17 * 8 - offset;
        let r = bs.extract(bits);
        if bits > avail {
            assert!(r.is_none());
            assert!(bs.offset == offset);
        } else {
            let v = r.unwrap();
            assert!(bs.offset == offset + bits);
            let mut k = 0;
            while k < 64 {
                if k < bits {
                    let pos = offset + k;
                    let stream_bit = (data[pos / 8] >> (pos % 8)) & 1;
                    assert!(((v >> k) & 1) as u8 == stream_bit);
                }
                k += 1;
            }
        }
    }
