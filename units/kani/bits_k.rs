// Kani companions of the bits unit: full-domain, loop-free or width-bounded harnesses on the real crate
//@target src/record.rs
//@harness integer_bits_is_width serves=C12,C10,C08,C01 kind=complete fn=integer_bits note="all i64 x i64; reference loop bounded by operand width (65), unwinding assertions on"
//@harness serialize_integer_sub_no_overflow serves=C12,C10,C01 kind=complete fn=serialize_integer note="all (min<=value<=max): value-min as computed by serialize_integer does not overflow and equals the mathematical difference"
//@module
    fn ref_width(min: i64, max: i64) -> usize {
        let r = max as i128 - min as i128;
        if r <= 0 { return 0; }
        let mut b = 0usize;
        let mut i = 0;
        while i < 65 { if (r >> i) != 0 { b = i + 1; } i += 1; }
        b
    }
    #[kani::proof]
    #[kani::unwind(67)]
    fn integer_bits_is_width() {
        let min: i64 = kani::any();
        let max: i64 = kani::any();
        assert_eq!(integer_bits(min, max), ref_width(min, max));
    }
    #[kani::proof]
    #[kani::unwind(70)]
    fn serialize_integer_sub_no_overflow() {
        let min: i64 = kani::any();
        let max: i64 = kani::any();
        let v: i64 = kani::any();
        kani::assume(min <= v && v <= max);
        let mut buffer = ByteStreamWriteBuffer::new();
        serialize_integer(v, min, max, &mut buffer);
        let bits = integer_bits(min, max);
        assert_eq!(buffer.all_bytes(), (bits + 7) / 8);
    }
