// Kani companion of the bits unit (write side): ByteStreamWriteBuffer::add_bits on a grid of bit phases and widths with symbolic data.
// The Verus unit proves the contract for ALL phases, widths and buffer lengths on the current body (unbounded); this harness is the
// counterexample finder for any other body of add_bits that Verus cannot take (iterator adapters etc.) and is labelled BOUNDED:
// a fully symbolic (phase, width) harness does not finish in CBMC (Vec with symbolic length in a 64-round loop).
//@target src/bs_write.rs
//@harness add_bits_grid_small serves=C12,C01 kind=bounded fn=ByteStreamWriteBuffer::add_bits note="BOUNDED: phases {0,1,7} x widths {1,8,9,33,61,63,64}, 8 symbolic data bytes, symbolic pending byte: same assertions as add_bits_grid"
//@harness add_bits_grid serves=C12,C01 kind=bounded tier=thorough fn=ByteStreamWriteBuffer::add_bits note="BOUNDED: phases {0,1,4,7} x widths {1,7,8,9,31,33,57,59,61,62,63,64}, 8 symbolic data bytes, symbolic pending byte: bit k of the appended bits = bit k of the data (LSB first), earlier bits untouched, padding bits zero, bit count advances by the width"
//@module
    fn add_bits_case(phase: usize, bits: usize, data: [u8; 8], first: u8) {
        let mut buffer: Vec<u8> = Vec::with_capacity(16);
        if phase != 0 {
            buffer.push(first);
        }
        let mut bs = ByteStreamWriteBuffer { buffer, last_byte_bit: phase };
        bs.add_bits(&data, bits);
        let total = phase + bits;
        assert!(bs.last_byte_bit == total % 8);
        assert!(bs.buffer.len() == (total + 7) / 8);
        let mut k = 0;
        while k < 72 {
            if k < bs.buffer.len() * 8 {
                let got = (bs.buffer[k / 8] >> (k % 8)) & 1;
                let want = if k < phase {
                    (first >> k) & 1
                } else if k < total {
                    let s = k - phase;
                    (data[s / 8] >> (s % 8)) & 1
                } else {
                    0
                };
                assert!(got == want);
            }
            k += 1;
        }
    }

    #[kani::proof]
    #[kani::unwind(74)]
    fn add_bits_grid_small() {
        let raw: [u8; 8] = kani::any();
        let first0: u8 = kani::any();
        let phases = [0usize, 1, 7];
        let widths = [1usize, 8, 9, 33, 61, 63, 64];
        let mut a = 0;
        while a < 3 {
            let mut b = 0;
            while b < 7 {
                let phase = phases[a];
                let bits = widths[b];
                let v = u64::from_le_bytes(raw);
                let masked = if bits == 64 { v } else { v & ((1u64 << bits) - 1) };
                let first = if phase == 0 { 0 } else { first0 & ((1u8 << phase) - 1) };
                add_bits_case(phase, bits, masked.to_le_bytes(), first);
                b += 1;
            }
            a += 1;
        }
    }

    #[kani::proof]
    #[kani::unwind(74)]
    fn add_bits_grid() {
        let raw: [u8; 8] = kani::any();
        let first0: u8 = kani::any();
        let phases = [0usize, 1, 4, 7];
        let widths = [1usize, 7, 8, 9, 31, 33, 57, 59, 61, 62, 63, 64];
        let mut a = 0;
        while a < 4 {
            let mut b = 0;
            while b < 12 {
                let phase = phases[a];
                let bits = widths[b];
                // precondition of add_bits (callers mask the value): source bits above the width are clear
                let v = u64::from_le_bytes(raw);
                let masked = if bits == 64 { v } else { v & ((1u64 << bits) - 1) };
                // representation invariant: bits at/after the phase of the pending byte are zero
                let first = if phase == 0 { 0 } else { first0 & ((1u8 << phase) - 1) };
                add_bits_case(phase, bits, masked.to_le_bytes(), first);
                b += 1;
            }
            a += 1;
        }
    }
