// CRC unit: the built-in checksum is CRC-32C (Castagnoli, reflected polynomial 0x82F63B78, init/final xor 0xFFFFFFFF)
//@target src/crc32.rs
//@harness crc_table_is_castagnoli serves=C07 kind=complete fn=Crc32::new note="all 256 table entries = 8 bitwise reflected division steps (concrete loops 256x8, unwinding assertions on)"
//@harness crc_step_is_bitwise serves=C07 kind=complete fn=Crc32::calculate note="for ALL (state:u32, byte:u8): one table step of the fold closure == 8 bitwise steps"
//@harness crc_init_final_and_vector serves=C07 kind=complete fn=Crc32::calculate note="empty input -> 0; check value crc32c('123456789') = 0xE3069283 (concrete)"
//@harness crc_calculate_len_le_3 serves=C07 kind=bounded fn=Crc32::calculate note="BOUNDED: calculate == bitwise reference for all inputs of length <= 3"
//@module
    fn bitwise_step(state: u32, byte: u8) -> u32 {
        let mut crc = state ^ (byte as u32);
        let mut k = 0;
        while k < 8 {
            crc = if crc & 1 != 0 { (crc >> 1) ^ 0x82F6_3B78 } else { crc >> 1 };
            k += 1;
        }
        crc
    }
    fn bitwise_crc(data: &[u8]) -> u32 {
        let mut s = !0u32;
        let mut i = 0;
        while i < data.len() { s = bitwise_step(s, data[i]); i += 1; }
        !s
    }
    #[kani::proof]
    #[kani::unwind(258)]
    fn crc_table_is_castagnoli() {
        let c = Crc32::new();
        let i: u8 = kani::any();
        assert_eq!(c.table[i as usize], bitwise_step(0, i));
    }
    #[kani::proof]
    #[kani::unwind(258)]
    fn crc_step_is_bitwise() {
        let c = Crc32::new();
        let sum: u32 = kani::any();
        let next: u8 = kani::any();
        // the body of the fold closure in Crc32::calculate
        let index = (sum ^ next as u32) as u8;
        let table_step = c.table[index as usize] ^ (sum >> 8);
        assert_eq!(table_step, bitwise_step(sum, next));
        // and through calculate itself on a one-byte input with the standard init/final xor
        let mut c2 = Crc32::new();
        assert_eq!(c2.calculate(&[next]), !bitwise_step(!0u32, next));
    }
    #[kani::proof]
    #[kani::unwind(258)]
    fn crc_init_final_and_vector() {
        let mut c = Crc32::new();
        assert_eq!(c.calculate(&[]), 0);
        assert_eq!(c.calculate(b"123456789"), 0xE306_9283);
    }
    #[kani::proof]
    #[kani::unwind(258)]
    fn crc_calculate_len_le_3() {
        let mut c = Crc32::new();
        let data: [u8; 3] = kani::any();
        let n: usize = kani::any();
        kani::assume(n <= 3);
        assert_eq!(c.calculate(&data[..n]), bitwise_crc(&data[..n]));
    }
