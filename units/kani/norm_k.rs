// C13 layer 1: Range / normalize_value over the FULL f64 domain (loop-free harnesses = complete)
//@target src/pc_reader_simple.rs
//@harness normalize_never_nan_nonneg_zero_at_min serves=C13,C08 kind=complete fn=Range::normalize note="all f64 (min,max) accepted by from_min_max x all finite v: no panic (clamp), result not NaN, >= 0, == 0 for v <= min, == 0 for a degenerate range"
//@harness from_min_max_accepts_exactly_ordered_finite serves=C13,C08 kind=complete fn=Range::from_min_max note="all f64 pairs: Ok iff min <= max and both finite (NaN / infinite limits rejected, never a panic); Ok keeps min,max bit for bit"
//@harness normalize_value_switch serves=C13 kind=complete fn=PointCloudReaderSimple::normalize_value note="disabled => value as f32 bit for bit; enabled without range => 0; enabled with range => Range::normalize"
//@harness normalize_value_enabled_is_normalised serves=C13 kind=complete fn=PointCloudReaderSimple::normalize_value note="all f64 (min,max) accepted by from_min_max x all finite v, normalisation enabled, range present: the DELIVERED value (not only Range::normalize) is never NaN, >= 0, 0 at or below the minimum, 0 for a degenerate range"
//@harness normalize_value_enabled_delegates serves=C13 kind=complete fn=PointCloudReaderSimple::normalize_value note="schematic: enabled with a range => Range::normalize of that range (exact grid)"
//@harness from_limits_selection serves=C13 kind=complete fn=Range::from_limits note="Some exactly when both limits present and of the same kind among Double/Single/Integer, built from those values as f64"
//@harness from_record_data_type_ranges serves=C13 kind=complete fn=Range::from_record_data_type note="declared min/max else the type extremes; scaled integers through min*scale+offset"
//@harness normalize_structure_grid serves=C13 kind=complete fn=Range::normalize note="schematic: on a grid of exact binary values normalize(v) == ((clamp(v)-min)/(max-min)) exactly (identifies the expression: operands, order, clamp)"
//@module
    fn fmt_stub(_a: std::fmt::Arguments<'_>) -> String { String::new() }

    #[kani::proof]
    #[kani::stub(alloc::fmt::format, fmt_stub)]
    fn normalize_never_nan_nonneg_zero_at_min() {
        let min: f64 = kani::any();
        let max: f64 = kani::any();
        let v: f64 = kani::any();
        kani::assume(v.is_finite());
        if let Ok(r) = Range::from_min_max(min, max) {
            let n = r.normalize(v);
            assert!(!n.is_nan());
            assert!(n >= 0.0);
            if v <= min { assert!(n == 0.0); }
            if min == max { assert!(n == 0.0); }
        }
    }

    #[kani::proof]
    #[kani::stub(alloc::fmt::format, fmt_stub)]
    fn from_min_max_accepts_exactly_ordered_finite() {
        let min: f64 = kani::any();
        let max: f64 = kani::any();
        match Range::from_min_max(min, max) {
            Ok(r) => {
                assert!(min <= max && min.is_finite() && max.is_finite());
                assert!(r.min.to_bits() == min.to_bits() && r.max.to_bits() == max.to_bits());
            }
            Err(_) => assert!(!(min <= max) || !min.is_finite() || !max.is_finite()),
        }
    }

    // normalize_value never reads `self`: its text is copied mechanically from /repo on every run with the
    // unused receiver dropped (the only rewrite), because a PointCloudReaderSimple cannot be built cheaply in Kani
//@extract src/pc_reader_simple.rs PointCloudReaderSimple normalize_value as normalize_value_free ;; \(&self, ==> (
    #[kani::proof]
    #[kani::stub(alloc::fmt::format, fmt_stub)]
    fn normalize_value_switch() {
        let v: f64 = kani::any();
        let min: f64 = kani::any();
        let max: f64 = kani::any();
        let with_range: bool = kani::any();
        kani::assume(v.is_finite());
        let range = if with_range { match Range::from_min_max(min, max) { Ok(r) => Some(r), Err(_) => None } } else { None };
        // disabled: the stored value unchanged as f32, whatever the range
        let got = normalize_value_free(false, v, &range);
        assert!(got.to_bits() == (v as f32).to_bits());
        // enabled without a usable range: 0
        let none: Option<Range> = None;
        assert!(normalize_value_free(true, v, &none) == 0.0);
    }
    #[kani::proof]
    #[kani::stub(alloc::fmt::format, fmt_stub)]
    fn normalize_value_enabled_is_normalised() {
        let min: f64 = kani::any();
        let max: f64 = kani::any();
        let v: f64 = kani::any();
        kani::assume(v.is_finite());
        if let Ok(r) = Range::from_min_max(min, max) {
            let range = Some(r);
            let n = normalize_value_free(true, v, &range);
            assert!(!n.is_nan());
            assert!(n >= 0.0);
            if v <= min { assert!(n == 0.0); }
            if min == max { assert!(n == 0.0); }
        }
    }
    #[kani::proof]
    #[kani::stub(alloc::fmt::format, fmt_stub)]
    fn normalize_value_enabled_delegates() {
        // enabled with a range: Range::normalize of that range (exact grid, so the value identifies the call)
        let fracs = [0.0f64, 0.25, 0.5, 1.0];
        let k: usize = kani::any();
        kani::assume(k < 4);
        let range = Some(Range::from_min_max(-2.0, 6.0).unwrap_or_else(|_| panic!()));
        assert!(normalize_value_free(true, -2.0 + 8.0 * fracs[k], &range) == fracs[k] as f32);
    }
    #[kani::proof]
    #[kani::stub(alloc::fmt::format, fmt_stub)]
    fn from_limits_selection() {
        fn any_val() -> Option<RecordValue> {
            let k: u8 = kani::any();
            match k % 5 {
                0 => None,
                1 => Some(RecordValue::Double(kani::any())),
                2 => Some(RecordValue::Single(kani::any())),
                3 => Some(RecordValue::Integer(kani::any())),
                _ => Some(RecordValue::ScaledInteger(kani::any())),
            }
        }
        let a = any_val();
        let b = any_val();
        let as_f = |x: &Option<RecordValue>| match x {
            Some(RecordValue::Double(d)) => Some((0u8, *d)),
            Some(RecordValue::Single(s)) => Some((1u8, *s as f64)),
            Some(RecordValue::Integer(i)) => Some((2u8, *i as f64)),
            _ => None,
        };
        let expect = match (as_f(&a), as_f(&b)) { (Some((ka, x)), Some((kb, y))) if ka == kb => Some((x, y)), _ => None };
        match Range::from_limits(&a, &b) {
            Ok(Some(r)) => { let (x, y) = expect.unwrap(); assert!(r.min.to_bits() == x.to_bits() && r.max.to_bits() == y.to_bits()); }
            Ok(None) => assert!(expect.is_none()),
            Err(_) => { let (x, y) = expect.unwrap(); assert!(!(x <= y) || !x.is_finite() || !y.is_finite()); }
        }
    }

    #[kani::proof]
    #[kani::stub(alloc::fmt::format, fmt_stub)]
    fn from_record_data_type_ranges() {
        let k: u8 = kani::any();
        let (dt, lo, hi) = match k % 4 {
            0 => { let mn: Option<f32> = kani::any(); let mx: Option<f32> = kani::any();
                   (RecordDataType::Single { min: mn, max: mx }, mn.unwrap_or(f32::MIN) as f64, mx.unwrap_or(f32::MAX) as f64) }
            1 => { let mn: Option<f64> = kani::any(); let mx: Option<f64> = kani::any();
                   (RecordDataType::Double { min: mn, max: mx }, mn.unwrap_or(f64::MIN), mx.unwrap_or(f64::MAX)) }
            2 => { let mn: i64 = kani::any(); let mx: i64 = kani::any();
                   (RecordDataType::Integer { min: mn, max: mx }, mn as f64, mx as f64) }
            _ => { let tab = [0i64, 1, -3, 255, 4096, -65536];
                   let a: usize = kani::any(); let b: usize = kani::any(); kani::assume(a < 6 && b < 6);
                   let mn = tab[a]; let mx = tab[b];
                   // schematic: exact binary values so that min*scale+offset identifies the expression
                   let scale: f64 = if kani::any() { 0.5 } else { 4.0 }; let offset: f64 = if kani::any() { 0.0 } else { -8.0 };
                   (RecordDataType::ScaledInteger { min: mn, max: mx, scale, offset }, mn as f64 * scale + offset, mx as f64 * scale + offset) }
        };
        match Range::from_record_data_type(&dt) {
            Ok(r) => assert!(r.min.to_bits() == lo.to_bits() && r.max.to_bits() == hi.to_bits()),
            Err(_) => assert!(!(lo <= hi) || !lo.is_finite() || !hi.is_finite()),
        }
    }

    #[kani::proof]
    #[kani::stub(alloc::fmt::format, fmt_stub)]
    fn normalize_structure_grid() {
        // exact binary grid: every operation below is exact, so the value identifies the expression
        let mins = [0.0f64, 1.0, -2.0, 0.5, -1024.0];
        let widths = [1.0f64, 2.0, 8.0, 0.25, 4096.0];
        let fracs = [0.0f64, 0.125, 0.25, 0.5, 0.75, 1.0];
        let i: usize = kani::any(); let j: usize = kani::any(); let k: usize = kani::any();
        kani::assume(i < 5 && j < 5 && k < 6);
        let min = mins[i]; let max = mins[i] + widths[j];
        let below: bool = kani::any(); let above: bool = kani::any();
        let v = if below { min - 3.0 } else if above { max + 5.0 } else { min + fracs[k] * widths[j] };
        let r = Range::from_min_max(min, max).unwrap_or_else(|_| panic!());
        let expect: f32 = if below { 0.0 } else if above { 1.0 } else { fracs[k] as f32 };
        assert!(r.normalize(v) == expect);
    }
