// C05: post-processing functions of the simple reader. Decision structure over the full domain (no arithmetic
// involved); formulas SCHEMATICALLY with libm abstracted (distinct powers of two per (function, argument), so
// the exact result identifies which function was applied to which argument in which slot).
//@target src/pc_reader_simple.rs
//@harness to_cartesian_structure serves=C05 kind=complete fn=convert_to_cartesian note="all points: valid Cartesian kept; else valid spherical converted to valid Cartesian; else Cartesian direction kept; else spherical direction converted; all other fields bit-identical"
//@harness to_cartesian_formula serves=C05 kind=complete fn=convert_to_cartesian note="schematic: x = r*cos(el)*cos(az), y = r*cos(el)*sin(az), z = r*sin(el) (libm stubbed by powers of two, symbolic exact-grid range); direction uses r = 1"
//@harness to_spherical_structure_and_formula serves=C05 kind=complete fn=convert_to_spherical note="structure over all points; schematic formula r = sqrt(x2+y2+z2), az = atan2(y,x) (asymmetric stub), el = asin(z/r)"
//@harness intensity_to_color serves=C05 kind=complete fn=convert_intensity note="all points: colour kept if present; else grey from intensity; else none; other fields untouched"
//@harness transform_point_formula serves=C05 kind=complete fn=transform_point note="only valid Cartesian points change; schematic: p' = R*p + t with R stored column-major (exact power-of-two grid identifies every product)"
//@harness rotation_matrix_from_quaternion serves=C05 kind=complete fn=PointCloudReaderSimple::prepare_transform note="schematic: quaternion (2,4,16,256) -> the 9 entries of the unit-quaternion rotation matrix, column-major; missing pose -> identity rotation, zero translation"
//@module
    fn fmt_stub(_a: std::fmt::Arguments<'_>) -> String { String::new() }
    fn any_cart() -> CartesianCoordinate {
        let k: u8 = kani::any();
        match k % 3 {
            0 => CartesianCoordinate::Valid { x: kani::any(), y: kani::any(), z: kani::any() },
            1 => CartesianCoordinate::Direction { x: kani::any(), y: kani::any(), z: kani::any() },
            _ => CartesianCoordinate::Invalid,
        }
    }
    fn any_sph() -> SphericalCoordinate {
        let k: u8 = kani::any();
        match k % 3 {
            0 => SphericalCoordinate::Valid { range: kani::any(), azimuth: kani::any(), elevation: kani::any() },
            1 => SphericalCoordinate::Direction { azimuth: kani::any(), elevation: kani::any() },
            _ => SphericalCoordinate::Invalid,
        }
    }
    fn any_point() -> Point {
        let color = if kani::any() { Some(Color { red: kani::any(), green: kani::any(), blue: kani::any() }) } else { None };
        Point { cartesian: any_cart(), spherical: any_sph(), color, intensity: kani::any(), row: kani::any(), column: kani::any() }
    }
    fn b(x: f64) -> u64 { x.to_bits() }
    fn same_cart(a: &CartesianCoordinate, c: &CartesianCoordinate) -> bool {
        match (a, c) {
            (CartesianCoordinate::Valid { x, y, z }, CartesianCoordinate::Valid { x: x2, y: y2, z: z2 }) => b(*x) == b(*x2) && b(*y) == b(*y2) && b(*z) == b(*z2),
            (CartesianCoordinate::Direction { x, y, z }, CartesianCoordinate::Direction { x: x2, y: y2, z: z2 }) => b(*x) == b(*x2) && b(*y) == b(*y2) && b(*z) == b(*z2),
            (CartesianCoordinate::Invalid, CartesianCoordinate::Invalid) => true,
            _ => false,
        }
    }
    fn same_sph(a: &SphericalCoordinate, c: &SphericalCoordinate) -> bool {
        match (a, c) {
            (SphericalCoordinate::Valid { range, azimuth, elevation }, SphericalCoordinate::Valid { range: r2, azimuth: a2, elevation: e2 }) => b(*range) == b(*r2) && b(*azimuth) == b(*a2) && b(*elevation) == b(*e2),
            (SphericalCoordinate::Direction { azimuth, elevation }, SphericalCoordinate::Direction { azimuth: a2, elevation: e2 }) => b(*azimuth) == b(*a2) && b(*elevation) == b(*e2),
            (SphericalCoordinate::Invalid, SphericalCoordinate::Invalid) => true,
            _ => false,
        }
    }
    fn same_color(a: &Option<Color>, c: &Option<Color>) -> bool {
        match (a, c) {
            (None, None) => true,
            (Some(x), Some(y)) => x.red.to_bits() == y.red.to_bits() && x.green.to_bits() == y.green.to_bits() && x.blue.to_bits() == y.blue.to_bits(),
            _ => false,
        }
    }
    fn same_rest(a: &Point, c: &Point) -> bool {
        same_color(&a.color, &c.color) && a.row == c.row && a.column == c.column
            && match (a.intensity, c.intensity) { (None, None) => true, (Some(x), Some(y)) => x.to_bits() == y.to_bits(), _ => false }
    }
    // libm abstraction: any total functions will do for the structure harnesses
    fn cos_stub(x: f64) -> f64 { if x == 3.0 { 2.0 } else if x == 5.0 { 4.0 } else { 0.5 } }      // cos(E)=2, cos(A)=4
    fn sin_stub(x: f64) -> f64 { if x == 3.0 { 16.0 } else if x == 5.0 { 8.0 } else { 0.25 } }    // sin(E)=16, sin(A)=8
    fn sqrt_stub(x: f64) -> f64 { if x == 276.0 { 32.0 } else { 1024.0 } }
    fn atan2_stub(y: f64, x: f64) -> f64 { y * 1024.0 + x }
    fn asin_stub(x: f64) -> f64 { x + 100.0 }

    #[kani::proof]
    #[kani::stub(f64::cos, cos_stub)]
    #[kani::stub(f64::sin, sin_stub)]
    fn to_cartesian_structure() {
        let p0 = any_point();
        let mut p = p0.clone();
        convert_to_cartesian(&mut p);
        assert!(same_sph(&p.spherical, &p0.spherical) && same_rest(&p, &p0));
        match (&p0.cartesian, &p0.spherical) {
            (CartesianCoordinate::Valid { .. }, _) => assert!(same_cart(&p.cartesian, &p0.cartesian)),
            (_, SphericalCoordinate::Valid { .. }) => assert!(matches!(p.cartesian, CartesianCoordinate::Valid { .. })),
            (CartesianCoordinate::Direction { .. }, _) => assert!(same_cart(&p.cartesian, &p0.cartesian)),
            (_, SphericalCoordinate::Direction { .. }) => assert!(matches!(p.cartesian, CartesianCoordinate::Direction { .. })),
            _ => assert!(same_cart(&p.cartesian, &p0.cartesian)),
        }
    }

    #[kani::proof]
    #[kani::stub(f64::cos, cos_stub)]
    #[kani::stub(f64::sin, sin_stub)]
    fn to_cartesian_formula() {
        let ranges = [1.0f64, 0.5, 7.0, 1024.0, -3.0];
        let k: usize = kani::any();
        kani::assume(k < 5);
        let r = ranges[k];
        let mut p = Point { cartesian: CartesianCoordinate::Invalid, spherical: SphericalCoordinate::Valid { range: r, azimuth: 5.0, elevation: 3.0 },
                            color: None, intensity: None, row: 0, column: 0 };
        convert_to_cartesian(&mut p);
        // x = r cos(el) cos(az), y = r cos(el) sin(az), z = r sin(el)
        assert!(matches!(p.cartesian, CartesianCoordinate::Valid { x, y, z } if x == r * 2.0 * 4.0 && y == r * 2.0 * 8.0 && z == r * 16.0));
        let mut d = Point { cartesian: CartesianCoordinate::Invalid, spherical: SphericalCoordinate::Direction { azimuth: 5.0, elevation: 3.0 },
                            color: None, intensity: None, row: 0, column: 0 };
        convert_to_cartesian(&mut d);
        assert!(matches!(d.cartesian, CartesianCoordinate::Direction { x, y, z } if x == 8.0 && y == 16.0 && z == 16.0));
    }

    #[kani::proof]
    #[kani::stub(f64::sqrt, sqrt_stub)]
    #[kani::stub(f64::atan2, atan2_stub)]
    #[kani::stub(f64::asin, asin_stub)]
    fn to_spherical_structure_and_formula() {
        let p0 = any_point();
        let mut p = p0.clone();
        convert_to_spherical(&mut p);
        assert!(same_cart(&p.cartesian, &p0.cartesian) && same_rest(&p, &p0));
        match (&p0.spherical, &p0.cartesian) {
            (SphericalCoordinate::Valid { .. }, _) => assert!(same_sph(&p.spherical, &p0.spherical)),
            (_, CartesianCoordinate::Valid { .. }) => assert!(matches!(p.spherical, SphericalCoordinate::Valid { .. })),
            (SphericalCoordinate::Direction { .. }, _) => assert!(same_sph(&p.spherical, &p0.spherical)),
            (_, CartesianCoordinate::Direction { .. }) => assert!(matches!(p.spherical, SphericalCoordinate::Direction { .. })),
            _ => assert!(same_sph(&p.spherical, &p0.spherical)),
        }
        // formula on an exact point: x=2, y=4, z=16: x2+y2+z2 = 276 -> r = 32; az = atan2(y, x); el = asin(z / r)
        let mut q = Point { cartesian: CartesianCoordinate::Valid { x: 2.0, y: 4.0, z: 16.0 }, spherical: SphericalCoordinate::Invalid,
                            color: None, intensity: None, row: 0, column: 0 };
        convert_to_spherical(&mut q);
        assert!(matches!(q.spherical, SphericalCoordinate::Valid { range, azimuth, elevation }
            if range == 32.0 && azimuth == 4.0 * 1024.0 + 2.0 && elevation == 16.0 / 32.0 + 100.0));
        let mut d = Point { cartesian: CartesianCoordinate::Direction { x: 2.0, y: 4.0, z: 16.0 }, spherical: SphericalCoordinate::Invalid,
                            color: None, intensity: None, row: 0, column: 0 };
        convert_to_spherical(&mut d);
        assert!(matches!(d.spherical, SphericalCoordinate::Direction { azimuth, elevation }
            if azimuth == 4.0 * 1024.0 + 2.0 && elevation == 16.0 / 32.0 + 100.0));
    }

    #[kani::proof]
    fn intensity_to_color() {
        let p0 = any_point();
        let mut p = p0.clone();
        convert_intensity(&mut p);
        assert!(same_cart(&p.cartesian, &p0.cartesian) && same_sph(&p.spherical, &p0.spherical) && p.row == p0.row && p.column == p0.column);
        assert!(match (p0.intensity, p.intensity) { (None, None) => true, (Some(x), Some(y)) => x.to_bits() == y.to_bits(), _ => false });
        match (&p0.color, p0.intensity) {
            (Some(_), _) => assert!(same_color(&p.color, &p0.color)),
            (None, Some(i)) => assert!(matches!(&p.color, Some(c) if c.red.to_bits() == i.to_bits() && c.green.to_bits() == i.to_bits() && c.blue.to_bits() == i.to_bits())),
            (None, None) => assert!(p.color.is_none()),
        }
    }

    #[kani::proof]
    fn transform_point_formula() {
        // structure: anything but a valid Cartesian coordinate is left alone
        let p0 = any_point();
        let rot: [f64; 9] = kani::any();
        let t = Translation { x: kani::any(), y: kani::any(), z: kani::any() };
        let mut p = p0.clone();
        transform_point(&mut p, &rot, &t);
        assert!(same_sph(&p.spherical, &p0.spherical) && same_rest(&p, &p0));
        if !matches!(p0.cartesian, CartesianCoordinate::Valid { .. }) { assert!(same_cart(&p.cartesian, &p0.cartesian)); }
        // formula, schematic: R column-major, entries 2^0..2^8, p = (1, 2^10, 2^20), t = (2^-1, 2^-2, 2^-3): every term is a distinct power of two
        let r = [1.0f64, 2.0, 4.0, 8.0, 16.0, 32.0, 64.0, 128.0, 256.0];
        let tt = Translation { x: 0.5, y: 0.25, z: 0.125 };
        let (x, y, z) = (1.0f64, 1024.0, 1048576.0);
        let mut q = Point { cartesian: CartesianCoordinate::Valid { x, y, z }, spherical: SphericalCoordinate::Invalid, color: None, intensity: None, row: 0, column: 0 };
        transform_point(&mut q, &r, &tt);
        assert!(matches!(q.cartesian, CartesianCoordinate::Valid { x: nx, y: ny, z: nz }
            if nx == 1.0 * x + 8.0 * y + 64.0 * z + 0.5 && ny == 2.0 * x + 16.0 * y + 128.0 * z + 0.25 && nz == 4.0 * x + 32.0 * y + 256.0 * z + 0.125));
    }

    // prepare_transform never touches `self`/T: copied mechanically as a free function
//@extract src/pc_reader_simple.rs PointCloudReaderSimple prepare_transform as prepare_transform_free
    #[kani::proof]
    #[kani::unwind(3)]
    fn rotation_matrix_from_quaternion() {
        let (w, x, y, z) = (2.0f64, 4.0, 16.0, 256.0);
        let pc = PointCloud { transform: Some(Transform { rotation: crate::Quaternion { w, x, y, z }, translation: Translation { x: 3.0, y: 5.0, z: 7.0 } }), ..Default::default() };
        let (m, t) = prepare_transform_free(&pc);
        // rotation matrix of a unit quaternion, stored column-major: m[3*col + row]
        assert!(m[0] == w * w + x * x - y * y - z * z && m[3] == 2.0 * (x * y - w * z) && m[6] == 2.0 * (x * z + w * y));
        assert!(m[1] == 2.0 * (x * y + w * z) && m[4] == w * w - x * x + y * y - z * z && m[7] == 2.0 * (y * z - w * x));
        assert!(m[2] == 2.0 * (x * z - w * y) && m[5] == 2.0 * (y * z + w * x) && m[8] == w * w - x * x - y * y + z * z);
        assert!(t.x == 3.0 && t.y == 5.0 && t.z == 7.0);
        let (mi, ti) = prepare_transform_free(&PointCloud::default());
        assert!(mi[0] == 1.0 && mi[4] == 1.0 && mi[8] == 1.0 && mi[1] == 0.0 && mi[2] == 0.0 && mi[3] == 0.0 && mi[5] == 0.0 && mi[6] == 0.0 && mi[7] == 0.0);
        assert!(ti.x == 0.0 && ti.y == 0.0 && ti.z == 0.0);
        std::mem::forget(pc);
    }
