// BOUNDED executable contract check of the point cloud writer (stand-in; never counted as proved): the real PointCloudWriter through the
// public writer API on an in-memory file, checked against the contract of the Verus unit pcw: add_point accepts exactly the points
// whose every value fits its record type; a rejected point changes nothing (not counted, not stored, bounds untouched); bounds are
// the exact min/max over the ACCEPTED points; the raw values read back are exactly the accepted ones, in order.
//@target src/pc_writer.rs
//@check accept_reject_bounds_roundtrip serves=C14,C10,C01 fn=PointCloudWriter::{add_point,write_buffer_to_disk,finalize} note="BOUNDED: prototype X,Y,Z (f64) + Intensity Integer 0..=100 + ColorRed Integer -5..=1000; 3 deterministic point streams of 0, 7 and 3000 points (several packets) with every 3rd/5th point invalid in a LATER attribute (out of range above / below, wrong variant); bounds, record count and raw read-back compared"
//@check roundtrip_any_section_alignment serves=C01,C02,C10,C16 fn=PointCloudWriter::{new,write_buffer_to_disk,finalize} note="BOUNDED: a blob of every 4-aligned payload length 0..2100 in front of the point cloud (moves section header, packet header, stream-size table and stream data across page boundaries), 40 points, raw read-back and CRC validation compared"
//@check wide_integers_and_all_bounds serves=C14,C12,C01,C10 fn=PointCloudWriter::add_point,BitPack::unpack_ints,BitPack::unpack_scaled_ints,integer_bits,serialize_integer note="BOUNDED: spherical coordinates (f64) + row / column / return index records with ranges 0..=i64::MAX, i64::MIN..=i64::MAX, -10..=i64::MAX + a ScaledInteger intensity over -2^62..=2^62; 9 points with values at both ends of every range, 2^53+1 and neighbours; spherical and index bounds exact over the points; raw read-back exact"
//@check point_counts_around_packet_capacity serves=C01,C02 fn=PointCloudWriter::{add_point,write_buffer_to_disk,finalize,get_max_packet_points} note="BOUNDED: prototype 3 x f32 + 11-bit integer (packets hold ~4861 points) with every point count 4850..=4870 and 9715..=9730, and 3 x 19-bit scaled integers with 9120..=9130: counts that are exact multiples of the packet capacity, one less, one more (last partial flush with an empty point buffer); raw read-back exact"
//@check degenerate_prototypes_are_rejected_or_work serves=C10,C14,C09 fn=PointCloudWriter::{new,validate_prototype,add_point,finalize},get_max_packet_points note="BOUNDED: prototypes of X,Y,Z plus 10 / 5000 / 5300 / 6000 / 21674 / 21700 / 40000 double extension records (around the two limits: one point per packet, more bits than a packet holds, more records than the packet header table holds) and 9 prototypes with a duplicated record name (same type, other type, flag attributes): add_pointcloud / add_point / finalize return within 120 s (watchdog) without a panic; an accepted prototype round-trips its points; when add_point is rejected the stored bounds stay those of the accepted points"
//@check constant_records_have_bounds serves=C14 fn=PointCloudWriter::{add_point,finalize} note="BOUNDED: Cartesian Z, spherical elevation (scaled integers) and row / column / return index records declared with min == max (zero stored bits): after 1 and after 5 points the stored bounds of these attributes are Some(the constant) on both sides, as for every other attribute; the points read back carry the constant"
//@module
    use crate::{E57Reader, E57Writer, RecordDataType, RecordName, RecordValue};
    use std::io::Cursor;

    fn proto() -> Vec<Record> {
        vec![
            Record::CARTESIAN_X_F64,
            Record::CARTESIAN_Y_F64,
            Record::CARTESIAN_Z_F64,
            Record { name: RecordName::Intensity, data_type: RecordDataType::Integer { min: 0, max: 100 } },
            Record { name: RecordName::ColorRed, data_type: RecordDataType::Integer { min: -5, max: 1000 } },
            Record { name: RecordName::ColorGreen, data_type: RecordDataType::Integer { min: -5, max: 1000 } },
            Record { name: RecordName::ColorBlue, data_type: RecordDataType::Integer { min: -5, max: 1000 } },
        ]
    }

    #[test]
    fn accept_reject_bounds_roundtrip() {
        for n in [0usize, 7, 3000] {
            let what = format!("points={n}");
            let mut file = Cursor::new(Vec::new());
            let mut accepted: Vec<Vec<RecordValue>> = Vec::new();
            {
                let mut w = E57Writer::new(&mut file, "guid-file").expect(&what);
                let mut pcw = w.add_pointcloud("guid-pc", proto()).expect(&what);
                for i in 0..n {
                    let x = (i as f64) * 1.5 - 100.0;
                    let y = 1000.0 - (i as f64) * 0.25;
                    let z = ((i * 37) % 101) as f64 - 50.0;
                    let mut p = vec![
                        RecordValue::Double(x),
                        RecordValue::Double(y),
                        RecordValue::Double(z),
                        RecordValue::Integer((i % 101) as i64),
                        RecordValue::Integer((i % 1006) as i64 - 5),
                        RecordValue::Integer(1000 - (i % 1006) as i64),
                        RecordValue::Integer(7),
                    ];
                    let mut valid = true;
                    if i % 3 == 1 {
                        // a LATER attribute is out of range: the coordinates before it must not reach the bounds
                        p[0] = RecordValue::Double(1.0e9 + i as f64);
                        p[3] = RecordValue::Integer(101 + (i % 2) as i64 * 27);
                        valid = false;
                    } else if i % 5 == 2 {
                        p[2] = RecordValue::Double(-1.0e9);
                        p[6] = RecordValue::Integer(-6);
                        valid = false;
                    } else if i % 7 == 4 {
                        p[1] = RecordValue::Double(5.0e9);
                        p[5] = RecordValue::Double(3.0);
                        valid = false;
                    }
                    let r = pcw.add_point(p.clone());
                    assert_eq!(r.is_ok(), valid, "add_point must accept exactly the representable points: {what} point {i}");
                    if valid {
                        accepted.push(p);
                    }
                }
                pcw.finalize().expect(&what);
                w.finalize().expect(&what);
            }
            file.set_position(0);
            let mut r = E57Reader::new(file).expect(&what);
            let pcs = r.pointclouds();
            assert_eq!(pcs.len(), 1, "{what}");
            let pc = pcs[0].clone();
            assert_eq!(pc.records, accepted.len() as u64, "record count = accepted points: {what}");
            let f = |k: usize| accepted.iter().map(move |p| match p[k] { RecordValue::Double(v) => v, _ => unreachable!() });
            let b = pc.cartesian_bounds.clone().expect(&what);
            let mn = |k: usize| f(k).fold(None, |a: Option<f64>, v| Some(a.map_or(v, |a| a.min(v))));
            let mx = |k: usize| f(k).fold(None, |a: Option<f64>, v| Some(a.map_or(v, |a| a.max(v))));
            assert_eq!((b.x_min, b.x_max), (mn(0), mx(0)), "x bounds over the accepted points: {what}");
            assert_eq!((b.y_min, b.y_max), (mn(1), mx(1)), "y bounds over the accepted points: {what}");
            assert_eq!((b.z_min, b.z_max), (mn(2), mx(2)), "z bounds over the accepted points: {what}");
            let raw: Vec<Vec<RecordValue>> = r.pointcloud_raw(&pc).expect(&what).map(|p| p.expect(&what)).collect();
            assert_eq!(raw.len(), accepted.len(), "points read back: {what}");
            for (i, (a, b)) in raw.iter().zip(accepted.iter()).enumerate() {
                assert!(a == b, "raw point {i} differs from the accepted point: {what}: {a:?} vs {b:?}");
            }
        }
    }

    #[test]
    fn roundtrip_any_section_alignment() {
        for shift in (0..2100usize).step_by(4) {
            let what = format!("blob_len_before_cloud={shift}");
            let mut file = Cursor::new(Vec::new());
            let mut written: Vec<Vec<RecordValue>> = Vec::new();
            {
                let mut w = E57Writer::new(&mut file, "guid-file").expect(&what);
                let filler: Vec<u8> = (0..shift).map(|i| (i % 253) as u8 | 1).collect();
                let _ = w.add_blob(&mut Cursor::new(filler)).expect(&what);
                let mut pcw = w.add_pointcloud("guid-pc", proto()).expect(&what);
                for i in 0..40i64 {
                    let p = vec![
                        RecordValue::Double(i as f64 + 0.125),
                        RecordValue::Double(-(i as f64)),
                        RecordValue::Double(7.0),
                        RecordValue::Integer(i % 101),
                        RecordValue::Integer(1000 - i),
                        RecordValue::Integer(i - 5),
                        RecordValue::Integer(500),
                    ];
                    pcw.add_point(p.clone()).expect(&what);
                    written.push(p);
                }
                pcw.finalize().expect(&what);
                w.finalize().expect(&what);
            }
            let bytes = file.into_inner();
            assert!(E57Reader::validate_crc(Cursor::new(bytes.clone())).is_ok(), "every page checksum valid: {what}");
            let mut r = E57Reader::new(Cursor::new(bytes)).expect(&what);
            let pc = r.pointclouds()[0].clone();
            assert_eq!(pc.records, 40, "{what}");
            let raw: Vec<Vec<RecordValue>> = r.pointcloud_raw(&pc).expect(&what).map(|p| p.expect(&what)).collect();
            assert!(raw == written, "raw read-back differs: {what}");
        }
    }

    #[test]
    fn wide_integers_and_all_bounds() {
        let what = "wide integers";
        let proto = vec![
            Record { name: RecordName::SphericalRange, data_type: RecordDataType::F64 },
            Record { name: RecordName::SphericalAzimuth, data_type: RecordDataType::F64 },
            Record { name: RecordName::SphericalElevation, data_type: RecordDataType::F64 },
            Record { name: RecordName::RowIndex, data_type: RecordDataType::Integer { min: 0, max: i64::MAX } },
            Record { name: RecordName::ColumnIndex, data_type: RecordDataType::Integer { min: i64::MIN, max: i64::MAX } },
            Record { name: RecordName::ReturnIndex, data_type: RecordDataType::Integer { min: -10, max: i64::MAX } },
            Record { name: RecordName::Intensity, data_type: RecordDataType::ScaledInteger { min: -(1i64 << 62), max: 1i64 << 62, scale: 0.5, offset: 1.0 } },
            Record { name: RecordName::ReturnCount, data_type: RecordDataType::Integer { min: 0, max: 255 } },
        ];
        let big = (1i64 << 53) + 1;
        let rows = [big, 5, big - 2, 77, 0, 9, big - 1, 1000, 3]; // maximum 2^53+1: not representable as f64
        let cols = [0i64, -big, big - 3, -1, 1, 12, -(big - 2), 7, big - 5]; // minimum -(2^53+1); range i64::MIN..=i64::MAX: offsets >= 2^63
        let rets = [-10i64, i64::MAX - 1, 0, big, -9, 3, i64::MAX - 3, 4, 5]; // maximum i64::MAX-1: an f64 round trip saturates to i64::MAX
        let ints = [-(1i64 << 62), 1i64 << 62, 0, big, -big, 1, -1, (1i64 << 62) - 1, -(1i64 << 62) + 1];
        let mut written: Vec<Vec<RecordValue>> = Vec::new();
        let mut file = Cursor::new(Vec::new());
        {
            let mut w = E57Writer::new(&mut file, "guid-file").expect(what);
            let mut pcw = w.add_pointcloud("guid-pc", proto).expect(what);
            for i in 0..9usize {
                let p = vec![
                    RecordValue::Double(10.0 + i as f64 * 3.5),
                    RecordValue::Double(-1.0 + i as f64 * 0.25),
                    RecordValue::Double(0.5 - i as f64 * 0.125),
                    RecordValue::Integer(rows[i]),
                    RecordValue::Integer(cols[i]),
                    RecordValue::Integer(rets[i]),
                    RecordValue::ScaledInteger(ints[i]),
                    RecordValue::Integer(200 + i as i64),
                ];
                pcw.add_point(p.clone()).expect(what);
                written.push(p);
            }
            pcw.finalize().expect(what);
            w.finalize().expect(what);
        }
        let mut r = E57Reader::new(Cursor::new(file.into_inner())).expect(what);
        let pc = r.pointclouds()[0].clone();
        let ib = pc.index_bounds.clone().expect(what);
        assert_eq!((ib.row_min, ib.row_max), (rows.iter().min().copied(), rows.iter().max().copied()), "row bounds exact");
        assert_eq!((ib.column_min, ib.column_max), (cols.iter().min().copied(), cols.iter().max().copied()), "column bounds exact");
        assert_eq!((ib.return_min, ib.return_max), (rets.iter().min().copied(), rets.iter().max().copied()), "return bounds exact");
        let sb = pc.spherical_bounds.clone().expect(what);
        assert_eq!((sb.range_min, sb.range_max), (Some(10.0), Some(10.0 + 8.0 * 3.5)), "range bounds exact");
        assert_eq!((sb.azimuth_start, sb.azimuth_end), (Some(-1.0), Some(-1.0 + 8.0 * 0.25)), "azimuth bounds exact");
        assert_eq!((sb.elevation_min, sb.elevation_max), (Some(0.5 - 8.0 * 0.125), Some(0.5)), "elevation bounds exact");
        let raw: Vec<Vec<RecordValue>> = r.pointcloud_raw(&pc).expect(what).map(|p| p.expect(what)).collect();
        assert_eq!(raw.len(), 9);
        for (i, (a, b)) in raw.iter().zip(written.iter()).enumerate() {
            assert!(a == b, "raw point {i}: read {a:?}, written {b:?}");
        }
    }

    #[test]
    fn point_counts_around_packet_capacity() {
        let protos: Vec<(Vec<Record>, Vec<usize>)> = vec![
            (vec![Record::CARTESIAN_X_F32, Record::CARTESIAN_Y_F32, Record::CARTESIAN_Z_F32,
                  Record { name: RecordName::Intensity, data_type: RecordDataType::Integer { min: 0, max: 2047 } }],
             (4850..=4870).chain(9715..=9730).collect()),
            (vec![Record { name: RecordName::CartesianX, data_type: RecordDataType::ScaledInteger { min: 0, max: 524287, scale: 0.001, offset: 0.0 } },
                  Record { name: RecordName::CartesianY, data_type: RecordDataType::ScaledInteger { min: 0, max: 524287, scale: 0.001, offset: 0.0 } },
                  Record { name: RecordName::CartesianZ, data_type: RecordDataType::ScaledInteger { min: 0, max: 524287, scale: 0.001, offset: 0.0 } }],
             (9120..=9130).collect()),
        ];
        for (pi, (proto, counts)) in protos.into_iter().enumerate() {
            for n in counts {
                let what = format!("prototype {pi}, {n} points");
                let mut file = Cursor::new(Vec::new());
                let mut written: Vec<Vec<RecordValue>> = Vec::with_capacity(n);
                {
                    let mut w = E57Writer::new(&mut file, "guid-file").expect(&what);
                    let mut pcw = w.add_pointcloud("guid-pc", proto.clone()).expect(&what);
                    for i in 0..n {
                        let p = if pi == 0 {
                            vec![RecordValue::Single(i as f32), RecordValue::Single(0.5), RecordValue::Single(-(i as f32)), RecordValue::Integer((i % 2048) as i64)]
                        } else {
                            vec![RecordValue::ScaledInteger((i % 524288) as i64), RecordValue::ScaledInteger(((i * 7) % 524288) as i64), RecordValue::ScaledInteger(524287 - (i % 524288) as i64)]
                        };
                        pcw.add_point(p.clone()).expect(&what);
                        written.push(p);
                    }
                    pcw.finalize().expect(&what);
                    w.finalize().expect(&what);
                }
                let mut r = E57Reader::new(Cursor::new(file.into_inner())).expect(&what);
                let pc = r.pointclouds()[0].clone();
                assert_eq!(pc.records as usize, n, "{what}");
                let mut got = 0usize;
                for (i, p) in r.pointcloud_raw(&pc).expect(&what).enumerate() {
                    let p = p.unwrap_or_else(|e| panic!("{what}: reading point {i} failed: {e}"));
                    assert!(p == written[i], "{what}: point {i} differs");
                    got += 1;
                }
                assert_eq!(got, n, "{what}: number of points read back");
            }
        }
    }

    #[test]
    fn degenerate_prototypes_are_rejected_or_work() {
        // the calls run in a worker thread; this thread is the watchdog (a call that never returns is reported, not waited for)
        let (tx, rx) = std::sync::mpsc::channel::<()>();
        let worker = std::thread::spawn(move || { degenerate_prototypes_body(); let _ = tx.send(()); });
        match rx.recv_timeout(std::time::Duration::from_secs(120)) {
            Ok(()) => { worker.join().unwrap(); }
            Err(std::sync::mpsc::RecvTimeoutError::Disconnected) => { if let Err(e) = worker.join() { std::panic::resume_unwind(e); } }
            Err(std::sync::mpsc::RecvTimeoutError::Timeout) => panic!("degenerate prototypes: a writer call (add_pointcloud / add_point / finalize) did not return within 120 s"),
        }
    }
    fn degenerate_prototypes_body() {
        use crate::Extension;
        // (1) very long prototypes
        for n in [10usize, 5000, 5300, 6000, 21674, 21700, 40000] {
            let what = format!("prototype with {n} double extension records");
            let mut p = vec![Record::CARTESIAN_X_F64, Record::CARTESIAN_Y_F64, Record::CARTESIAN_Z_F64];
            for i in 0..n {
                p.push(Record { name: RecordName::Unknown { namespace: "ext".to_string(), name: format!("a{i}") }, data_type: RecordDataType::F64 });
            }
            let mut file = Cursor::new(Vec::new());
            let accepted;
            {
                let mut w = E57Writer::new(&mut file, "guid-file").expect(&what);
                w.register_extension(Extension::new("ext", "http://example.com/ext")).expect(&what);
                match w.add_pointcloud("guid-pc", p.clone()) {
                    Err(_) => { accepted = false; }
                    Ok(mut pcw) => {
                        accepted = true;
                        for k in 0..3 {
                            let vals: Vec<RecordValue> = (0..p.len()).map(|i| RecordValue::Double((i * 3 + k) as f64)).collect();
                            pcw.add_point(vals).expect(&what);
                        }
                        pcw.finalize().expect(&what);
                    }
                }
                w.finalize().expect(&what);
            }
            if accepted {
                let mut r = E57Reader::new(Cursor::new(file.into_inner())).expect(&what);
                let pc = r.pointclouds()[0].clone();
                assert_eq!(pc.records, 3, "{what}");
                let pts: Vec<_> = r.pointcloud_raw(&pc).expect(&what).map(|x| x.expect(&what)).collect();
                assert_eq!(pts.len(), 3, "{what}");
                for (k, pt) in pts.iter().enumerate() {
                    for (i, v) in pt.iter().enumerate() { assert!(*v == RecordValue::Double((i * 3 + k) as f64), "{what}: point {k} value {i}"); }
                }
            } else {
                // a point of up to 5000 doubles fits into a data packet: such a prototype follows every documented rule
                assert!(n > 5000, "{what}: rejected although a point fits into a data packet");
            }
        }
        // (2) a record name used twice
        let int = |lo: i64, hi: i64| RecordDataType::Integer { min: lo, max: hi };
        let dups: Vec<(&str, Record, Record)> = vec![
            ("row index twice, second scaled", Record { name: RecordName::RowIndex, data_type: int(0, 10) }, Record { name: RecordName::RowIndex, data_type: RecordDataType::ScaledInteger { min: 0, max: 10, scale: 1.0, offset: 0.0 } }),
            ("row index twice, second double", Record { name: RecordName::RowIndex, data_type: int(0, 10) }, Record { name: RecordName::RowIndex, data_type: RecordDataType::F64 }),
            ("column index twice, same type", Record { name: RecordName::ColumnIndex, data_type: int(0, 10) }, Record { name: RecordName::ColumnIndex, data_type: int(0, 10) }),
            ("x twice", Record::CARTESIAN_X_F64, Record::CARTESIAN_X_F64),
            ("x twice, second scaled", Record::CARTESIAN_X_F64, Record { name: RecordName::CartesianX, data_type: RecordDataType::ScaledInteger { min: 0, max: 10, scale: 0.5, offset: 0.0 } }),
            ("invalid state twice, second of the wrong range", Record { name: RecordName::CartesianInvalidState, data_type: int(0, 2) }, Record { name: RecordName::CartesianInvalidState, data_type: int(0, 7) }),
            ("intensity twice", Record { name: RecordName::Intensity, data_type: int(0, 10) }, Record { name: RecordName::Intensity, data_type: RecordDataType::F32 }),
            ("time stamp twice", Record { name: RecordName::TimeStamp, data_type: RecordDataType::F64 }, Record { name: RecordName::TimeStamp, data_type: RecordDataType::F64 }),
            ("extension attribute twice", Record { name: RecordName::Unknown { namespace: "ext".to_string(), name: "a".to_string() }, data_type: int(0, 10) }, Record { name: RecordName::Unknown { namespace: "ext".to_string(), name: "a".to_string() }, data_type: RecordDataType::F64 }),
        ];
        for (what, a, b) in dups {
            let mut p = vec![Record::CARTESIAN_X_F64, Record::CARTESIAN_Y_F64, Record::CARTESIAN_Z_F64];
            if a.name != RecordName::CartesianX { p.push(a.clone()); }
            p.push(b.clone());
            let value_for = |r: &Record, k: i64| match r.data_type {
                RecordDataType::Single { .. } => RecordValue::Single(k as f32),
                RecordDataType::Double { .. } => RecordValue::Double(100.0 + k as f64),
                RecordDataType::ScaledInteger { .. } => RecordValue::ScaledInteger(k),
                RecordDataType::Integer { .. } => RecordValue::Integer(k),
            };
            let mut file = Cursor::new(Vec::new());
            let mut accepted_points = 0u64;
            {
                let mut w = E57Writer::new(&mut file, "guid-file").expect(what);
                w.register_extension(Extension::new("ext", "http://example.com/ext")).expect(what);
                if let Ok(mut pcw) = w.add_pointcloud("guid-pc", p.clone()) {
                    for k in 0..3i64 {
                        let vals: Vec<RecordValue> = p.iter().map(|r| value_for(r, k)).collect();
                        if pcw.add_point(vals).is_ok() { accepted_points += 1; }
                    }
                    pcw.finalize().expect(what);
                    w.finalize().expect(what);
                } else {
                    continue;
                }
            }
            // accepted: then it has to behave (C14: bounds are those of the accepted points; C01: they read back)
            let mut r = E57Reader::new(Cursor::new(file.into_inner())).unwrap_or_else(|e| panic!("duplicate name ({what}) was accepted, but the file cannot be opened: {e}"));
            let pc = r.pointclouds()[0].clone();
            assert_eq!(pc.records, accepted_points, "duplicate name ({what})");
            if accepted_points == 0 {
                let b = pc.cartesian_bounds.clone().unwrap_or_default();
                assert!(b.x_min.is_none() && b.x_max.is_none() && b.y_min.is_none() && b.z_max.is_none(),
                    "duplicate name ({what}) was accepted, every point was rejected, and the rejected points widened the stored bounds: {b:?}");
            }
            let n = r.pointcloud_raw(&pc).unwrap().filter(|x| x.is_ok()).count() as u64;
            assert_eq!(n, accepted_points, "duplicate name ({what}): points read back");
        }
    }

    #[test]
    fn constant_records_have_bounds() {
        let konst = |v: i64| RecordDataType::Integer { min: v, max: v };
        let sconst = |v: i64| RecordDataType::ScaledInteger { min: v, max: v, scale: 0.5, offset: 1.0 };
        for n in [1usize, 5] {
            let what = format!("constant records, {n} points");
            let proto = vec![
                Record::CARTESIAN_X_F64, Record::CARTESIAN_Y_F64,
                Record { name: RecordName::CartesianZ, data_type: sconst(9) },
                Record { name: RecordName::SphericalRange, data_type: RecordDataType::F64 },
                Record { name: RecordName::SphericalAzimuth, data_type: RecordDataType::F64 },
                Record { name: RecordName::SphericalElevation, data_type: sconst(-4) },
                Record { name: RecordName::RowIndex, data_type: konst(3) },
                Record { name: RecordName::ColumnIndex, data_type: konst(0) },
                Record { name: RecordName::ReturnIndex, data_type: konst(0) },
                Record { name: RecordName::ReturnCount, data_type: konst(1) },
            ];
            let mut file = Cursor::new(Vec::new());
            {
                let mut w = E57Writer::new(&mut file, "guid-file").expect(&what);
                let mut pcw = w.add_pointcloud("guid-pc", proto).expect(&what);
                for i in 0..n {
                    pcw.add_point(vec![RecordValue::Double(i as f64), RecordValue::Double(-(i as f64)), RecordValue::ScaledInteger(9),
                        RecordValue::Double(1.0 + i as f64), RecordValue::Double(0.25 * i as f64), RecordValue::ScaledInteger(-4),
                        RecordValue::Integer(3), RecordValue::Integer(0), RecordValue::Integer(0), RecordValue::Integer(1)]).expect(&what);
                }
                pcw.finalize().expect(&what);
                w.finalize().expect(&what);
            }
            let mut r = E57Reader::new(Cursor::new(file.into_inner())).expect(&what);
            let pc = r.pointclouds()[0].clone();
            let cb = pc.cartesian_bounds.clone().expect(&what);
            assert_eq!((cb.z_min, cb.z_max), (Some(5.5), Some(5.5)), "{what}: Cartesian Z bounds of a constant record (9 * 0.5 + 1)");
            assert_eq!((cb.x_min, cb.x_max), (Some(0.0), Some((n - 1) as f64)), "{what}: Cartesian X bounds");
            let sb = pc.spherical_bounds.clone().expect(&what);
            assert_eq!((sb.elevation_min, sb.elevation_max), (Some(-1.0), Some(-1.0)), "{what}: elevation bounds of a constant record (-4 * 0.5 + 1)");
            let ib = pc.index_bounds.clone().expect(&what);
            assert_eq!((ib.row_min, ib.row_max), (Some(3), Some(3)), "{what}: row bounds of a constant record");
            assert_eq!((ib.column_min, ib.column_max), (Some(0), Some(0)), "{what}: column bounds of a constant record");
            assert_eq!((ib.return_min, ib.return_max), (Some(0), Some(0)), "{what}: return bounds of a constant record");
            let pts: Vec<_> = r.pointcloud_raw(&pc).expect(&what).map(|x| x.expect(&what)).collect();
            assert_eq!(pts.len(), n, "{what}");
            assert!(pts.iter().all(|p| p[2] == RecordValue::ScaledInteger(9) && p[6] == RecordValue::Integer(3)), "{what}: constants read back");
        }
    }
