// BOUNDED executable contract check of the writer API's totality on names (stand-in; never counted as proved): extension registration
// and prototype validation run on string data (XML name rules), which no deductive unit reaches (`str` byte reasoning is outside
// Verus here). The check calls the real functions with a grid of names under catch_unwind: never a panic; names starting with "xml"
// in any case, empty names and names with characters that cannot start / continue an XML name are refused; plain names are accepted.
//@target src/extension.rs
//@check names_never_panic serves=C10 fn=Extension::{validate_name,validate_prototype},E57Writer::{register_extension,add_pointcloud} note="BOUNDED: 40 names (empty, 1..4 bytes, ASCII / multi-byte first and later characters, xml / XML / xMl prefixes, digits, punctuation) as namespace and as attribute name: no panic; refused exactly for empty, xml-prefixed and ill-formed names among the ones whose verdict the XML name rules fix"
//@check leading_digit_or_dash_names serves=C10 fn=Extension::validate_name note="BOUNDED: names that start with a digit or a dash (1, 1a, -a, 0129, -_-): an XML name cannot start like that, so the writer must refuse them or the file it writes cannot be parsed (KNOWN FINDING F19: the real code accepts them)"
//@module
    use crate::{E57Writer, RecordDataType, RecordValue};
    use std::io::Cursor;
    use std::panic::{catch_unwind, AssertUnwindSafe};

    #[test]
    fn names_never_panic() {
        let names = ["", "a", "ab", "abc", "abcd", "x", "xm", "xml", "XML", "xMl", "xmla", "Xml1", "axml", "_", "_a", "a_", "a-b", "a.b", "-a", ".a", "1", "1a", "a1",
                     "a b", " a", "a ", "a:b", ":", "é", "éa", "aé", "ä", "日本", "a\u{301}", "\u{1F600}", "a\u{1F600}", "<", "a<", "a&", "a\"b"];
        let must_refuse = ["", "xml", "XML", "xMl", "xmla", "Xml1", ".a", "a b", " a", "a ", "<", "a<", "a&", "a\"b", "a:b", ":"];
        let must_accept = ["a", "ab", "abc", "abcd", "x", "xm", "axml", "_a", "a_", "a-b", "a1"];
        for name in names {
            let r = catch_unwind(AssertUnwindSafe(|| {
                let mut file = Cursor::new(Vec::new());
                let mut w = E57Writer::new(&mut file, "guid").unwrap();
                w.register_extension(Extension::new(name, "https://example.com/ns")).is_ok()
            }));
            let ok = r.unwrap_or_else(|_| panic!("register_extension panicked for the namespace {name:?}"));
            if must_refuse.contains(&name) {
                assert!(!ok, "namespace {name:?} must be refused");
            }
            if must_accept.contains(&name) {
                assert!(ok, "namespace {name:?} must be accepted");
            }
            // as an attribute name of a registered extension, and as an unregistered namespace
            let r2 = catch_unwind(AssertUnwindSafe(|| {
                let mut file = Cursor::new(Vec::new());
                let mut w = E57Writer::new(&mut file, "guid").unwrap();
                w.register_extension(Extension::new("ext", "https://example.com/ns")).unwrap();
                let proto = |ns: &str, n: &str| vec![Record::CARTESIAN_X_F32, Record::CARTESIAN_Y_F32, Record::CARTESIAN_Z_F32,
                    Record { name: RecordName::Unknown { namespace: ns.to_owned(), name: n.to_owned() }, data_type: RecordDataType::Integer { min: 0, max: 9 } }];
                let a = match w.add_pointcloud("pc-a", proto("ext", name)) {
                    Ok(mut pcw) => { pcw.add_point(vec![RecordValue::Single(1.0), RecordValue::Single(2.0), RecordValue::Single(3.0), RecordValue::Integer(4)]).unwrap(); pcw.finalize().is_ok() }
                    Err(_) => false,
                };
                let b = w.add_pointcloud("pc-b", proto(name, "attr")).is_ok();
                (a, b)
            }));
            let (a, b) = r2.unwrap_or_else(|_| panic!("add_pointcloud panicked for the extension attribute / namespace name {name:?}"));
            if must_refuse.contains(&name) {
                assert!(!a, "attribute name {name:?} must be refused");
            }
            if must_accept.contains(&name) {
                assert!(a, "attribute name {name:?} must be accepted");
            }
            // an unregistered namespace is never accepted
            assert!(!b || name == "ext", "unregistered namespace {name:?} accepted");
        }
    }

    #[test]
    fn leading_digit_or_dash_names() {
        for name in ["1", "1a", "-a", "0129", "-_-"] {
            let mut file = Cursor::new(Vec::new());
            let accepted = {
                let mut w = E57Writer::new(&mut file, "guid").unwrap();
                let ok = w.register_extension(Extension::new(name, "https://example.com/ns")).is_ok();
                if ok {
                    w.finalize().unwrap();
                }
                ok
            };
            if accepted {
                let readable = crate::E57Reader::new(Cursor::new(file.into_inner())).is_ok();
                assert!(readable, "F19: the namespace {name:?} is accepted by register_extension, but the file written with it is refused by the reader (ill-formed XML name): leading digit or dash must be refused");
            }
        }
    }
