// BOUNDED executable contract check of the reader (stand-in; never counted as proved): files written by the real writer into memory are
// read by ONE reader in interleaved, partly abandoned ways; every result must equal what a freshly opened reader returns for the
// same operation (contract of the Verus units rd / rd_top / page_r: results are functions of the device bytes and the arguments only),
// and every iterator yields exactly the declared number of points.
//@target src/e57_reader.rs
//@check reads_are_history_independent serves=C17,C09,C03,C05 fn=E57Reader::{pointcloud_raw,pointcloud_simple,blob,xml} note="BOUNDED: one file with two point clouds (5000 points with sub-byte, 11-bit and 61-bit integer records plus doubles; 33 points) and a 3000-byte blob; 6 interleavings of partly consumed raw / simple iterators, blob reads and full reads; compared with a fresh reader per operation"
//@check corrupted_pages_never_yield_other_data serves=C07,C08,C17 fn=PagedReader::{read_page,read},E57Reader::{new,validate_crc,pointcloud_raw} note="BOUNDED: the same file with one bit flipped at 5 positions (payload start/middle/end, first and last checksum byte) of EVERY page; E57Reader::new, raw reads of both clouds and validate_crc: validate_crc must fail, every other operation fails or returns exactly the result of the intact file; a failed read followed by a read of another cloud still returns the intact result; no panic"
//@module
    use crate::{E57Writer, Point, RawValues, Record, RecordDataType, RecordName, RecordValue};
    use std::io::Cursor;

    fn build() -> Vec<u8> {
        let mut file = Cursor::new(Vec::new());
        {
            let mut w = E57Writer::new(&mut file, "guid-file").unwrap();
            let proto1 = vec![
                Record::CARTESIAN_X_F64,
                Record::CARTESIAN_Y_F64,
                Record::CARTESIAN_Z_F64,
                Record { name: RecordName::Intensity, data_type: RecordDataType::Integer { min: 0, max: 5 } },
                Record { name: RecordName::RowIndex, data_type: RecordDataType::Integer { min: 0, max: 2047 } },
                Record { name: RecordName::ColumnIndex, data_type: RecordDataType::Integer { min: 0, max: (1i64 << 61) - 1 } },
            ];
            let mut p1 = w.add_pointcloud("guid-pc1", proto1).unwrap();
            for i in 0..5000i64 {
                p1.add_point(vec![
                    RecordValue::Double(i as f64 * 0.5),
                    RecordValue::Double(-(i as f64)),
                    RecordValue::Double(1000.0 + i as f64),
                    RecordValue::Integer(i % 6),
                    RecordValue::Integer((i * 7) % 2048),
                    RecordValue::Integer(((1i64 << 61) - 1) - i * 1_000_003),
                ])
                .unwrap();
            }
            p1.finalize().unwrap();
            let blob_bytes: Vec<u8> = (0..3000usize).map(|i| (i % 251) as u8).collect();
            let _ = w.add_blob(&mut Cursor::new(blob_bytes)).unwrap();
            let proto2 = vec![Record::CARTESIAN_X_F32, Record::CARTESIAN_Y_F32, Record::CARTESIAN_Z_F32, Record::COLOR_RED_U8, Record::COLOR_GREEN_U8, Record::COLOR_BLUE_U8];
            let mut p2 = w.add_pointcloud("guid-pc2", proto2).unwrap();
            for i in 0..33i64 {
                p2.add_point(vec![
                    RecordValue::Single(2000.0 + i as f32),
                    RecordValue::Single(i as f32),
                    RecordValue::Single(-1.0),
                    RecordValue::Integer(i),
                    RecordValue::Integer(255 - i),
                    RecordValue::Integer(128),
                ])
                .unwrap();
            }
            p2.finalize().unwrap();
            w.finalize().unwrap();
        }
        file.into_inner()
    }
    fn fresh(bytes: &[u8]) -> E57Reader<Cursor<Vec<u8>>> {
        E57Reader::new(Cursor::new(bytes.to_vec())).unwrap()
    }
    fn raw_all(r: &mut E57Reader<Cursor<Vec<u8>>>, k: usize) -> Vec<RawValues> {
        let pc = r.pointclouds()[k].clone();
        r.pointcloud_raw(&pc).unwrap().map(|p| p.unwrap()).collect()
    }
    fn simple_all(r: &mut E57Reader<Cursor<Vec<u8>>>, k: usize) -> Vec<Point> {
        let pc = r.pointclouds()[k].clone();
        r.pointcloud_simple(&pc).unwrap().map(|p| p.unwrap()).collect()
    }
    fn same_points(a: &[Point], b: &[Point]) -> bool {
        a.len() == b.len() && a.iter().zip(b.iter()).all(|(x, y)| format!("{x:?}") == format!("{y:?}"))
    }

    #[test]
    fn reads_are_history_independent() {
        let bytes = build();
        let want_raw0 = raw_all(&mut fresh(&bytes), 0);
        let want_raw1 = raw_all(&mut fresh(&bytes), 1);
        let want_simple0 = simple_all(&mut fresh(&bytes), 0);
        let want_simple1 = simple_all(&mut fresh(&bytes), 1);
        assert_eq!(want_raw0.len(), 5000, "declared record count, cloud 0");
        assert_eq!(want_raw1.len(), 33, "declared record count, cloud 1");
        assert_eq!(want_simple0.len(), 5000);
        assert_eq!(want_simple1.len(), 33);
        for plan in 0..6 {
            let mut r = fresh(&bytes);
            let pcs = r.pointclouds();
            // an earlier, partly consumed or abandoned operation ...
            match plan {
                0 => {
                    let mut it = r.pointcloud_raw(&pcs[0]).unwrap();
                    for _ in 0..1 {
                        it.next().unwrap().unwrap();
                    }
                }
                1 => {
                    let mut it = r.pointcloud_raw(&pcs[0]).unwrap();
                    for _ in 0..777 {
                        it.next().unwrap().unwrap();
                    }
                }
                2 => {
                    let mut it = r.pointcloud_simple(&pcs[1]).unwrap();
                    for _ in 0..5 {
                        it.next().unwrap().unwrap();
                    }
                }
                3 => {
                    let _ = raw_all(&mut r, 0);
                }
                4 => {
                    let _ = simple_all(&mut r, 1);
                    let mut it = r.pointcloud_raw(&pcs[1]).unwrap();
                    it.next().unwrap().unwrap();
                }
                _ => {
                    let mut it = r.pointcloud_simple(&pcs[0]).unwrap();
                    for _ in 0..2500 {
                        it.next().unwrap().unwrap();
                    }
                }
            }
            // ... must not change any later result
            assert!(raw_all(&mut r, 1) == want_raw1, "raw cloud 1 after plan {plan}");
            assert!(raw_all(&mut r, 0) == want_raw0, "raw cloud 0 after plan {plan}");
            assert!(same_points(&simple_all(&mut r, 0), &want_simple0), "simple cloud 0 after plan {plan}");
            assert!(same_points(&simple_all(&mut r, 1), &want_simple1), "simple cloud 1 after plan {plan}");
            assert!(raw_all(&mut r, 0) == want_raw0, "raw cloud 0 again after plan {plan}");
        }
    }

    #[test]
    fn corrupted_pages_never_yield_other_data() {
        let bytes = build();
        let want_raw0 = raw_all(&mut fresh(&bytes), 0);
        let want_raw1 = raw_all(&mut fresh(&bytes), 1);
        let pages = bytes.len() / 1024;
        assert_eq!(bytes.len() % 1024, 0);
        for page in 0..pages {
            for pos in [0usize, 511, 1019, 1020, 1023] {
                let what = format!("bit flipped in page {page} at byte {pos}");
                let mut bad = bytes.clone();
                bad[page * 1024 + pos] ^= 0x10;
                assert!(E57Reader::validate_crc(Cursor::new(bad.clone())).is_err(), "validate_crc must fail: {what}");
                let mut r = match E57Reader::new(Cursor::new(bad.clone())) {
                    Ok(r) => r,
                    Err(_) => continue,
                };
                let pcs = r.pointclouds();
                if pcs.len() != 2 {
                    // the XML lies in the damaged page and was refused, or page 0 (header, not checksummed on open) is damaged
                    continue;
                }
                for k in [0usize, 1, 0] {
                    let want = if k == 0 { &want_raw0 } else { &want_raw1 };
                    if let Ok(it) = r.pointcloud_raw(&pcs[k]) {
                        let mut got = Vec::new();
                        let mut failed = false;
                        for p in it {
                            match p {
                                Ok(v) => got.push(v),
                                Err(_) => {
                                    failed = true;
                                    break;
                                }
                            }
                        }
                        if failed {
                            assert!(got[..] == want[..got.len()], "points handed out before the error differ from the intact file: {what} cloud {k}");
                        } else {
                            assert!(&got == want, "a damaged file yielded other data without an error: {what} cloud {k}");
                        }
                    }
                }
            }
        }
    }
