// BOUNDED executable contract check of the reader (stand-in; never counted as proved): files written by the real writer into memory are
// read by ONE reader in interleaved, partly abandoned ways; every result must equal what a freshly opened reader returns for the
// same operation (contract of the Verus units rd / rd_top / page_r: results are functions of the device bytes and the arguments only),
// and every iterator yields exactly the declared number of points.
//@target src/e57_reader.rs
//@check reads_are_history_independent serves=C17,C09,C03,C05 fn=E57Reader::{pointcloud_raw,pointcloud_simple,blob,xml} note="BOUNDED: one file with two point clouds (5000 points with sub-byte, 11-bit and 61-bit integer records plus doubles; 33 points) and a 3000-byte blob; 6 interleavings of partly consumed raw / simple iterators, blob reads and full reads; compared with a fresh reader per operation"
//@check corrupted_pages_never_yield_other_data serves=C07,C08,C17 fn=PagedReader::{read_page,read},E57Reader::{new,validate_crc,pointcloud_raw} note="BOUNDED: the same file with one bit flipped at 5 positions (payload start/middle/end, first and last checksum byte) of EVERY page, with the stored checksum byte-reversed, and with an altered payload re-sealed in the wrong byte order; E57Reader::new, raw reads of both clouds and validate_crc: validate_crc must fail, every other operation fails or returns exactly the result of the intact file; a failed read followed by a read of another cloud still returns the intact result; no panic"
//@check unusual_packetisation_decodes serves=C03,C05,C08,C09,C12 fn=PointCloudReaderSimple::next,QueueReader::{advance,parse_byte_streams,pop_point},ByteStreamReadBuffer::{append,extract},BitPack::unpack_* note="BOUNDED: one cloud of 257 points (f64, f32, 10-bit scaled integer, 0-bit integer, 61-bit integer) encoded by an INDEPENDENT encoder in this test (own bit packer, packets, pages, CRC-32C) in 7 packetisations: one packet; 1 byte per stream per packet; chunks of 3/5/7/11 bytes (values straddle packets); one stream ahead of the others (empty streams in packets); index packet first; ignored packets of 4, 1000 and 2044 bytes in between (straddling pages); all of it behind a 1016-byte ignored packet; raw read-back compared; the simple iterator must yield the same number of points without an error item"
//@check crafted_packets_terminate serves=C09,C08 fn=QueueReader::advance,PointCloudReaderRaw::next,PointCloudReaderSimple::next note="BOUNDED: 4 crafted files with valid page checksums (ignored / index packet whose declared length runs past the end of the file; data packet whose stream sizes exceed the packet; section that ends in the middle of a packet header): every iterator step returns within 20 s (watchdog thread), with an error or the end of the iteration, never a panic"
//@module
    use crate::{E57Writer, Point, RawValues, Record, RecordDataType, RecordName, RecordValue};
    use std::io::Cursor;

    fn build() -> Vec<u8> {
        let mut file = Cursor::new(Vec::new());
        {
            let mut w = E57Writer::new(&mut file, "guid-file").unwrap();
            let proto1 = vec![
                Record::CARTESIAN_X_F64,
                Record::CARTESIAN_Y_F64,
                Record::CARTESIAN_Z_F64,
                Record { name: RecordName::Intensity, data_type: RecordDataType::Integer { min: 0, max: 5 } },
                Record { name: RecordName::RowIndex, data_type: RecordDataType::Integer { min: 0, max: 2047 } },
                Record { name: RecordName::ColumnIndex, data_type: RecordDataType::Integer { min: 0, max: (1i64 << 61) - 1 } },
            ];
            let mut p1 = w.add_pointcloud("guid-pc1", proto1).unwrap();
            for i in 0..5000i64 {
                p1.add_point(vec![
                    RecordValue::Double(i as f64 * 0.5),
                    RecordValue::Double(-(i as f64)),
                    RecordValue::Double(1000.0 + i as f64),
                    RecordValue::Integer(i % 6),
                    RecordValue::Integer((i * 7) % 2048),
                    RecordValue::Integer(((1i64 << 61) - 1) - i * 1_000_003),
                ])
                .unwrap();
            }
            p1.finalize().unwrap();
            let blob_bytes: Vec<u8> = (0..3000usize).map(|i| (i % 251) as u8).collect();
            let _ = w.add_blob(&mut Cursor::new(blob_bytes)).unwrap();
            let proto2 = vec![Record::CARTESIAN_X_F32, Record::CARTESIAN_Y_F32, Record::CARTESIAN_Z_F32, Record::COLOR_RED_U8, Record::COLOR_GREEN_U8, Record::COLOR_BLUE_U8];
            let mut p2 = w.add_pointcloud("guid-pc2", proto2).unwrap();
            for i in 0..33i64 {
                p2.add_point(vec![
                    RecordValue::Single(2000.0 + i as f32),
                    RecordValue::Single(i as f32),
                    RecordValue::Single(-1.0),
                    RecordValue::Integer(i),
                    RecordValue::Integer(255 - i),
                    RecordValue::Integer(128),
                ])
                .unwrap();
            }
            p2.finalize().unwrap();
            w.finalize().unwrap();
        }
        file.into_inner()
    }
    fn fresh(bytes: &[u8]) -> E57Reader<Cursor<Vec<u8>>> {
        E57Reader::new(Cursor::new(bytes.to_vec())).unwrap()
    }
    fn raw_all(r: &mut E57Reader<Cursor<Vec<u8>>>, k: usize) -> Vec<RawValues> {
        let pc = r.pointclouds()[k].clone();
        r.pointcloud_raw(&pc).unwrap().map(|p| p.unwrap()).collect()
    }
    fn simple_all(r: &mut E57Reader<Cursor<Vec<u8>>>, k: usize) -> Vec<Point> {
        let pc = r.pointclouds()[k].clone();
        r.pointcloud_simple(&pc).unwrap().map(|p| p.unwrap()).collect()
    }
    fn same_points(a: &[Point], b: &[Point]) -> bool {
        a.len() == b.len() && a.iter().zip(b.iter()).all(|(x, y)| format!("{x:?}") == format!("{y:?}"))
    }

    #[test]
    fn reads_are_history_independent() {
        let bytes = build();
        let want_raw0 = raw_all(&mut fresh(&bytes), 0);
        let want_raw1 = raw_all(&mut fresh(&bytes), 1);
        let want_simple0 = simple_all(&mut fresh(&bytes), 0);
        let want_simple1 = simple_all(&mut fresh(&bytes), 1);
        assert_eq!(want_raw0.len(), 5000, "declared record count, cloud 0");
        assert_eq!(want_raw1.len(), 33, "declared record count, cloud 1");
        assert_eq!(want_simple0.len(), 5000);
        assert_eq!(want_simple1.len(), 33);
        for plan in 0..6 {
            let mut r = fresh(&bytes);
            let pcs = r.pointclouds();
            // an earlier, partly consumed or abandoned operation ...
            match plan {
                0 => {
                    let mut it = r.pointcloud_raw(&pcs[0]).unwrap();
                    for _ in 0..1 {
                        it.next().unwrap().unwrap();
                    }
                }
                1 => {
                    let mut it = r.pointcloud_raw(&pcs[0]).unwrap();
                    for _ in 0..777 {
                        it.next().unwrap().unwrap();
                    }
                }
                2 => {
                    let mut it = r.pointcloud_simple(&pcs[1]).unwrap();
                    for _ in 0..5 {
                        it.next().unwrap().unwrap();
                    }
                }
                3 => {
                    let _ = raw_all(&mut r, 0);
                }
                4 => {
                    let _ = simple_all(&mut r, 1);
                    let mut it = r.pointcloud_raw(&pcs[1]).unwrap();
                    it.next().unwrap().unwrap();
                }
                _ => {
                    let mut it = r.pointcloud_simple(&pcs[0]).unwrap();
                    for _ in 0..2500 {
                        it.next().unwrap().unwrap();
                    }
                }
            }
            // ... must not change any later result
            assert!(raw_all(&mut r, 1) == want_raw1, "raw cloud 1 after plan {plan}");
            assert!(raw_all(&mut r, 0) == want_raw0, "raw cloud 0 after plan {plan}");
            assert!(same_points(&simple_all(&mut r, 0), &want_simple0), "simple cloud 0 after plan {plan}");
            assert!(same_points(&simple_all(&mut r, 1), &want_simple1), "simple cloud 1 after plan {plan}");
            assert!(raw_all(&mut r, 0) == want_raw0, "raw cloud 0 again after plan {plan}");
        }
    }

    #[test]
    fn corrupted_pages_never_yield_other_data() {
        let bytes = build();
        let want_raw0 = raw_all(&mut fresh(&bytes), 0);
        let want_raw1 = raw_all(&mut fresh(&bytes), 1);
        let pages = bytes.len() / 1024;
        assert_eq!(bytes.len() % 1024, 0);
        for page in 0..pages {
            for pos in [0usize, 511, 1019, 1020, 1023, 5000, 5001] {
                let mut bad = bytes.clone();
                let what;
                if pos == 5000 {
                    // the stored checksum with its four bytes reversed (little endian instead of big endian)
                    what = format!("checksum bytes of page {page} reversed");
                    bad[page * 1024 + 1020..page * 1024 + 1024].reverse();
                    if bad == bytes { continue; }
                } else if pos == 5001 {
                    // altered payload, re-sealed with the checksum stored in the WRONG byte order
                    what = format!("page {page}: payload altered and re-sealed with a little-endian checksum");
                    bad[page * 1024 + 300] ^= 0x01;
                    let crc = crc32c_bitwise(&bad[page * 1024..page * 1024 + 1020]);
                    if crc.to_le_bytes() == crc.to_be_bytes() { continue; }
                    bad[page * 1024 + 1020..page * 1024 + 1024].copy_from_slice(&crc.to_le_bytes());
                } else {
                    what = format!("bit flipped in page {page} at byte {pos}");
                    bad[page * 1024 + pos] ^= 0x10;
                }
                assert!(E57Reader::validate_crc(Cursor::new(bad.clone())).is_err(), "validate_crc must fail: {what}");
                let mut r = match E57Reader::new(Cursor::new(bad.clone())) {
                    Ok(r) => r,
                    Err(_) => continue,
                };
                let pcs = r.pointclouds();
                if pcs.len() != 2 {
                    // the XML lies in the damaged page and was refused, or page 0 (header, not checksummed on open) is damaged
                    continue;
                }
                for k in [0usize, 1, 0] {
                    let want = if k == 0 { &want_raw0 } else { &want_raw1 };
                    if let Ok(it) = r.pointcloud_raw(&pcs[k]) {
                        let mut got = Vec::new();
                        let mut failed = false;
                        for p in it {
                            match p {
                                Ok(v) => got.push(v),
                                Err(_) => {
                                    failed = true;
                                    break;
                                }
                            }
                        }
                        if failed {
                            assert!(got[..] == want[..got.len()], "points handed out before the error differ from the intact file: {what} cloud {k}");
                        } else {
                            assert!(&got == want, "a damaged file yielded other data without an error: {what} cloud {k}");
                        }
                    }
                }
            }
        }
    }

    // ---- independent encoder (format knowledge only; nothing from the library except the XML text it produced) -----------------------
    fn crc32c_bitwise(data: &[u8]) -> u32 {
        let mut crc = !0u32;
        for b in data {
            crc ^= *b as u32;
            for _ in 0..8 {
                crc = if crc & 1 != 0 { (crc >> 1) ^ 0x82F6_3B78 } else { crc >> 1 };
            }
        }
        !crc
    }
    fn phys(l: usize) -> u64 {
        ((l / 1020) * 1024 + l % 1020) as u64
    }
    fn to_pages(stream: &[u8]) -> Vec<u8> {
        let mut out = Vec::new();
        for chunk in stream.chunks(1020) {
            let mut payload = vec![0u8; 1020];
            payload[..chunk.len()].copy_from_slice(chunk);
            out.extend_from_slice(&payload);
            out.extend_from_slice(&crc32c_bitwise(&payload).to_be_bytes());
        }
        out
    }
    struct Bits {
        bytes: Vec<u8>,
        n: usize,
    }
    impl Bits {
        fn push(&mut self, value: u64, width: usize) {
            for k in 0..width {
                if self.n % 8 == 0 {
                    self.bytes.push(0);
                }
                if (value >> k) & 1 == 1 {
                    let last = self.bytes.len() - 1;
                    self.bytes[last] |= 1 << (self.n % 8);
                }
                self.n += 1;
            }
        }
    }
    enum Pk {
        Data(Vec<usize>), // bytes taken from each stream
        Index(usize),     // total length
        Ignored(usize),   // total length
    }
    fn pad4(v: &mut Vec<u8>) {
        while v.len() % 4 != 0 {
            v.push(0);
        }
    }

    #[test]
    fn unusual_packetisation_decodes() {
        const N: usize = 257;
        let proto = vec![
            Record::CARTESIAN_X_F64,
            Record { name: RecordName::CartesianY, data_type: RecordDataType::Single { min: None, max: None } },
            Record { name: RecordName::CartesianZ, data_type: RecordDataType::ScaledInteger { min: 0, max: 1023, scale: 0.001, offset: 0.0 } },
            Record { name: RecordName::Intensity, data_type: RecordDataType::Integer { min: 5, max: 5 } },
            Record { name: RecordName::RowIndex, data_type: RecordDataType::Integer { min: -7, max: (1i64 << 61) - 8 } },
        ];
        let mut points: Vec<RawValues> = Vec::new();
        for i in 0..N as i64 {
            points.push(vec![
                RecordValue::Double(i as f64 * 0.25 - 3.0),
                RecordValue::Single(1000.5 - i as f32),
                RecordValue::ScaledInteger((i * 37) % 1024),
                RecordValue::Integer(5),
                RecordValue::Integer(((1i64 << 61) - 8) - i * 9_000_000_007),
            ]);
        }
        // the library writes the same cloud: only its XML text and the position of the section (physical 48) are taken from it
        let mut lib = Cursor::new(Vec::new());
        {
            let mut w = E57Writer::new(&mut lib, "guid-file").unwrap();
            let mut pcw = w.add_pointcloud("guid-pc", proto.clone()).unwrap();
            for p in &points {
                pcw.add_point(p.clone()).unwrap();
            }
            pcw.finalize().unwrap();
            w.finalize().unwrap();
        }
        let lib = lib.into_inner();
        let xml = E57Reader::raw_xml(Cursor::new(lib.clone())).unwrap();
        assert!(String::from_utf8(xml.clone()).unwrap().contains("fileOffset=\"48\""), "the section of the library file starts at physical offset 48");
        // byte streams by an independent bit packer
        let mut streams: Vec<Bits> = (0..5).map(|_| Bits { bytes: Vec::new(), n: 0 }).collect();
        for i in 0..N as i64 {
            let x = (i as f64 * 0.25 - 3.0).to_bits();
            streams[0].push(x, 64);
            streams[1].push((1000.5f32 - i as f32).to_bits() as u64, 32);
            streams[2].push(((i * 37) % 1024) as u64, 10);
            // stream 3: min == max: zero bits
            let v = ((1i64 << 61) - 8) - i * 9_000_000_007;
            streams[4].push((v - (-7)) as u64, 61);
        }
        let total: Vec<usize> = streams.iter().map(|b| b.bytes.len()).collect();
        let all = |taken: &Vec<usize>| (0..5).all(|k| taken[k] == total[k]);
        // packet plans
        let mut plans: Vec<(String, Vec<Pk>)> = Vec::new();
        plans.push(("one packet".into(), vec![Pk::Data(total.clone())]));
        for (name, sizes) in [("1 byte per stream per packet", vec![1usize, 1, 1, 0, 1]), ("chunks 3/5/7/0/11", vec![3, 5, 7, 0, 11])] {
            let mut taken = vec![0usize; 5];
            let mut plan = Vec::new();
            while !all(&taken) {
                let c: Vec<usize> = (0..5).map(|k| sizes[k].min(total[k] - taken[k])).collect();
                for k in 0..5 {
                    taken[k] += c[k];
                }
                plan.push(Pk::Data(c));
            }
            plans.push((name.into(), plan));
        }
        {
            // stream 0 completely first, then the others in three steps: packets with empty streams
            let mut plan = vec![Pk::Data(vec![total[0], 0, 0, 0, 0])];
            let third = |k: usize, part: usize| if part < 2 { total[k] / 3 } else { total[k] - 2 * (total[k] / 3) };
            for part in 0..3 {
                plan.push(Pk::Data(vec![0, third(1, part), third(2, part), 0, third(4, part)]));
                plan.push(Pk::Data(vec![0, 0, 0, 0, 0]));
            }
            plans.push(("one stream ahead, empty streams".into(), plan));
        }
        {
            let half: Vec<usize> = total.iter().map(|t| t / 2).collect();
            let rest: Vec<usize> = (0..5).map(|k| total[k] - half[k]).collect();
            plans.push(("index packet first, ignored packets in between".into(),
                        vec![Pk::Index(16 + 32), Pk::Data(half.clone()), Pk::Ignored(4), Pk::Ignored(1000), Pk::Data(vec![0; 5]), Pk::Ignored(2044), Pk::Data(rest.clone()), Pk::Ignored(8)]));
            plans.push(("behind a 1016-byte ignored packet".into(), vec![Pk::Ignored(1016 - 48 - 32 - 4), Pk::Ignored(4), Pk::Data(half), Pk::Index(16), Pk::Data(rest)]));
        }
        for (name, plan) in plans {
            // logical stream: header placeholder, section header, packets, XML
            let mut stream = vec![0u8; 48];
            let mut section = vec![0u8; 32];
            let mut taken = vec![0usize; 5];
            let mut first_data: Option<usize> = None;
            for pk in &plan {
                let at = 48 + section.len();
                match pk {
                    Pk::Data(c) => {
                        if first_data.is_none() {
                            first_data = Some(at);
                        }
                        let mut p = vec![1u8, 0, 0, 0, 5, 0];
                        for k in 0..5 {
                            p.extend_from_slice(&(c[k] as u16).to_le_bytes());
                        }
                        for k in 0..5 {
                            p.extend_from_slice(&streams[k].bytes[taken[k]..taken[k] + c[k]]);
                            taken[k] += c[k];
                        }
                        pad4(&mut p);
                        assert!(p.len() <= 65536);
                        let l = (p.len() - 1) as u16;
                        p[2..4].copy_from_slice(&l.to_le_bytes());
                        section.extend_from_slice(&p);
                    }
                    Pk::Index(len) => {
                        let mut p = vec![0u8; *len];
                        p[2..4].copy_from_slice(&((*len - 1) as u16).to_le_bytes());
                        p[4..6].copy_from_slice(&(((*len - 16) / 16) as u16).to_le_bytes());
                        p[6] = if *len > 16 { 1 } else { 0 }; // index level: upper-level index packets are legal
                        for b in p[16..].iter_mut() {
                            *b = 0xEE;
                        }
                        section.extend_from_slice(&p);
                    }
                    Pk::Ignored(len) => {
                        let mut p = vec![0xDDu8; *len];
                        p[0] = 2;
                        p[1] = 0;
                        p[2..4].copy_from_slice(&((*len - 1) as u16).to_le_bytes());
                        section.extend_from_slice(&p);
                    }
                }
            }
            assert!(all(&taken), "plan {name} does not carry all stream bytes");
            section[0] = 1;
            let sl = section.len() as u64;
            section[8..16].copy_from_slice(&sl.to_le_bytes());
            // the data offset is where the first PACKET starts (index / ignored packets included)
            section[16..24].copy_from_slice(&phys(48 + 32).to_le_bytes());
            stream.extend_from_slice(&section);
            let xml_at = stream.len();
            stream.extend_from_slice(&xml);
            let pages = (stream.len() + 1019) / 1020;
            let mut header = Vec::new();
            header.extend_from_slice(b"ASTM-E57");
            header.extend_from_slice(&1u32.to_le_bytes());
            header.extend_from_slice(&0u32.to_le_bytes());
            header.extend_from_slice(&((pages * 1024) as u64).to_le_bytes());
            header.extend_from_slice(&phys(xml_at).to_le_bytes());
            header.extend_from_slice(&(xml.len() as u64).to_le_bytes());
            header.extend_from_slice(&1024u64.to_le_bytes());
            stream[..48].copy_from_slice(&header);
            let file = to_pages(&stream);
            assert!(E57Reader::validate_crc(Cursor::new(file.clone())).is_ok(), "independent encoder produces valid pages: {name}");
            let mut r = E57Reader::new(Cursor::new(file)).unwrap_or_else(|e| panic!("well-formed file refused ({name}): {e}"));
            let pc = r.pointclouds()[0].clone();
            let mut got: Vec<RawValues> = Vec::new();
            for p in r.pointcloud_raw(&pc).unwrap() {
                got.push(p.unwrap_or_else(|e| panic!("well-formed file, packetisation \"{name}\": read failed after {} points: {e}", got.len())));
            }
            assert_eq!(got.len(), N, "number of points, packetisation \"{name}\"");
            for (i, (a, b)) in got.iter().zip(points.iter()).enumerate() {
                assert!(a == b, "packetisation \"{name}\": point {i} is {a:?}, written {b:?}");
            }
            // C05: the simple iterator yields as many points as the raw one, without an error item, whatever the packetisation
            // (packets that complete no point, index / ignored packets in between), and its x coordinate is the stored double
            let mut n_simple = 0usize;
            for p in r.pointcloud_simple(&pc).unwrap() {
                let p = p.unwrap_or_else(|e| panic!("well-formed file, packetisation \"{name}\": simple iterator failed after {n_simple} points: {e}"));
                match p.cartesian {
                    crate::CartesianCoordinate::Valid { x, .. } => assert!(RecordValue::Double(x) == points[n_simple][0], "packetisation \"{name}\": simple point {n_simple} x = {x}"),
                    ref other => panic!("packetisation \"{name}\": simple point {n_simple} has no valid Cartesian coordinate: {other:?}"),
                }
                n_simple += 1;
            }
            assert_eq!(n_simple, N, "number of points from the simple iterator, packetisation \"{name}\"");
        }
    }

    #[test]
    fn crafted_packets_terminate() {
        use std::sync::mpsc;
        use std::time::Duration;
        // a small valid file from the library, then its first data packet header is overwritten in the logical stream
        let mut lib = Cursor::new(Vec::new());
        {
            let mut w = E57Writer::new(&mut lib, "guid-file").unwrap();
            let mut pcw = w.add_pointcloud("guid-pc", vec![Record::CARTESIAN_X_F64, Record::CARTESIAN_Y_F64, Record::CARTESIAN_Z_F64]).unwrap();
            for i in 0..10 {
                pcw.add_point(vec![RecordValue::Double(i as f64), RecordValue::Double(1.0), RecordValue::Double(2.0)]).unwrap();
            }
            pcw.finalize().unwrap();
            w.finalize().unwrap();
        }
        let lib = lib.into_inner();
        let mut logical: Vec<u8> = Vec::new();
        for page in lib.chunks(1024) {
            logical.extend_from_slice(&page[..1020]);
        }
        let first_packet = 48 + 32; // section at logical 48, 32-byte section header
        assert_eq!(logical[first_packet], 1, "first packet of the library file is a data packet");
        let crafts: Vec<(&str, Vec<(usize, Vec<u8>)>)> = vec![
            ("ignored packet longer than the file", vec![(first_packet, vec![2, 0, 0xFF, 0xFF])]),
            ("index packet longer than the file", vec![(first_packet, { let mut h = vec![0u8; 16]; h[2] = 0xFF; h[3] = 0xFF; h })]),
            ("stream sizes exceed the packet", vec![(first_packet + 6, vec![0xFF, 0xFF, 0xFF, 0xFF, 0xFF, 0xFF])]),
            ("packet length field of 4 bytes", vec![(first_packet + 2, vec![3, 0])]),
        ];
        for (name, edits) in crafts {
            let mut s = logical.clone();
            for (at, bytes) in edits {
                s[at..at + bytes.len()].copy_from_slice(&bytes);
            }
            let file = to_pages(&s);
            assert!(E57Reader::validate_crc(Cursor::new(file.clone())).is_ok(), "crafted file keeps valid checksums: {name}");
            for simple in [false, true] {
                let (tx, rx) = mpsc::channel();
                let f2 = file.clone();
                std::thread::spawn(move || {
                    let res = std::panic::catch_unwind(move || {
                        let mut r = match E57Reader::new(Cursor::new(f2)) { Ok(r) => r, Err(_) => return 0usize };
                        let pc = r.pointclouds()[0].clone();
                        let mut n = 0usize;
                        if simple {
                            if let Ok(it) = r.pointcloud_simple(&pc) { for p in it { if p.is_err() { break; } n += 1; if n > 1000 { break; } } }
                        } else if let Ok(it) = r.pointcloud_raw(&pc) { for p in it { if p.is_err() { break; } n += 1; if n > 1000 { break; } } }
                        n
                    });
                    let _ = tx.send(res.is_ok());
                });
                match rx.recv_timeout(Duration::from_secs(20)) {
                    Ok(no_panic) => assert!(no_panic, "reading the crafted file \"{name}\" panicked (simple iterator: {simple})"),
                    Err(_) => panic!("reading the crafted file \"{name}\" did not return within 20 s (simple iterator: {simple}): an iterator step does not terminate"),
                }
            }
        }
    }
