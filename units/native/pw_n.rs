// BOUNDED executable contract check of the page layer (stand-in; never counted as proved). The real PagedWriter runs over an in-memory
// device whose reads are short (at most `chunk` bytes per call); after every scripted operation sequence the device image must be
// exactly the page image of the logical stream model (contract of the Verus unit page_w: flush => device payload = logical stream,
// every page sealed with CRC-32C computed here by an independent bitwise routine; physical_position = phys(cursor); physical_size =
// device length; align writes only zeros up to the next multiple of 4).
//@target src/paged_writer.rs
//@check write_patch_resume serves=C11,C16,C06,C02,C15,C01 fn=PagedWriter::{write,flush,physical_seek,read_current_page,physical_position,physical_size} note="BOUNDED: read chunk sizes {1024,400,7}; first write of 0..3100 bytes at 14 lengths around page boundaries; seek back to 9 logical offsets; patch of 5 lengths; resume at the remembered end; append 3 lengths; compare whole device image"
//@check align_everywhere serves=C11,C16,C02,C15 fn=PagedWriter::align note="BOUNDED: every offset 0..2045 before align, read chunk sizes {1024,7}, 3 bytes appended afterwards; compare whole device image and cursor"
//@module
    use std::io::Cursor;

    struct Dev {
        inner: Cursor<Vec<u8>>,
        chunk: usize,
    }
    impl Read for Dev {
        fn read(&mut self, buf: &mut [u8]) -> std::io::Result<usize> {
            let n = buf.len().min(self.chunk);
            self.inner.read(&mut buf[..n])
        }
    }
    impl Write for Dev {
        fn write(&mut self, buf: &[u8]) -> std::io::Result<usize> {
            self.inner.write(buf)
        }
        fn flush(&mut self) -> std::io::Result<()> {
            self.inner.flush()
        }
    }
    impl Seek for Dev {
        fn seek(&mut self, pos: SeekFrom) -> std::io::Result<u64> {
            self.inner.seek(pos)
        }
    }

    // independent CRC-32C (Castagnoli, reflected 0x82F63B78), bit by bit
    fn crc32c(data: &[u8]) -> u32 {
        let mut crc = !0u32;
        for b in data {
            crc ^= *b as u32;
            for _ in 0..8 {
                crc = if crc & 1 != 0 { (crc >> 1) ^ 0x82F6_3B78 } else { crc >> 1 };
            }
        }
        !crc
    }
    fn phys(l: usize) -> u64 {
        ((l / 1020) * 1024 + l % 1020) as u64
    }
    /// page image of a logical stream: zero padded to whole 1020-byte payloads, each followed by its big-endian CRC-32C
    fn image(stream: &[u8]) -> Vec<u8> {
        let mut out = Vec::new();
        let pages = (stream.len() + 1019) / 1020;
        for p in 0..pages {
            let mut payload = vec![0u8; 1020];
            let lo = p * 1020;
            let hi = stream.len().min(lo + 1020);
            payload[..hi - lo].copy_from_slice(&stream[lo..hi]);
            out.extend_from_slice(&payload);
            out.extend_from_slice(&crc32c(&payload).to_be_bytes());
        }
        out
    }
    fn pattern(n: usize, seed: u8) -> Vec<u8> {
        (0..n).map(|i| (i as u8).wrapping_mul(31).wrapping_add(seed) | 1).collect()
    }
    fn put(model: &mut Vec<u8>, cursor: &mut usize, bytes: &[u8]) {
        if model.len() < *cursor + bytes.len() {
            model.resize(*cursor + bytes.len(), 0);
        }
        model[*cursor..*cursor + bytes.len()].copy_from_slice(bytes);
        *cursor += bytes.len();
    }

    #[test]
    fn write_patch_resume() {
        let firsts = [0usize, 1, 48, 1016, 1019, 1020, 1021, 1024, 2039, 2040, 2041, 2100, 3060, 3100];
        let seeks = [0usize, 8, 40, 1000, 1012, 1019, 1020, 1021, 2040];
        let patches = [1usize, 8, 16, 32, 1030];
        let appends = [0usize, 5, 1500];
        for chunk in [1024usize, 400, 7] {
            for a in firsts {
                for s in seeks {
                    for b in patches {
                        if s + b > a {
                            continue;
                        }
                        for c in appends {
                            let what = format!("chunk={chunk} first={a} seek_to={s} patch={b} append={c}");
                            let dev = Dev { inner: Cursor::new(Vec::new()), chunk };
                            let mut w = PagedWriter::new(dev).expect(&what);
                            let mut model: Vec<u8> = Vec::new();
                            let mut cursor = 0usize;
                            let d1 = pattern(a, 3);
                            w.write_all(&d1).expect(&what);
                            put(&mut model, &mut cursor, &d1);
                            let mark = w.physical_position().expect(&what);
                            assert_eq!(mark, phys(cursor), "physical_position after first write: {what}");
                            w.physical_seek(phys(s)).expect(&what);
                            assert_eq!(w.physical_position().expect(&what), phys(s), "physical_position after seek: {what}");
                            let d2 = pattern(b, 77);
                            w.write_all(&d2).expect(&what);
                            let mut c2 = s;
                            put(&mut model, &mut c2, &d2);
                            w.physical_seek(mark).expect(&what);
                            let d3 = pattern(c, 150);
                            w.write_all(&d3).expect(&what);
                            put(&mut model, &mut cursor, &d3);
                            let size = w.physical_size().expect(&what);
                            w.flush().expect(&what);
                            let want = image(&model);
                            assert_eq!(size as usize, want.len(), "physical_size: {what}");
                            let got = w.writer.inner.get_ref().clone();
                            assert!(got == want, "device image differs from the page image of the logical stream: {what}");
                        }
                    }
                }
            }
        }
    }

    #[test]
    fn align_everywhere() {
        for chunk in [1024usize, 7] {
            for off in 0..2046usize {
                let what = format!("chunk={chunk} offset_before_align={off}");
                let dev = Dev { inner: Cursor::new(Vec::new()), chunk };
                let mut w = PagedWriter::new(dev).expect(&what);
                let mut model: Vec<u8> = Vec::new();
                let mut cursor = 0usize;
                let d1 = pattern(off, 9);
                w.write_all(&d1).expect(&what);
                put(&mut model, &mut cursor, &d1);
                w.align().expect(&what);
                let pad = (4 - cursor % 4) % 4;
                put(&mut model, &mut cursor, &vec![0u8; pad]);
                assert_eq!(w.physical_position().expect(&what), phys(cursor), "cursor after align: {what}");
                let d2 = pattern(3, 200);
                w.write_all(&d2).expect(&what);
                put(&mut model, &mut cursor, &d2);
                w.flush().expect(&what);
                let got = w.writer.inner.get_ref().clone();
                assert!(got == image(&model), "device image differs after align: {what}");
            }
        }
    }
