// BOUNDED executable contract check of the interrupted-write ordering (stand-in; never counted as proved). Writer programs run on a
// recording device; every prefix of the recorded device writes, and torn cuts inside every write, is replayed into a fresh image and
// opened with the real reader. Contract (Verus units page_w/e57w/rd15: history variable `dirty`, `complete_but_header`): every image
// from before the last device write of the top-level finalize is REJECTED; a writer dropped without the top-level finalize leaves
// only rejected images; an accepted image lists exactly the point clouds of the completed file.
//@target src/e57_writer.rs
//@check crash_images_are_rejected serves=C15 fn=E57Writer::{new,finalize_customized_xml},PagedWriter::{write,flush,drop} note="BOUNDED: 3 writer programs (no cloud; one cloud of 50 points + blob; two clouds of 700 and 3 points), each also dropped without finalize after every stage; every write-granular prefix and torn cuts at 24 positions (every header field boundary 8..49 and +-1, 512, 1019, 1020, 1023) inside every device write; E57Reader::new on each image"
//@module
    use crate::{E57Reader, RecordValue};
    use std::cell::RefCell;
    use std::io::{Cursor, SeekFrom};
    use std::rc::Rc;

    #[derive(Clone)]
    struct Rec {
        inner: Rc<RefCell<Cursor<Vec<u8>>>>,
        log: Rc<RefCell<Vec<(u64, Vec<u8>)>>>,
    }
    impl Read for Rec {
        fn read(&mut self, buf: &mut [u8]) -> std::io::Result<usize> {
            self.inner.borrow_mut().read(buf)
        }
    }
    impl Write for Rec {
        fn write(&mut self, buf: &[u8]) -> std::io::Result<usize> {
            let pos = self.inner.borrow().position();
            self.log.borrow_mut().push((pos, buf.to_vec()));
            self.inner.borrow_mut().write(buf)
        }
        fn flush(&mut self) -> std::io::Result<()> {
            Ok(())
        }
    }
    impl Seek for Rec {
        fn seek(&mut self, pos: SeekFrom) -> std::io::Result<u64> {
            self.inner.borrow_mut().seek(pos)
        }
    }
    fn apply(image: &mut Vec<u8>, pos: u64, bytes: &[u8]) {
        let end = pos as usize + bytes.len();
        if image.len() < end {
            image.resize(end, 0);
        }
        image[pos as usize..end].copy_from_slice(bytes);
    }
    /// what an accepted image reports: point cloud listing, XML text and the header fields (every read operation must equal the completed file)
    fn accepted_clouds(image: &[u8]) -> Option<Vec<String>> {
        match E57Reader::new(Cursor::new(image.to_vec())) {
            Ok(r) => {
                let mut v: Vec<String> = r.pointclouds().iter().map(|p| format!("{:?} records={} offset={}", p.guid, p.records, p.file_offset)).collect();
                let h = r.header();
                v.push(format!("header: xml_offset={} xml_length={} phys_length={} page_size={}", h.phys_xml_offset, h.xml_length, h.phys_length, h.page_size));
                v.push(r.xml().to_owned());
                Some(v)
            }
            Err(_) => None,
        }
    }
    /// program k, stopped after `stages` stages (the last stage is the top-level finalize); returns the write log and whether it finalized
    fn run(program: usize, stages: usize) -> (Vec<(u64, Vec<u8>)>, bool) {
        let rec = Rec { inner: Rc::new(RefCell::new(Cursor::new(Vec::new()))), log: Rc::new(RefCell::new(Vec::new())) };
        let mut finalized = false;
        {
            let mut w = E57Writer::new(rec.clone(), "guid-file").unwrap();
            let mut stage = 0;
            let clouds: &[usize] = match program { 0 => &[], 1 => &[50], _ => &[700, 3] };
            for (ci, n) in clouds.iter().enumerate() {
                if stage >= stages { break; }
                let mut pcw = w.add_pointcloud(&format!("guid-pc{ci}"), vec![Record::CARTESIAN_X_F64, Record::CARTESIAN_Y_F64, Record::CARTESIAN_Z_F64]).unwrap();
                for i in 0..*n {
                    pcw.add_point(vec![RecordValue::Double(i as f64), RecordValue::Double(1.0), RecordValue::Double(-2.0)]).unwrap();
                }
                pcw.finalize().unwrap();
                stage += 1;
                if program == 1 && stage < stages {
                    let _ = w.add_blob(&mut Cursor::new(vec![7u8; 333])).unwrap();
                    stage += 1;
                }
            }
            if stage < stages {
                w.finalize().unwrap();
                finalized = true;
            }
            // the writer is dropped here (with or without the top-level finalize)
        }
        let log = rec.log.borrow().clone();
        (log, finalized)
    }

    #[test]
    fn crash_images_are_rejected() {
        for program in 0..3usize {
            let full_stages = match program { 0 => 1, 1 => 3, _ => 3 };
            let (full_log, fin) = run(program, full_stages);
            assert!(fin);
            let mut complete = Vec::new();
            for (p, b) in &full_log { apply(&mut complete, *p, b); }
            let want = accepted_clouds(&complete).expect("the completed file must be accepted");
            for stages in 0..=full_stages {
                let (log, finalized) = run(program, stages);
                let mut image: Vec<u8> = Vec::new();
                for (k, (pos, bytes)) in log.iter().enumerate() {
                    // torn cuts inside write k, then the complete write
                    for cut in [1usize, 8, 12, 16, 23, 24, 25, 26, 28, 31, 32, 33, 34, 36, 39, 40, 41, 47, 48, 49, 512, 1019, 1020, 1023] {
                        if cut < bytes.len() {
                            let mut torn = image.clone();
                            apply(&mut torn, *pos, &bytes[..cut]);
                            if let Some(got) = accepted_clouds(&torn) {
                                assert!(finalized && got == want, "an image torn inside write {k} (cut {cut}) of program {program}/{stages} stages was accepted with clouds {got:?}, completed file has {want:?}");
                            }
                        }
                    }
                    apply(&mut image, *pos, bytes);
                    if let Some(got) = accepted_clouds(&image) {
                        assert!(finalized, "program {program} stopped after {stages} stages WITHOUT the top-level finalize, yet the image after device write {k} of {} was accepted with clouds {got:?}", log.len());
                        assert!(got == want, "accepted image after write {k} of program {program} lists {got:?}, completed file has {want:?}");
                    }
                }
            }
        }
    }
