// BOUNDED executable contract check of image payloads (stand-in; never counted as proved). ImageWriter's add_* methods are thin
// wrappers over Blob::write (proved in unit blob) plus descriptor bookkeeping that no deductive unit covers; this check runs the real
// writer and reader and compares every payload byte for byte: each representation kind, with and without mask, payload and mask
// distinguishable, several images per file, a point cloud in between.
//@target src/image_writer.rs
//@check image_payloads_round_trip serves=C06 fn=ImageWriter::{add_visual_reference,add_pinhole,add_spherical,add_cylindrical,finalize},E57Reader::{images,blob} note="BOUNDED: 3 files x (visual reference + one of pinhole / spherical / cylindrical), masks present or absent in every combination, payload lengths {0, 1, 1003, 1021, 5000} rotated, PNG / JPEG formats; every image and mask blob read back through E57Reader::blob and compared; formats, sizes and which blob belongs to which representation compared"
//@check failing_sources_are_reported serves=C06 fn=ImageWriter::{add_visual_reference,add_pinhole,add_spherical,add_cylindrical} note="BOUNDED: for each of the four representations, an image source or a mask source that fails after 0 / 10 / 1500 bytes: the call returns an error (a failed image or mask transfer is never reported as success with the payload missing); with intact sources it succeeds and stores the mask descriptor"
//@module
    use crate::{E57Reader, E57Writer, Record, RecordValue};
    use std::io::Cursor;

    fn payload(n: usize, seed: u8) -> Vec<u8> {
        (0..n).map(|i| (i as u8).wrapping_mul(13).wrapping_add(seed) | 1).collect()
    }
    fn read_blob(r: &mut E57Reader<Cursor<Vec<u8>>>, b: &Blob) -> Vec<u8> {
        let mut out = Vec::new();
        let n = r.blob(b, &mut out).unwrap();
        assert_eq!(n as usize, out.len());
        assert_eq!(b.length as usize, out.len(), "descriptor length");
        out
    }

    #[test]
    fn image_payloads_round_trip() {
        let lens = [0usize, 1, 1003, 1021, 5000];
        for kind in 0..3usize {
            for masks in 0..4usize {
                let what = format!("projection kind {kind}, masks pattern {masks}");
                let (vis_mask, proj_mask) = (masks & 1 != 0, masks & 2 != 0);
                let l = |k: usize| lens[(kind * 4 + masks + k) % lens.len()];
                let vis = payload(l(0), 10);
                let vis_m = payload(l(1), 60);
                let proj = payload(l(2), 120);
                let proj_m = payload(l(3), 200);
                let mut file = Cursor::new(Vec::new());
                {
                    let mut w = E57Writer::new(&mut file, "guid-file").expect(&what);
                    {
                        let mut iw = w.add_image("guid-img-0").expect(&what);
                        let mut vm = Cursor::new(vis_m.clone());
                        iw.add_visual_reference(ImageFormat::Png, &mut Cursor::new(vis.clone()), VisualReferenceImageProperties { width: 3, height: 4 },
                                                if vis_mask { Some(&mut vm) } else { None }).expect(&what);
                        let mut pm = Cursor::new(proj_m.clone());
                        let m: Option<&mut dyn Read> = if proj_mask { Some(&mut pm) } else { None };
                        match kind {
                            0 => iw.add_pinhole(ImageFormat::Jpeg, &mut Cursor::new(proj.clone()),
                                                PinholeImageProperties { width: 5, height: 6, focal_length: 1.5, pixel_width: 0.1, pixel_height: 0.2, principal_x: 2.0, principal_y: 3.0 }, m).expect(&what),
                            1 => iw.add_spherical(ImageFormat::Png, &mut Cursor::new(proj.clone()),
                                                  SphericalImageProperties { width: 7, height: 8, pixel_width: 0.3, pixel_height: 0.4 }, m).expect(&what),
                            _ => iw.add_cylindrical(ImageFormat::Jpeg, &mut Cursor::new(proj.clone()),
                                                    CylindricalImageProperties { width: 9, height: 10, radius: 2.5, principal_y: 1.0, pixel_width: 0.5, pixel_height: 0.6 }, m).expect(&what),
                        }
                        iw.finalize().expect(&what);
                    }
                    {
                        let mut pcw = w.add_pointcloud("guid-pc", vec![Record::CARTESIAN_X_F32, Record::CARTESIAN_Y_F32, Record::CARTESIAN_Z_F32]).expect(&what);
                        for i in 0..300 {
                            pcw.add_point(vec![RecordValue::Single(i as f32), RecordValue::Single(1.0), RecordValue::Single(2.0)]).expect(&what);
                        }
                        pcw.finalize().expect(&what);
                    }
                    {
                        // a second image with only a visual reference, behind the point cloud
                        let mut iw = w.add_image("guid-img-1").expect(&what);
                        iw.add_visual_reference(ImageFormat::Jpeg, &mut Cursor::new(payload(777, 33)), VisualReferenceImageProperties { width: 1, height: 2 }, None).expect(&what);
                        iw.finalize().expect(&what);
                    }
                    w.finalize().expect(&what);
                }
                let mut r = E57Reader::new(Cursor::new(file.into_inner())).expect(&what);
                let imgs = r.images();
                assert_eq!(imgs.len(), 2, "{what}");
                let v = imgs[0].visual_reference.clone().expect(&what);
                assert!(matches!(v.blob.format, ImageFormat::Png), "visual reference format: {what}");
                assert_eq!((v.properties.width, v.properties.height), (3, 4), "{what}");
                assert!(read_blob(&mut r, &v.blob.data) == vis, "visual reference payload: {what}");
                assert_eq!(v.mask.is_some(), vis_mask, "visual reference mask presence: {what}");
                if let Some(m) = &v.mask {
                    assert!(read_blob(&mut r, m) == vis_m, "visual reference mask payload: {what}");
                }
                let (pb, pmask, fmt_png) = match imgs[0].projection.clone().expect(&what) {
                    Projection::Pinhole(p) => { assert_eq!(kind, 0, "{what}"); assert_eq!((p.properties.width, p.properties.height), (5, 6)); (p.blob.data.clone(), p.mask.clone(), matches!(p.blob.format, ImageFormat::Png)) }
                    Projection::Spherical(p) => { assert_eq!(kind, 1, "{what}"); assert_eq!((p.properties.width, p.properties.height), (7, 8)); (p.blob.data.clone(), p.mask.clone(), matches!(p.blob.format, ImageFormat::Png)) }
                    Projection::Cylindrical(p) => { assert_eq!(kind, 2, "{what}"); assert_eq!((p.properties.width, p.properties.height), (9, 10)); (p.blob.data.clone(), p.mask.clone(), matches!(p.blob.format, ImageFormat::Png)) }
                };
                assert_eq!(fmt_png, kind == 1, "projection image format: {what}");
                assert!(read_blob(&mut r, &pb) == proj, "projection payload: {what}");
                assert_eq!(pmask.is_some(), proj_mask, "projection mask presence: {what}");
                if let Some(m) = &pmask {
                    assert!(read_blob(&mut r, m) == proj_m, "projection mask payload: {what}");
                }
                let v1 = imgs[1].visual_reference.clone().expect(&what);
                assert!(read_blob(&mut r, &v1.blob.data) == payload(777, 33), "second image payload: {what}");
                assert!(imgs[1].projection.is_none() && v1.mask.is_none(), "{what}");
                // and the point cloud between the images is intact
                let pc = r.pointclouds()[0].clone();
                assert_eq!(r.pointcloud_raw(&pc).expect(&what).count(), 300, "{what}");
            }
        }
    }

    /// a source that delivers `ok` bytes and then reports an I/O error
    struct FailingSource { ok: usize, given: usize }
    impl Read for FailingSource {
        fn read(&mut self, buf: &mut [u8]) -> std::io::Result<usize> {
            if self.given >= self.ok { return Err(std::io::Error::new(std::io::ErrorKind::Other, "source failed")); }
            let n = buf.len().min(self.ok - self.given).min(700);
            for b in buf[..n].iter_mut() { *b = 0xAB; }
            self.given += n;
            Ok(n)
        }
    }

    #[test]
    fn failing_sources_are_reported() {
        for kind in 0..4 {
            for fail_mask in [false, true] {
                for ok in [0usize, 10, 1500] {
                    let what = format!("representation {kind}, failing {} after {ok} bytes", if fail_mask { "mask" } else { "image" });
                    let mut file = Cursor::new(Vec::new());
                    let mut w = E57Writer::new(&mut file, "guid-file").expect(&what);
                    let mut iw = w.add_image("guid-img").expect(&what);
                    let mut good_img = Cursor::new(payload(1200, 7));
                    let mut good_mask = Cursor::new(payload(900, 9));
                    let mut bad = FailingSource { ok, given: 0 };
                    let (img, mask): (&mut dyn Read, Option<&mut dyn Read>) = if fail_mask { (&mut good_img, Some(&mut bad)) } else { (&mut bad, Some(&mut good_mask)) };
                    let r = match kind {
                        0 => iw.add_visual_reference(ImageFormat::Png, img, VisualReferenceImageProperties { width: 3, height: 4 }, mask),
                        1 => iw.add_pinhole(ImageFormat::Jpeg, img, PinholeImageProperties { width: 5, height: 6, focal_length: 1.5, pixel_width: 0.1, pixel_height: 0.2, principal_x: 2.0, principal_y: 3.0 }, mask),
                        2 => iw.add_spherical(ImageFormat::Png, img, SphericalImageProperties { width: 7, height: 8, pixel_width: 0.3, pixel_height: 0.4 }, mask),
                        _ => iw.add_cylindrical(ImageFormat::Jpeg, img, CylindricalImageProperties { width: 9, height: 10, radius: 2.5, principal_y: 1.0, pixel_width: 0.5, pixel_height: 0.6 }, mask),
                    };
                    assert!(r.is_err(), "{what}: the call reported success although the transfer failed");
                }
            }
        }
    }
