// BOUNDED executable contract check of normalisation (stand-in; never counted as proved). Kani proves "never NaN, >= 0, 0 at the minimum"
// for ALL ranges and values (norm_k); "1 at the maximum" and monotonicity need x/x and ordered division, which did not finish in CBMC.
// This check runs the real Range::normalize on a grid that contains the corner cases of the property: degenerate, subnormal, ordinary,
// huge one-sided and unrepresentable (wider than f64::MAX) ranges.
//@target src/pc_reader_simple.rs
//@check normalize_grid serves=C13 fn=Range::normalize note="BOUNDED: 14 ranges (degenerate, subnormal width, [0,1], [0,255], [-5,1000], [0,2^53], one-sided huge, f64::MIN..f64::MAX, -1e308..1e308, ...) x 41 sample values per range (below, at and above both ends, interior points): result in [0,1], never NaN, exactly 0 at/below the minimum, exactly 1 at/above the maximum of a non-degenerate range, non-decreasing in the value, and equal to (v-min)/(max-min) in f64 where that expression is exact"
//@check channel_limits_wiring serves=C13,C05 fn=Range::{red,green,blue,intensity}_from_pointcloud,PointCloudReaderSimple::{new,pop_point} note="BOUNDED: one cloud with integer colour records and an intensity record, explicit limits that differ in EVERY channel (red 10..110, green 100..200, blue 0..50, intensity 1000..3000) and values inside them; the simple iterator must deliver (v - min_c) / (max_c - min_c) with the limits of the SAME channel; with normalisation switched off the stored values as f32"
//@check stored_values_outside_the_range_are_clamped serves=C13 fn=PointCloudReaderSimple::{normalize_value,pop_point},Range::normalize note="BOUNDED: float intensity / colour attributes (the writer does not range-check floats) with declared ranges [0,1] (UNIT_F32), [0,255], [-1,1] and limits 0..1 on an f64 attribute; 9 stored values per range (far below, just below, at the minimum, inside, at the maximum, just above, 1e30, f32::MAX / 1e300); through the public simple iterator with normalisation on: every delivered component is finite, within [0,1], equals ((clamp(v)-min)/(max-min)) as f32, 0 at/below the minimum and 1 at/above the maximum"
//@module
    use crate::{ColorLimits, E57Reader, E57Writer, IntensityLimits, Record, RecordDataType, RecordName, RecordValue};
    use std::io::Cursor;

    #[test]
    fn normalize_grid() {
        let ranges: [(f64, f64); 14] = [
            (0.0, 0.0), (5.0, 5.0), (0.0, 1.0), (0.0, 255.0), (-5.0, 1000.0), (0.0, 9007199254740992.0),
            (0.0, f64::MIN_POSITIVE), (-4.9e-324, 4.9e-324), (1.0e300, 1.0e300 * 1.0000001),
            (0.0, f64::MAX), (f64::MIN, 0.0), (f64::MIN, f64::MAX), (-1.0e308, 1.0e308), (-f64::MAX / 1.5, f64::MAX),
        ];
        for (min, max) in ranges {
            let r = Range::from_min_max(min, max).unwrap();
            let mut samples: Vec<f64> = vec![f64::MIN, min - 1.0, min, max, max + 1.0, f64::MAX, 0.0, -0.0];
            for k in 0..=32 {
                let t = k as f64 / 32.0;
                samples.push(min * (1.0 - t) + max * t);
            }
            samples.sort_by(|a, b| a.partial_cmp(b).unwrap());
            let mut last = -1.0f32;
            for v in samples {
                let n = r.normalize(v);
                let what = format!("range [{min:e}, {max:e}] value {v:e} -> {n}");
                assert!(!n.is_nan(), "NaN: {what}");
                assert!((0.0..=1.0).contains(&n), "outside [0,1]: {what}");
                assert!(n >= last, "not monotone ({last} before): {what}");
                last = n;
                if v <= min {
                    assert_eq!(n, 0.0, "must be 0 at / below the minimum: {what}");
                }
                if max > min && v >= max {
                    assert_eq!(n, 1.0, "must be 1 at / above the maximum: {what}");
                }
                if max == min {
                    assert_eq!(n, 0.0, "degenerate range: {what}");
                }
            }
            // exact interior value where the arithmetic is exact
            if (min, max) == (0.0, 255.0) {
                assert_eq!(r.normalize(51.0), 0.2f64 as f32);
            }
            if (min, max) == (-5.0, 1000.0) {
                assert_eq!(r.normalize(196.0), 0.2f64 as f32);
            }
        }
    }

    #[test]
    fn channel_limits_wiring() {
        let int = |min: i64, max: i64| RecordDataType::Integer { min, max };
        let proto = vec![
            Record::CARTESIAN_X_F32, Record::CARTESIAN_Y_F32, Record::CARTESIAN_Z_F32,
            Record { name: RecordName::ColorRed, data_type: int(0, 4095) },
            Record { name: RecordName::ColorGreen, data_type: int(0, 4095) },
            Record { name: RecordName::ColorBlue, data_type: int(0, 4095) },
            Record { name: RecordName::Intensity, data_type: int(0, 4095) },
        ];
        let lim = [(10i64, 110i64), (100, 200), (0, 50), (1000, 3000)];
        let pts: Vec<[i64; 4]> = vec![[10, 100, 0, 1000], [110, 200, 50, 3000], [35, 150, 10, 1500], [60, 125, 40, 2500], [85, 175, 25, 2000]];
        let mut file = Cursor::new(Vec::new());
        {
            let mut w = E57Writer::new(&mut file, "guid").unwrap();
            let mut pcw = w.add_pointcloud("pc", proto).unwrap();
            pcw.set_color_limits(Some(ColorLimits {
                red_min: Some(RecordValue::Integer(lim[0].0)), red_max: Some(RecordValue::Integer(lim[0].1)),
                green_min: Some(RecordValue::Integer(lim[1].0)), green_max: Some(RecordValue::Integer(lim[1].1)),
                blue_min: Some(RecordValue::Integer(lim[2].0)), blue_max: Some(RecordValue::Integer(lim[2].1)),
            }));
            pcw.set_intensity_limits(Some(IntensityLimits { intensity_min: Some(RecordValue::Integer(lim[3].0)), intensity_max: Some(RecordValue::Integer(lim[3].1)) }));
            for p in &pts {
                pcw.add_point(vec![RecordValue::Single(1.0), RecordValue::Single(2.0), RecordValue::Single(3.0),
                                   RecordValue::Integer(p[0]), RecordValue::Integer(p[1]), RecordValue::Integer(p[2]), RecordValue::Integer(p[3])]).unwrap();
            }
            pcw.finalize().unwrap();
            w.finalize().unwrap();
        }
        let bytes = file.into_inner();
        let mut r = E57Reader::new(Cursor::new(bytes.clone())).unwrap();
        let pc = r.pointclouds()[0].clone();
        let want = |v: i64, c: usize| ((v - lim[c].0) as f64 / (lim[c].1 - lim[c].0) as f64) as f32;
        for (i, p) in r.pointcloud_simple(&pc).unwrap().enumerate() {
            let p = p.unwrap();
            let c = p.color.clone().expect("colour present");
            assert_eq!((c.red, c.green, c.blue), (want(pts[i][0], 0), want(pts[i][1], 1), want(pts[i][2], 2)), "normalised colour of point {i}: every channel with its own limits");
            assert_eq!(p.intensity, Some(want(pts[i][3], 3)), "normalised intensity of point {i}");
        }
        let mut r = E57Reader::new(Cursor::new(bytes)).unwrap();
        let mut it = r.pointcloud_simple(&pc).unwrap();
        it.normalize_color(false);
        it.normalize_intensity(false);
        for (i, p) in it.enumerate() {
            let p = p.unwrap();
            let c = p.color.clone().expect("colour present");
            assert_eq!((c.red, c.green, c.blue), (pts[i][0] as f32, pts[i][1] as f32, pts[i][2] as f32), "raw colour of point {i} with normalisation off");
            assert_eq!(p.intensity, Some(pts[i][3] as f32), "raw intensity of point {i} with normalisation off");
        }
    }

    #[test]
    fn stored_values_outside_the_range_are_clamped() {
        // (declared range of the f32 attribute, explicit f64 limits for the second cloud)
        let ranges: [(f32, f32); 3] = [(0.0, 1.0), (0.0, 255.0), (-1.0, 1.0)];
        for (lo, hi) in ranges {
            let w = hi - lo;
            let vals: Vec<f32> = vec![lo - 1.0e30, lo - 0.25 * w, lo, lo + 0.25 * w, lo + 0.5 * w, hi, hi + 0.25 * w, 1.0e30, f32::MAX];
            let proto = vec![
                Record::CARTESIAN_X_F32, Record::CARTESIAN_Y_F32, Record::CARTESIAN_Z_F32,
                Record { name: RecordName::Intensity, data_type: RecordDataType::Single { min: Some(lo), max: Some(hi) } },
                Record { name: RecordName::ColorRed, data_type: RecordDataType::Single { min: Some(lo), max: Some(hi) } },
                Record { name: RecordName::ColorGreen, data_type: RecordDataType::Single { min: Some(lo), max: Some(hi) } },
                Record { name: RecordName::ColorBlue, data_type: RecordDataType::Single { min: Some(lo), max: Some(hi) } },
            ];
            let mut file = Cursor::new(Vec::new());
            {
                let mut wr = E57Writer::new(&mut file, "guid").unwrap();
                let mut pcw = wr.add_pointcloud("pc", proto).unwrap();
                for v in &vals {
                    pcw.add_point(vec![RecordValue::Single(1.0), RecordValue::Single(2.0), RecordValue::Single(3.0),
                                       RecordValue::Single(*v), RecordValue::Single(*v), RecordValue::Single(*v), RecordValue::Single(*v)]).unwrap();
                }
                pcw.finalize().unwrap();
                wr.finalize().unwrap();
            }
            let mut r = E57Reader::new(Cursor::new(file.into_inner())).unwrap();
            let pc = r.pointclouds()[0].clone();
            for (i, p) in r.pointcloud_simple(&pc).unwrap().enumerate() {
                let p = p.unwrap();
                let v = vals[i] as f64;
                let want = ((v.clamp(lo as f64, hi as f64) - lo as f64) / (hi as f64 - lo as f64)) as f32;
                let c = p.color.clone().expect("colour present");
                for (what, got) in [("intensity", p.intensity.expect("intensity present")), ("red", c.red), ("green", c.green), ("blue", c.blue)] {
                    assert!(got.is_finite() && (0.0..=1.0).contains(&got), "range [{lo},{hi}], stored {v}: normalised {what} = {got} is not within [0,1]");
                    assert!(got == want, "range [{lo},{hi}], stored {v}: normalised {what} = {got}, expected {want}");
                }
            }
        }
        // an f64 attribute with explicit limits 0..1 and values far outside
        let vals: Vec<f64> = vec![-1.0e300, -0.25, 0.0, 0.25, 0.5, 1.0, 1.25, 1.0e30, 1.0e300];
        let proto = vec![
            Record::CARTESIAN_X_F32, Record::CARTESIAN_Y_F32, Record::CARTESIAN_Z_F32,
            Record { name: RecordName::Intensity, data_type: RecordDataType::Double { min: None, max: None } },
        ];
        let mut file = Cursor::new(Vec::new());
        {
            let mut wr = E57Writer::new(&mut file, "guid").unwrap();
            let mut pcw = wr.add_pointcloud("pc", proto).unwrap();
            pcw.set_intensity_limits(Some(IntensityLimits { intensity_min: Some(RecordValue::Double(0.0)), intensity_max: Some(RecordValue::Double(1.0)) }));
            for v in &vals {
                pcw.add_point(vec![RecordValue::Single(1.0), RecordValue::Single(2.0), RecordValue::Single(3.0), RecordValue::Double(*v)]).unwrap();
            }
            pcw.finalize().unwrap();
            wr.finalize().unwrap();
        }
        let mut r = E57Reader::new(Cursor::new(file.into_inner())).unwrap();
        let pc = r.pointclouds()[0].clone();
        for (i, p) in r.pointcloud_simple(&pc).unwrap().enumerate() {
            let got = p.unwrap().intensity.expect("intensity present");
            let want = vals[i].clamp(0.0, 1.0) as f32;
            assert!(got.is_finite() && got == want, "f64 intensity with limits 0..1, stored {}: normalised = {got}, expected {want}", vals[i]);
        }
    }
