// BOUNDED executable contract check of normalisation (stand-in; never counted as proved). Kani proves "never NaN, >= 0, 0 at the minimum"
// for ALL ranges and values (norm_k); "1 at the maximum" and monotonicity need x/x and ordered division, which did not finish in CBMC.
// This check runs the real Range::normalize on a grid that contains the corner cases of the property: degenerate, subnormal, ordinary,
// huge one-sided and unrepresentable (wider than f64::MAX) ranges.
//@target src/pc_reader_simple.rs
//@check normalize_grid serves=C13 fn=Range::normalize note="BOUNDED: 14 ranges (degenerate, subnormal width, [0,1], [0,255], [-5,1000], [0,2^53], one-sided huge, f64::MIN..f64::MAX, -1e308..1e308, ...) x 41 sample values per range (below, at and above both ends, interior points): result in [0,1], never NaN, exactly 0 at/below the minimum, exactly 1 at/above the maximum of a non-degenerate range, non-decreasing in the value, and equal to (v-min)/(max-min) in f64 where that expression is exact"
//@module
    #[test]
    fn normalize_grid() {
        let ranges: [(f64, f64); 14] = [
            (0.0, 0.0), (5.0, 5.0), (0.0, 1.0), (0.0, 255.0), (-5.0, 1000.0), (0.0, 9007199254740992.0),
            (0.0, f64::MIN_POSITIVE), (-4.9e-324, 4.9e-324), (1.0e300, 1.0e300 * 1.0000001),
            (0.0, f64::MAX), (f64::MIN, 0.0), (f64::MIN, f64::MAX), (-1.0e308, 1.0e308), (-f64::MAX / 1.5, f64::MAX),
        ];
        for (min, max) in ranges {
            let r = Range::from_min_max(min, max).unwrap();
            let mut samples: Vec<f64> = vec![f64::MIN, min - 1.0, min, max, max + 1.0, f64::MAX, 0.0, -0.0];
            for k in 0..=32 {
                let t = k as f64 / 32.0;
                samples.push(min * (1.0 - t) + max * t);
            }
            samples.sort_by(|a, b| a.partial_cmp(b).unwrap());
            let mut last = -1.0f32;
            for v in samples {
                let n = r.normalize(v);
                let what = format!("range [{min:e}, {max:e}] value {v:e} -> {n}");
                assert!(!n.is_nan(), "NaN: {what}");
                assert!((0.0..=1.0).contains(&n), "outside [0,1]: {what}");
                assert!(n >= last, "not monotone ({last} before): {what}");
                last = n;
                if v <= min {
                    assert_eq!(n, 0.0, "must be 0 at / below the minimum: {what}");
                }
                if max > min && v >= max {
                    assert_eq!(n, 1.0, "must be 1 at / above the maximum: {what}");
                }
                if max == min {
                    assert_eq!(n, 0.0, "degenerate range: {what}");
                }
            }
            // exact interior value where the arithmetic is exact
            if (min, max) == (0.0, 255.0) {
                assert_eq!(r.normalize(51.0), 0.2f64 as f32);
            }
            if (min, max) == (-5.0, 1000.0) {
                assert_eq!(r.normalize(196.0), 0.2f64 as f32);
            }
        }
    }
