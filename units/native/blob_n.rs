// BOUNDED executable contract check of the blob layer (stand-in; never counted as proved). The real Blob::write runs over the real
// PagedWriter on an in-memory device with short reads; the resulting device image is decoded by an independent routine (strip the
// page checksums, read the section header of the format: id 0, little-endian section length = 16 + payload + padding to 4) and
// compared with the contract of the Verus unit blob; the real Blob::read must return exactly the payload.
//@target src/blob.rs
//@check blob_write_read_any_alignment serves=C06,C02,C16 fn=Blob::{write,read} note="BOUNDED: read chunk sizes {1024,5}; section start at every 4-aligned logical offset 0..2044; payload lengths {0,1,3,4,5,17,1003,1020,2041}; a second blob behind the first; descriptor, section header, payload, padding and read-back compared"
//@module
    use std::cell::RefCell;
    use std::io::{Cursor, SeekFrom};
    use std::rc::Rc;

    /// in-memory device shared with the test (the writer owns one handle, the test keeps another to look at the image); short reads
    #[derive(Clone)]
    struct Dev {
        inner: Rc<RefCell<Cursor<Vec<u8>>>>,
        chunk: usize,
    }
    impl Read for Dev {
        fn read(&mut self, buf: &mut [u8]) -> std::io::Result<usize> {
            let n = buf.len().min(self.chunk);
            self.inner.borrow_mut().read(&mut buf[..n])
        }
    }
    impl Write for Dev {
        fn write(&mut self, buf: &[u8]) -> std::io::Result<usize> {
            self.inner.borrow_mut().write(buf)
        }
        fn flush(&mut self) -> std::io::Result<()> {
            self.inner.borrow_mut().flush()
        }
    }
    impl Seek for Dev {
        fn seek(&mut self, pos: SeekFrom) -> std::io::Result<u64> {
            self.inner.borrow_mut().seek(pos)
        }
    }
    fn phys(l: usize) -> u64 {
        ((l / 1020) * 1024 + l % 1020) as u64
    }
    fn logical(image: &[u8]) -> Vec<u8> {
        let mut out = Vec::new();
        for page in image.chunks(1024) {
            out.extend_from_slice(&page[..page.len().min(1020)]);
        }
        out
    }
    fn pattern(n: usize, seed: u8) -> Vec<u8> {
        (0..n).map(|i| (i as u8).wrapping_mul(29).wrapping_add(seed) | 1).collect()
    }
    fn check_section(stream: &[u8], start: usize, payload: &[u8], what: &str) -> usize {
        let total = (16 + payload.len() + 3) / 4 * 4;
        assert!(stream.len() >= start + total, "section is not completely in the stream: {what}");
        assert_eq!(stream[start], 0, "section id: {what}");
        assert!(stream[start + 1..start + 8].iter().all(|b| *b == 0), "reserved bytes: {what}");
        let mut len = [0u8; 8];
        len.copy_from_slice(&stream[start + 8..start + 16]);
        assert_eq!(u64::from_le_bytes(len), total as u64, "section length field (header + payload + padding): {what}");
        assert!(&stream[start + 16..start + 16 + payload.len()] == payload, "payload bytes in the stream: {what}");
        assert!(stream[start + 16 + payload.len()..start + total].iter().all(|b| *b == 0), "padding: {what}");
        start + total
    }

    #[test]
    fn blob_write_read_any_alignment() {
        let lens = [0usize, 1, 3, 4, 5, 17, 1003, 1020, 2041];
        for chunk in [1024usize, 5] {
            for start in (0..2048usize).step_by(4) {
                for len in lens {
                    let what = format!("chunk={chunk} section_start={start} payload_len={len}");
                    let shared = Rc::new(RefCell::new(Cursor::new(Vec::new())));
                    let mut w = PagedWriter::new(Dev { inner: shared.clone(), chunk }).expect(&what);
                    let prefix = pattern(start, 11);
                    w.write_all(&prefix).expect(&what);
                    let payload = pattern(len, 90);
                    let b1 = Blob::write(&mut w, &mut Cursor::new(payload.clone())).expect(&what);
                    assert_eq!(b1.offset, phys(start), "descriptor offset: {what}");
                    assert_eq!(b1.length, len as u64, "descriptor length: {what}");
                    let second = pattern(7, 33);
                    let b2 = Blob::write(&mut w, &mut Cursor::new(second.clone())).expect(&what);
                    w.flush().expect(&what);
                    // independent decoding of the device image
                    let image = shared.borrow().get_ref().clone();
                    assert_eq!(image.len() % 1024, 0, "whole pages: {what}");
                    let stream = logical(&image);
                    assert!(stream[..start] == prefix[..], "bytes before the section: {what}");
                    let next = check_section(&stream, start, &payload, &what);
                    assert_eq!(b2.offset, phys(next), "second descriptor offset: {what}");
                    let end = check_section(&stream, next, &second, &what);
                    assert!(stream[end..].iter().all(|b| *b == 0), "nothing behind the last section: {what}");
                    // the real reader returns exactly the payloads
                    let mut r = PagedReader::new(Cursor::new(image), 1024).expect(&what);
                    let mut out2 = Vec::new();
                    assert_eq!(b2.read(&mut r, &mut out2).expect(&what), 7, "second blob length read: {what}");
                    assert!(out2 == second, "second blob read back: {what}");
                    let mut out1 = Vec::new();
                    assert_eq!(b1.read(&mut r, &mut out1).expect(&what), len as u64, "first blob length read: {what}");
                    assert!(out1 == payload, "first blob read back: {what}");
                }
            }
        }
    }
